package main

// C18 — issue messages come from the most specific configured source, for every kind.
//
// Behavioural extraction with sentinel error maps.  A *site* is (issue kind, raising schema type,
// wrapper): a schema built so that parsing a given input raises exactly that issue, at top level or
// below an object field / slice element / array item / record value / map value / tuple item.
// For every site and every subset of the applicable message sources
//
//	c = the failing check's own message     s = the raising schema's own message
//	p = per-parse error map (ParseContext)  g = global CustomError      l = global LocaleError
//
// the site is parsed with a constant sentinel installed for each configured source, and the
// source whose sentinel ends up in ZodIssue.Message is recorded ("d" = built-in text, "e" = empty,
// "n" = the expected issue was not reported).
//
//	op line:   c18 wire <site> <kind> <wrapper> <applicable> <configured>      impl: <winner>
//	op line:   c18 loc <locale> <kind-key>                                     impl: 1 | 0   (message non-empty)
//
// wiring.txt / locales.txt in the out dir are what vlib/c18.py turns into Gen/MsgWiring.lean and
// Gen/LocaleTable.lean.

import (
	"fmt"
	"os"
	"regexp"
	"strings"

	"github.com/kaptinlin/gozod"
	"github.com/kaptinlin/gozod/coerce"
	"github.com/kaptinlin/gozod/core"
	"github.com/kaptinlin/gozod/locales"
	"github.com/kaptinlin/gozod/types"

	"verifharness/hx"
)

func main() {
	if err := run(hx.ParseFlags()); err != nil {
		fmt.Fprintln(os.Stderr, "harness error:", err)
		os.Exit(3)
	}
}

// ---------------------------------------------------------------- leaf sites

type leaf struct {
	id     string // unique, no spaces
	kind   string // issue kind of the statement's quantifier, e.g. too_small:string
	raiser string // schema type that raises it
	build  func(chk, sch []any) core.ZodSchema
	input  any
	code   core.IssueCode
	chk    bool // a check-level message can be configured
	sch    bool // a schema-level message can be configured
	repro  string
}

func join(a, b []any) []any { return append(append([]any{}, a...), b...) }

func leaves() []leaf {
	re := regexp.MustCompile(`^[a-z]+$`)
	return []leaf{
		// ---- invalid_type, per raising schema
		{id: "type-string", kind: "invalid_type", raiser: "String", sch: true, code: core.InvalidType, input: 1,
			build: func(c, s []any) core.ZodSchema { return gozod.String(s...) }, repro: "String(sch).Parse(1)"},
		{id: "type-int", kind: "invalid_type", raiser: "Int", sch: true, code: core.InvalidType, input: "x",
			build: func(c, s []any) core.ZodSchema { return gozod.Int(s...) }, repro: `Int(sch).Parse("x")`},
		{id: "type-float", kind: "invalid_type", raiser: "Float64", sch: true, code: core.InvalidType, input: "x",
			build: func(c, s []any) core.ZodSchema { return gozod.Float64(s...) }, repro: `Float64(sch).Parse("x")`},
		{id: "type-bool", kind: "invalid_type", raiser: "Bool", sch: true, code: core.InvalidType, input: "x",
			build: func(c, s []any) core.ZodSchema { return gozod.Bool(s...) }, repro: `Bool(sch).Parse("x")`},
		{id: "type-object", kind: "invalid_type", raiser: "Object", sch: true, code: core.InvalidType, input: 1,
			build: func(c, s []any) core.ZodSchema {
				return gozod.Object(core.ObjectSchema{"a": gozod.String()}, s...)
			}, repro: "Object({a:String()},sch).Parse(1)"},
		{id: "type-slice", kind: "invalid_type", raiser: "Slice", sch: true, code: core.InvalidType, input: 1,
			build: func(c, s []any) core.ZodSchema { return gozod.Slice[any](gozod.String(), s...) }, repro: "Slice[any](String(),sch).Parse(1)"},
		{id: "type-array", kind: "invalid_type", raiser: "Array", sch: true, code: core.InvalidType, input: 1,
			build: func(c, s []any) core.ZodSchema { return gozod.Array(join([]any{gozod.String()}, s)...) }, repro: "Array(String(),sch).Parse(1)"},
		{id: "type-record", kind: "invalid_type", raiser: "Record", sch: true, code: core.InvalidType, input: 1,
			build: func(c, s []any) core.ZodSchema { return types.Record(gozod.String(), gozod.String(), s...) }, repro: "Record(String(),String(),sch).Parse(1)"},
		{id: "type-map", kind: "invalid_type", raiser: "Map", sch: true, code: core.InvalidType, input: 1,
			build: func(c, s []any) core.ZodSchema { return gozod.Map(gozod.String(), gozod.String(), s...) }, repro: "Map(String(),String(),sch).Parse(1)"},
		{id: "type-time", kind: "invalid_type", raiser: "Time", sch: true, code: core.InvalidType, input: 1,
			build: func(c, s []any) core.ZodSchema { return gozod.Time(s...) }, repro: "Time(sch).Parse(1)"},
		{id: "type-field-missing", kind: "invalid_type", raiser: "Object.field", sch: true, code: core.InvalidType, input: map[string]any{},
			build: func(c, s []any) core.ZodSchema {
				return gozod.Object(core.ObjectSchema{"a": gozod.String(s...)})
			}, repro: "Object({a:String(sch)}).Parse({})"},
		{id: "type-nonoptional", kind: "invalid_type", raiser: "NonOptional", code: core.InvalidType, input: nil,
			build: func(c, s []any) core.ZodSchema { return gozod.String().Optional().NonOptional() }, repro: "String().Optional().NonOptional().Parse(nil)"},

		// ---- too_small / too_big, per origin
		{id: "small-string", kind: "too_small:string", raiser: "String.Min", chk: true, sch: true, code: core.TooSmall, input: "a",
			build: func(c, s []any) core.ZodSchema { return gozod.String(s...).Min(5, c...) }, repro: `String(sch).Min(5,chk).Parse("a")`},
		{id: "big-string", kind: "too_big:string", raiser: "String.Max", chk: true, sch: true, code: core.TooBig, input: "abc",
			build: func(c, s []any) core.ZodSchema { return gozod.String(s...).Max(1, c...) }, repro: `String(sch).Max(1,chk).Parse("abc")`},
		{id: "small-int", kind: "too_small:number", raiser: "Int.Min", chk: true, sch: true, code: core.TooSmall, input: 1,
			build: func(c, s []any) core.ZodSchema { return gozod.Int(s...).Min(5, c...) }, repro: "Int(sch).Min(5,chk).Parse(1)"},
		{id: "big-int", kind: "too_big:number", raiser: "Int.Max", chk: true, sch: true, code: core.TooBig, input: 9,
			build: func(c, s []any) core.ZodSchema { return gozod.Int(s...).Max(5, c...) }, repro: "Int(sch).Max(5,chk).Parse(9)"},
		{id: "small-float", kind: "too_small:number", raiser: "Float64.Min", chk: true, sch: true, code: core.TooSmall, input: 1.5,
			build: func(c, s []any) core.ZodSchema { return gozod.Float64(s...).Min(5, c...) }, repro: "Float64(sch).Min(5,chk).Parse(1.5)"},
		{id: "small-slice", kind: "too_small:array", raiser: "Slice.Min", chk: true, sch: true, code: core.TooSmall, input: []any{"a"},
			build: func(c, s []any) core.ZodSchema { return gozod.Slice[any](gozod.String(), s...).Min(2, c...) }, repro: `Slice[any](String(),sch).Min(2,chk).Parse(["a"])`},
		{id: "big-slice", kind: "too_big:array", raiser: "Slice.Max", chk: true, sch: true, code: core.TooBig, input: []any{"a", "b"},
			build: func(c, s []any) core.ZodSchema { return gozod.Slice[any](gozod.String(), s...).Max(1, c...) }, repro: `Slice[any](String(),sch).Max(1,chk).Parse(["a","b"])`},
		{id: "small-map", kind: "too_small:map", raiser: "Map.Min", chk: true, sch: true, code: core.TooSmall, input: map[any]any{"a": "b"},
			build: func(c, s []any) core.ZodSchema {
				return gozod.Map(gozod.String(), gozod.String(), s...).Min(2, c...)
			}, repro: `Map(String(),String(),sch).Min(2,chk).Parse({"a":"b"})`},
		{id: "small-record", kind: "too_small:record", raiser: "Record.Min", chk: true, sch: true, code: core.TooSmall, input: map[string]any{"a": "b"},
			build: func(c, s []any) core.ZodSchema {
				return types.Record(gozod.String(), gozod.String(), s...).Min(2, c...)
			}, repro: `Record(String(),String(),sch).Min(2,chk).Parse({"a":"b"})`},
		{id: "big-array-length", kind: "too_big:array", raiser: "Array(fixed length)", sch: true, code: core.TooBig, input: []any{"a", "b"},
			build: func(c, s []any) core.ZodSchema { return gozod.Array(join([]any{gozod.String()}, s)...) }, repro: `Array(String(),sch).Parse(["a","b"])`},
		{id: "small-tuple-length", kind: "too_small:array", raiser: "Tuple(length)", code: core.TooSmall, input: []any{"a"},
			build: func(c, s []any) core.ZodSchema { return gozod.Tuple(gozod.String(), gozod.String()) }, repro: `Tuple(String(),String()).Parse(["a"])`},

		// ---- invalid_format, per format
		{id: "format-email", kind: "invalid_format:email", raiser: "String.Email", chk: true, sch: true, code: core.InvalidFormat, input: "x",
			build: func(c, s []any) core.ZodSchema { return gozod.String(s...).Email(c...) }, repro: `String(sch).Email(chk).Parse("x")`},
		{id: "format-regex", kind: "invalid_format:regex", raiser: "String.Regex", chk: true, sch: true, code: core.InvalidFormat, input: "X1",
			build: func(c, s []any) core.ZodSchema { return gozod.String(s...).Regex(re, c...) }, repro: `String(sch).Regex(^[a-z]+$,chk).Parse("X1")`},
		{id: "format-starts", kind: "invalid_format:starts_with", raiser: "String.StartsWith", chk: true, sch: true, code: core.InvalidFormat, input: "x",
			build: func(c, s []any) core.ZodSchema { return gozod.String(s...).StartsWith("q", c...) }, repro: `String(sch).StartsWith("q",chk).Parse("x")`},
		{id: "format-includes", kind: "invalid_format:includes", raiser: "String.Includes", chk: true, sch: true, code: core.InvalidFormat, input: "x",
			build: func(c, s []any) core.ZodSchema { return gozod.String(s...).Includes("q", c...) }, repro: `String(sch).Includes("q",chk).Parse("x")`},
		{id: "format-json", kind: "invalid_format:json_string", raiser: "String.JSON", chk: true, sch: true, code: core.InvalidFormat, input: "{",
			build: func(c, s []any) core.ZodSchema { return gozod.String(s...).JSON(c...) }, repro: `String(sch).JSON(chk).Parse("{")`},
		{id: "format-email-type", kind: "invalid_format:email", raiser: "Email", sch: true, code: core.InvalidFormat, input: "x",
			build: func(c, s []any) core.ZodSchema { return gozod.Email(s...) }, repro: `Email(sch).Parse("x")`},
		{id: "format-uuid-type", kind: "invalid_format:uuid", raiser: "UUID", sch: true, code: core.InvalidFormat, input: "x",
			build: func(c, s []any) core.ZodSchema { return gozod.UUID(s...) }, repro: `UUID(sch).Parse("x")`},
		{id: "format-ipv4-type", kind: "invalid_format:ipv4", raiser: "IPv4", sch: true, code: core.InvalidFormat, input: "x",
			build: func(c, s []any) core.ZodSchema { return gozod.IPv4(s...) }, repro: `IPv4(sch).Parse("x")`},
		{id: "format-url-type", kind: "invalid_format:url", raiser: "URL", sch: true, code: core.InvalidFormat, input: "x y",
			build: func(c, s []any) core.ZodSchema { return gozod.URL(s...) }, repro: `URL(sch).Parse("x y")`},

		// ---- not_multiple_of
		{id: "multiple-int", kind: "not_multiple_of", raiser: "Int.MultipleOf", chk: true, sch: true, code: core.NotMultipleOf, input: 4,
			build: func(c, s []any) core.ZodSchema { return gozod.Int(s...).MultipleOf(3, c...) }, repro: "Int(sch).MultipleOf(3,chk).Parse(4)"},
		{id: "multiple-float", kind: "not_multiple_of", raiser: "Float64.MultipleOf", chk: true, sch: true, code: core.NotMultipleOf, input: 4.0,
			build: func(c, s []any) core.ZodSchema { return gozod.Float64(s...).MultipleOf(3, c...) }, repro: "Float64(sch).MultipleOf(3,chk).Parse(4.0)"},

		// ---- unrecognized_keys
		{id: "keys-strict-object", kind: "unrecognized_keys", raiser: "StrictObject", sch: true, code: core.UnrecognizedKeys, input: map[string]any{"a": "x", "zz": 1},
			build: func(c, s []any) core.ZodSchema {
				return gozod.StrictObject(core.ObjectSchema{"a": gozod.String()}, s...)
			}, repro: `StrictObject({a:String()},sch).Parse({"a":"x","zz":1})`},

		// ---- invalid_union
		{id: "union", kind: "invalid_union", raiser: "Union", sch: true, code: core.InvalidUnion, input: true,
			build: func(c, s []any) core.ZodSchema { return gozod.Union([]any{gozod.String(), gozod.Int()}, s...) }, repro: "Union([String(),Int()],sch).Parse(true)"},
		{id: "union-discriminated", kind: "invalid_union", raiser: "DiscriminatedUnion", sch: true, code: core.InvalidUnion, input: map[string]any{"t": "zz"},
			build: func(c, s []any) core.ZodSchema {
				return gozod.DiscriminatedUnion("t", []any{
					gozod.Object(core.ObjectSchema{"t": gozod.Literal("a")}),
					gozod.Object(core.ObjectSchema{"t": gozod.Literal("b")})}, s...)
			}, repro: `DiscriminatedUnion("t",[{t:"a"},{t:"b"}],sch).Parse({"t":"zz"})`},

		// ---- invalid_value
		{id: "value-enum", kind: "invalid_value", raiser: "Enum", code: core.InvalidValue, input: "zz",
			build: func(c, s []any) core.ZodSchema { return gozod.Enum("a", "b") }, repro: `Enum("a","b").Parse("zz")`},
		{id: "type-literal", kind: "invalid_type", raiser: "Literal", sch: true, code: core.InvalidType, input: "zz",
			build: func(c, s []any) core.ZodSchema { return gozod.Literal("a", s...) }, repro: `Literal("a",sch).Parse("zz")`},

		// ---- invalid_key / invalid_element (the library reports a failing record/map key or set value through the
		// key schema's own issue; only Array items are wrapped in invalid_element)
		{id: "key-record", kind: "too_small:string", raiser: "Record(key schema String.Min)", code: core.TooSmall, input: map[string]any{"k": "v"},
			build: func(c, s []any) core.ZodSchema { return types.Record(gozod.String().Min(3), gozod.String()) }, repro: `Record(String().Min(3),String()).Parse({"k":"v"})`},
		{id: "key-map", kind: "too_small:string", raiser: "Map(key schema String.Min)", code: core.TooSmall, input: map[any]any{"k": "v"},
			build: func(c, s []any) core.ZodSchema { return gozod.Map(gozod.String().Min(3), gozod.String()) }, repro: `Map(String().Min(3),String()).Parse({"k":"v"})`},
		{id: "element-array", kind: "invalid_element", raiser: "Array(item)", code: core.InvalidElement, input: []any{1},
			build: func(c, s []any) core.ZodSchema { return gozod.Array(gozod.String()) }, repro: `Array(String()).Parse([1])`},
		{id: "element-set", kind: "too_small:string", raiser: "Set(value schema String.Min)", code: core.TooSmall, input: map[string]struct{}{"a": {}},
			build: func(c, s []any) core.ZodSchema { return gozod.Set[string](gozod.String().Min(3)) }, repro: `Set[string](String().Min(3)).Parse({"a"})`},

		// ---- further schema types and checks
		{id: "type-set", kind: "invalid_type", raiser: "Set", sch: true, code: core.InvalidType, input: 1,
			build: func(c, s []any) core.ZodSchema { return gozod.Set[string](gozod.String(), s...) }, repro: "Set[string](String(),sch).Parse(1)"},
		{id: "small-set", kind: "too_small:set", raiser: "Set.Min", chk: true, sch: true, code: core.TooSmall, input: map[string]struct{}{"a": {}},
			build: func(c, s []any) core.ZodSchema { return gozod.Set[string](gozod.String(), s...).Min(2, c...) }, repro: `Set[string](String(),sch).Min(2,chk).Parse({"a"})`},
		{id: "union-xor", kind: "invalid_union", raiser: "Xor", sch: true, code: core.InvalidUnion, input: true,
			build: func(c, s []any) core.ZodSchema { return types.Xor([]any{gozod.String(), gozod.Int()}, s...) }, repro: "Xor([String(),Int()],sch).Parse(true)"},
		{id: "format-lowercase", kind: "invalid_format:lowercase", raiser: "String.Lowercase", chk: true, sch: true, code: core.InvalidFormat, input: "AB",
			build: func(c, s []any) core.ZodSchema { return gozod.String(s...).Lowercase(c...) }, repro: `String(sch).Lowercase(chk).Parse("AB")`},
		{id: "small-string-length", kind: "too_small:string", raiser: "String.Length", chk: true, sch: true, code: core.TooSmall, input: "a",
			build: func(c, s []any) core.ZodSchema { return gozod.String(s...).Length(3, c...) }, repro: `String(sch).Length(3,chk).Parse("a")`},
		{id: "small-int-positive", kind: "too_small:number", raiser: "Int.Positive", chk: true, sch: true, code: core.TooSmall, input: -1,
			build: func(c, s []any) core.ZodSchema { return gozod.Int(s...).Positive(c...) }, repro: "Int(sch).Positive(chk).Parse(-1)"},
		{id: "small-slice-nonempty", kind: "too_small:array", raiser: "Slice.NonEmpty", chk: true, sch: true, code: core.TooSmall, input: []any{},
			build: func(c, s []any) core.ZodSchema { return gozod.Slice[any](gozod.String(), s...).NonEmpty(c...) }, repro: `Slice[any](String(),sch).NonEmpty(chk).Parse([])`},

		// ---- issues raised on DERIVED inputs: a prefault value, a coerced value, an overwritten (trimmed) value
		{id: "small-string-prefault", kind: "too_small:string", raiser: "String.Min on a prefault value", chk: true, sch: true, code: core.TooSmall, input: nil,
			build: func(c, s []any) core.ZodSchema { return gozod.String(s...).Min(5, c...).Prefault("a") }, repro: `String(sch).Min(5,chk).Prefault("a").Parse(nil)`},
		{id: "small-int-prefault", kind: "too_small:number", raiser: "Int.Min on a prefault value", chk: true, sch: true, code: core.TooSmall, input: nil,
			build: func(c, s []any) core.ZodSchema { return gozod.Int(s...).Min(5, c...).Prefault(1) }, repro: `Int(sch).Min(5,chk).Prefault(1).Parse(nil)`},
		{id: "small-slice-prefault", kind: "too_small:array", raiser: "Slice.Min on a prefault value", chk: true, sch: true, code: core.TooSmall, input: nil,
			build: func(c, s []any) core.ZodSchema {
				return gozod.Slice[any](gozod.String(), s...).Min(2, c...).Prefault([]any{"a"})
			}, repro: `Slice[any](String(),sch).Min(2,chk).Prefault(["a"]).Parse(nil)`},
		{id: "type-object-field-prefault", kind: "invalid_type", raiser: "Object field on a prefault value", sch: true, code: core.InvalidType, input: nil,
			build: func(c, s []any) core.ZodSchema {
				return gozod.Object(core.ObjectSchema{"a": gozod.String(s...)}).Prefault(map[string]any{"a": 1})
			}, repro: `Object({a:String(sch)}).Prefault({"a":1}).Parse(nil)`},
		{id: "small-string-coerced", kind: "too_small:string", raiser: "CoercedString.Min on a coerced value", chk: true, sch: true, code: core.TooSmall, input: 12,
			build: func(c, s []any) core.ZodSchema { return coerce.String(s...).Min(5, c...) }, repro: `CoercedString(sch).Min(5,chk).Parse(12)`},
		{id: "small-string-trimmed", kind: "too_small:string", raiser: "String.Trim.Min on an overwritten value", chk: true, sch: true, code: core.TooSmall, input: "  a   ",
			build: func(c, s []any) core.ZodSchema { return gozod.String(s...).Trim().Min(5, c...) }, repro: `String(sch).Trim().Min(5,chk).Parse("  a   ")`},

		// ---- custom
		{id: "custom-refine-string", kind: "custom", raiser: "String.Refine", chk: true, sch: true, code: core.Custom, input: "x",
			build: func(c, s []any) core.ZodSchema {
				return gozod.String(s...).Refine(func(string) bool { return false }, c...)
			}, repro: `String(sch).Refine(false,chk).Parse("x")`},
		{id: "custom-refine-int", kind: "custom", raiser: "Int.Refine", chk: true, sch: true, code: core.Custom, input: 1,
			build: func(c, s []any) core.ZodSchema {
				return gozod.Int(s...).Refine(func(int) bool { return false }, c...)
			}, repro: `Int(sch).Refine(false,chk).Parse(1)`},
		{id: "custom-refine-object", kind: "custom", raiser: "Object.Refine", chk: true, sch: true, code: core.Custom, input: map[string]any{"a": "x"},
			build: func(c, s []any) core.ZodSchema {
				return gozod.Object(core.ObjectSchema{"a": gozod.String()}, s...).Refine(func(map[string]any) bool { return false }, c...)
			}, repro: `Object({a:String()},sch).Refine(false,chk).Parse({"a":"x"})`},
		{id: "custom-refine-slice", kind: "custom", raiser: "Slice.Refine", chk: true, sch: true, code: core.Custom, input: []any{"a"},
			build: func(c, s []any) core.ZodSchema {
				return gozod.Slice[any](gozod.String(), s...).Refine(func([]any) bool { return false }, c...)
			}, repro: `Slice[any](String(),sch).Refine(false,chk).Parse(["a"])`},
	}
}

// ---------------------------------------------------------------- wrappers (nesting)

type wrapper struct {
	id   string
	wrap func(core.ZodSchema) core.ZodSchema
	in   func(any) any
	desc string
}

func wrappers() []wrapper {
	return []wrapper{
		{"top", func(s core.ZodSchema) core.ZodSchema { return s }, func(v any) any { return v }, "S.Parse(v)"},
		{"object-field", func(s core.ZodSchema) core.ZodSchema { return gozod.Object(core.ObjectSchema{"f": s}) },
			func(v any) any { return map[string]any{"f": v} }, `Object({f:S}).Parse({"f":v})`},
		{"slice-element", func(s core.ZodSchema) core.ZodSchema { return gozod.Slice[any](s) },
			func(v any) any { return []any{v} }, "Slice[any](S).Parse([v])"},
		{"array-item", func(s core.ZodSchema) core.ZodSchema { return gozod.Array(s) },
			func(v any) any { return []any{v} }, "Array(S).Parse([v])"},
		{"tuple-item", func(s core.ZodSchema) core.ZodSchema { return gozod.Tuple(s) },
			func(v any) any { return []any{v} }, "Tuple(S).Parse([v])"},
		{"record-value", func(s core.ZodSchema) core.ZodSchema { return types.Record(gozod.String(), s) },
			func(v any) any { return map[string]any{"k": v} }, `Record(String(),S).Parse({"k":v})`},
		{"map-value", func(s core.ZodSchema) core.ZodSchema { return gozod.Map(gozod.String(), s) },
			func(v any) any { return map[any]any{"k": v} }, `Map(String(),S).Parse({"k":v})`},
		{"object-in-slice", func(s core.ZodSchema) core.ZodSchema {
			return gozod.Slice[any](gozod.Object(core.ObjectSchema{"f": s}))
		}, func(v any) any { return []any{map[string]any{"f": v}} }, `Slice[any](Object({f:S})).Parse([{"f":v}])`},
	}
}

// ---------------------------------------------------------------- running one cell

const (
	srcC = 1 << iota
	srcS
	srcP
	srcG
	srcL
)

func maskStr(m int) string {
	var b strings.Builder
	for i, ch := range "cspgl" {
		if m&(1<<i) != 0 {
			b.WriteRune(ch)
		}
	}
	if b.Len() == 0 {
		return "-"
	}
	return b.String()
}

func constant(s string) core.ZodErrorMap { return func(core.ZodRawIssue) string { return s } }

// findIssue looks for the DEEPEST issue with the wanted code (the leaf's issue lies below every issue the wrappers
// raise around it: sub-issues of invalid_element, branch errors of invalid_union), first in order among equals.
func findIssue(list []core.ZodIssue, code core.IssueCode) (core.ZodIssue, bool) {
	is, d := findIssueDepth(list, code, 0)
	return is, d >= 0
}

func findIssueDepth(list []core.ZodIssue, code core.IssueCode, depth int) (best core.ZodIssue, bestDepth int) {
	bestDepth = -1
	for _, is := range list {
		if is.Code == code && bestDepth < depth {
			best, bestDepth = is, depth
		}
		if x, d := findIssueDepth(is.Issues, code, depth+1); d > bestDepth {
			best, bestDepth = x, d
		}
		for _, br := range is.Errors {
			if x, d := findIssueDepth(br, code, depth+1); d > bestDepth {
				best, bestDepth = x, d
			}
		}
	}
	return best, bestDepth
}

func runCell(lf leaf, w wrapper, mask int) (winner string, issue core.ZodIssue, found bool) {
	return runCellWith(lf, w, mask, 0, false)
}

func runCellSilent(lf leaf, w wrapper, mask, silent int) (winner string, issue core.ZodIssue, found bool) {
	return runCellWith(lf, w, mask, silent, true)
}

// runCellWith parses one site under one configuration.  asFuncs: the check and schema messages are given
// as message functions instead of strings.  The sources in `silent` (a subset of mask) are configured with a
// map that answers "" (it declines the issue), so the next source has to be asked.
func runCellWith(lf leaf, w wrapper, mask, silent int, asFuncs bool) (winner string, issue core.ZodIssue, found bool) {
	tag := func(bit int, t string) core.ZodErrorMap {
		if silent&bit != 0 {
			return constant("")
		}
		return constant(t)
	}
	var c, s []any
	if mask&srcC != 0 {
		c = []any{"CHK"}
		if asFuncs {
			c = []any{(func(core.ZodRawIssue) string)(tag(srcC, "CHK"))}
		}
	}
	if mask&srcS != 0 {
		s = []any{"SCH"}
		if asFuncs {
			s = []any{(func(core.ZodRawIssue) string)(tag(srcS, "SCH"))}
		}
	}
	core.SetConfig(nil)
	cfg := &core.ZodConfig{}
	if mask&srcG != 0 {
		cfg.CustomError = tag(srcG, "CUS")
	}
	if mask&srcL != 0 {
		cfg.LocaleError = tag(srcL, "LOC")
	}
	core.SetConfig(cfg)
	defer core.SetConfig(nil)

	var err error
	if p := hx.Safely(func() {
		schema := w.wrap(lf.build(c, s))
		if mask&srcP != 0 {
			_, err = schema.ParseAny(w.in(lf.input), &core.ParseContext{Error: tag(srcP, "CTX")})
		} else {
			_, err = schema.ParseAny(w.in(lf.input))
		}
	}); p != "" {
		return "panic", core.ZodIssue{}, false
	}
	var ze *gozod.ZodError
	if err == nil || !gozod.IsZodError(err, &ze) {
		return "n", core.ZodIssue{}, false
	}
	is, ok := findIssue(ze.Issues, lf.code)
	if !ok {
		return "n", core.ZodIssue{}, false
	}
	switch is.Message {
	case "CHK":
		return "c", is, true
	case "SCH":
		return "s", is, true
	case "CTX":
		return "p", is, true
	case "CUS":
		return "g", is, true
	case "LOC":
		return "l", is, true
	case "":
		return "e", is, true
	}
	return "d", is, true
}

func sigOf(is core.ZodIssue) string {
	// only what survives a container's re-reporting (ConvertZodIssueToRawWithPrependedPath keeps code, expected, received,
	// minimum, maximum, inclusive; origin and format are lost on the way up)
	return fmt.Sprintf("%s|%s|%v|%v", is.Code, is.Expected, is.Minimum, is.Maximum)
}

// ---------------------------------------------------------------- locale catalogue

// rawFromIssue rebuilds the raw issue a formatter sees from a finalized issue (the same fields
// internal/issues.convertZodIssueToProperties exposes).
func rawFromIssue(is core.ZodIssue, input any) core.ZodRawIssue {
	p := map[string]any{}
	if is.Expected != "" {
		p["expected"] = string(is.Expected)
	}
	if is.Received != "" {
		p["received"] = string(is.Received)
	}
	if is.Minimum != nil {
		p["minimum"] = is.Minimum
	}
	if is.Maximum != nil {
		p["maximum"] = is.Maximum
	}
	p["inclusive"] = is.Inclusive
	if is.Format != "" {
		p["format"] = is.Format
	}
	if is.Pattern != "" {
		p["pattern"] = is.Pattern
	}
	if is.Prefix != "" {
		p["prefix"] = is.Prefix
	}
	if is.Suffix != "" {
		p["suffix"] = is.Suffix
	}
	if is.Includes != "" {
		p["includes"] = is.Includes
	}
	if is.Divisor != nil {
		p["divisor"] = is.Divisor
	}
	if len(is.Keys) > 0 {
		p["keys"] = is.Keys
	}
	if len(is.Values) > 0 {
		p["values"] = is.Values
	}
	if is.Origin != "" {
		p["origin"] = is.Origin
	}
	if is.Key != nil {
		p["key"] = is.Key
	}
	return core.ZodRawIssue{Code: is.Code, Input: input, Path: is.Path, Properties: p}
}

func kindKey(code core.IssueCode, props map[string]any) string {
	k := string(code)
	str := func(n string) string {
		if v, ok := props[n].(string); ok {
			return v
		}
		return ""
	}
	switch code {
	case core.TooSmall, core.TooBig, core.NotMultipleOf, core.InvalidKey, core.InvalidElement:
		if o := str("origin"); o != "" {
			k += ":" + o
		}
	case core.InvalidFormat:
		if f := str("format"); f != "" {
			k += ":" + f
		}
	case core.InvalidType:
		if e := str("expected"); e != "" {
			k += ":" + e
		}
	case core.InvalidValue:
		if vs, ok := props["values"].([]any); ok {
			if len(vs) == 1 {
				k += ":one"
			} else {
				k += ":many"
			}
		}
	}
	return strings.ReplaceAll(k, " ", "_")
}

// ---------------------------------------------------------------- main

func run(c hx.Config) error {
	if len(c.Args) >= 2 && c.Args[0] == "gen-sites" {
		// source-only translator: the static catalogue of issue sites (sites.go)
		return genSites(c.Args[1], c.OutDir)
	}
	o, err := hx.NewOut(c.OutDir)
	if err != nil {
		return err
	}
	if len(c.Args) >= 1 && c.Args[0] == "reach-only" {
		// development aid: only the leaf-coverage search (reach.go)
		if err := reachCells(o, c.OutDir); err != nil {
			return err
		}
		return o.Close(map[string]any{})
	}
	lvs, wrs := leaves(), append(wrappers(), deepWrappers()...)
	one := wrs // the one-level wrappers (top + 13 positions)
	kindsPath := ""
	for _, a := range c.Args {
		if strings.HasPrefix(a, "kinds=") {
			kindsPath = a[len("kinds="):]
		}
	}
	if c.Thorough() {
		// two levels of nesting: every wrapper inside every wrapper
		base := wrappers()
		for _, outer := range base[1:] {
			for _, inner := range base[1:] {
				outer, inner := outer, inner
				wrs = append(wrs, wrapper{
					id:   outer.id + ">" + inner.id,
					wrap: func(s core.ZodSchema) core.ZodSchema { return outer.wrap(inner.wrap(s)) },
					in:   func(v any) any { return outer.in(inner.in(v)) },
					desc: outer.desc + " where its S = " + inner.desc,
				})
			}
		}
	}

	// random nesting chains of depth 2-4 over all 13 positions (both tiers)
	chainIDs := map[string]bool{}
	for _, w := range randomChains(c, one) {
		if !chainIDs[w.id] {
			chainIDs[w.id] = true
			wrs = append(wrs, w)
		}
	}
	isChain := func(id string) bool { return chainIDs[id] }
	isDeep := map[string]bool{}
	for _, w := range deepWrappers() {
		isDeep[w.id] = true
	}

	// sanity: every leaf raises its issue at top level with nothing configured
	bad := []string{}
	for _, lf := range lvs {
		if w, _, ok := runCell(lf, wrs[0], 0); !ok {
			var e error
			hx.Safely(func() { _, e = lf.build(nil, nil).ParseAny(lf.input) })
			bad = append(bad, fmt.Sprintf("site %s does not raise %s at top level (got %s; err=%v)", lf.id, lf.code, w, e))
		}
	}
	if len(bad) > 0 {
		return fmt.Errorf("%s", strings.Join(bad, "\n"))
	}

	var wiring []string
	topSig := map[string]string{}
	visible := map[string]bool{} // sites whose leaf issue is in the error (and is the leaf's)
	catalogue := map[string]core.ZodRawIssue{}
	for _, lf := range lvs {
		for _, w := range wrs {
			appl := srcP | srcG | srcL
			if lf.chk {
				appl |= srcC
			}
			if lf.sch {
				appl |= srcS
			}
			site := lf.id + "@" + w.id
			base, _, _ := runCell(lf, w, 0)
			if base == "panic" {
				// Parse itself panics here (a C04 matter, reported there): no message to attribute
				o.Count("skipped:parse-panics:" + site)
				continue
			}
			if _, bis, ok := runCell(lf, w, 0); ok && w.id == "top" {
				topSig[lf.id] = sigOf(bis)
			} else if ok && (strings.Contains(w.id, ">") || isDeep[w.id]) && sigOf(bis) != topSig[lf.id] {
				// the position answers the input itself (LazyAny on a nil input raises its own invalid_type): what is found is
				// not the leaf's issue
				o.Count("skipped:leaf-issue-not-visible:" + w.id)
				continue
			}
			if base == "n" && (strings.Contains(w.id, ">") || isDeep[w.id]) {
				// an outer container re-wraps an Array's invalid_element issue and drops its sub-issues; record-key: the leaf's
				// input is not a string, it cannot be a key; lazy / pipe: LazyAny's schemaWrapper does not forward to container
				// schemas: the leaf issue is not in the error at all, so there is no message to attribute
				o.Count("skipped:leaf-issue-not-visible:" + w.id)
				continue
			}
			if k := strings.LastIndex(w.id, ">"); k >= 0 && !visible[lf.id+"@"+w.id[k+1:]] {
				// the innermost position does not show the leaf's issue on its own: nothing to predict the chain from
				o.Count("skipped:leaf-issue-not-visible:" + w.id)
				continue
			}
			visible[site] = true
			for mask := 0; mask < 32; mask++ {
				if mask&^appl != 0 {
					continue
				}
				if isChain(w.id) && mask != 0 && mask != appl && mask&(mask-1) != 0 {
					continue // random chains: nothing, each source alone, all together
				}
				winner, is, found := runCell(lf, w, mask)
				op := fmt.Sprintf("c18 wire %s %s %s %s %s # %s with S = %s", site, lf.kind, w.id, maskStr(appl), maskStr(mask), w.desc, lf.repro)
				o.Emit(op, winner)
				o.Count("wire:" + lf.kind)
				wiring = append(wiring, fmt.Sprintf("%s\t%s\t%s\t%s\t%s\t%s\t%s", site, lf.kind, lf.raiser, w.id, maskStr(appl), maskStr(mask), winner))
				if found && mask == 0 {
					raw := rawFromIssue(is, w.in(lf.input))
					catalogue["site:"+kindKey(raw.Code, raw.Properties)] = raw
				}
			}
		}
	}

	// "first NON-EMPTY": a configured source that answers "" must be passed over.  Every site of the one-level
	// catalogue, every configuration given as message FUNCTIONS, every subset of it silenced (thorough: all; quick: one in four cells).
	for li, lf := range lvs {
		for wi, w := range wrs {
			if strings.Contains(w.id, ">") {
				continue
			}
			if !visible[lf.id+"@"+w.id] {
				continue
			}
			appl := srcP | srcG | srcL
			if lf.chk {
				appl |= srcC
			}
			if lf.sch {
				appl |= srcS
			}
			site := lf.id + "@" + w.id
			n := 0
			for mask := 1; mask < 32; mask++ {
				if mask&^appl != 0 {
					continue
				}
				for silent := 0; silent < 32; silent++ {
					if silent&^mask != 0 {
						continue
					}
					n++
					// the cells {c,x} with c silent define the table's passesSilentCheck column: always run them
					defining := silent == srcC && mask&srcC != 0 && mask&(mask-1) != 0 && (mask&^srcC)&((mask&^srcC)-1) == 0
					if !c.Thorough() && !defining && (n+li+wi)%4 != 0 {
						continue
					}
					winner, _, _ := runCellSilent(lf, w, mask, silent)
					o.Emit(fmt.Sprintf("c18 silent %s %s %s %s %s %s # %s with S = %s; the sources in the last column answer \"\"",
						site, lf.kind, w.id, maskStr(appl), maskStr(mask), maskStr(silent), w.desc, lf.repro), winner)
					o.Count("silent:" + lf.kind)
					if defining {
						wiring = append(wiring, fmt.Sprintf("%s\t%s\t%s\t%s\t%s\t%s\t%s", site, lf.kind, lf.raiser, w.id, maskStr(appl), "!"+maskStr(mask), winner))
					}
				}
			}
		}
	}

	// HISTORIES of SetConfig calls: how the global configuration is reached is part of the configuration space.
	if err := histories(c, o, lvs, wrs); err != nil {
		return err
	}

	// which FinalizeIssue call resolved the leaf's message (dynamic link to the static catalogue of sites.go)
	var reach []string
	for _, lf := range lvs {
		for _, w := range one {
			fin, outer, _ := captureReach(lf, w)
			if fin == "" {
				fin, outer = "-", "-" // no map was consulted: the message was preset before the chain
			}
			reach = append(reach, fmt.Sprintf("%s@%s\t%s\t%s", lf.id, w.id, fin, outer))
		}
	}
	if err := os.WriteFile(c.OutDir+"/reach.txt", []byte(strings.Join(reach, "\n")+"\n"), 0o644); err != nil {
		return err
	}

	// leaf coverage of the static catalogue: constructor family x variant x input (reach.go)
	if err := reachCells(o, c.OutDir); err != nil {
		return err
	}

	// issue-dependent error maps
	seenLines := depCells(c, o, lvs, one, visible)
	if err := os.WriteFile(c.OutDir+"/seen.txt", []byte(strings.Join(seenLines, "\n")+"\n"), 0o644); err != nil {
		return err
	}

	// multi-issue checks x issue-dependent message functions (multi.go)
	multiCells(c, o, one)

	// raw issues as the library hands them to a global error map (real Properties), captured by a recording map
	core.SetConfig(nil)
	core.SetConfig(&core.ZodConfig{CustomError: func(raw core.ZodRawIssue) string {
		catalogue["site:"+kindKey(raw.Code, raw.Properties)] = raw
		return ""
	}})
	for _, lf := range lvs {
		for _, w := range one {
			hx.Safely(func() {
				_, _ = w.wrap(lf.build(nil, nil)).ParseAny(w.in(lf.input), &core.ParseContext{Error: func(raw core.ZodRawIssue) string {
					catalogue["site:"+kindKey(raw.Code, raw.Properties)] = raw
					return ""
				}})
			})
		}
	}
	core.SetConfig(nil)
	// the parameter table: every variation that selects another text path of a locale formatter; the dictionaries' keys come
	// from the translator (kinds file), with the German dictionaries as a floor
	kk := kindKeys{}
	if kindsPath != "" {
		if kk, err = readKinds(kindsPath); err != nil {
			return err
		}
	}
	for f := range locales.FormatNounsDe {
		kk.formats = append(kk.formats, f)
	}
	for og := range locales.SizableDe {
		kk.sizable = append(kk.sizable, og)
	}
	for k, raw := range localeParams(kk) {
		catalogue[k] = raw
	}
	nloc, nkinds, err := localeCells(o, catalogue, c.OutDir)
	if err != nil {
		return err
	}
	if err := os.WriteFile(c.OutDir+"/wiring.txt", []byte(strings.Join(wiring, "\n")+"\n"), 0o644); err != nil {
		return err
	}
	locs, kinds := make([]struct{}, nloc), make([]struct{}, nkinds)
	return o.Close(map[string]any{"sites": len(lvs) * len(wrs), "locales": len(locs), "kinds": len(kinds)})
}

// ---------------------------------------------------------------- SetConfig histories

// One call: R = SetConfig(nil); S<c><l> = SetConfig(&ZodConfig{CustomError: c, LocaleError: l}),
// c in - A B a b, l in - L M l m ("-" = nil field; an upper-case map answers "CUS-<tag>"/"LOC-<tag>",
// a lower-case one answers "").
var histCalls = func() []string {
	cs := []string{"R"}
	for _, c := range "-ABab" {
		for _, l := range "-LMlm" {
			cs = append(cs, "S"+string(c)+string(l))
		}
	}
	return cs
}()

func histMap(prefix string, tag byte) core.ZodErrorMap {
	if tag == '-' {
		return nil
	}
	if tag >= 'a' && tag <= 'z' {
		return constant("")
	}
	return constant(prefix + string(tag))
}

func applyHistory(h []string) {
	core.SetConfig(nil) // the state init() leaves
	for _, call := range h {
		if call == "R" {
			core.SetConfig(nil)
			continue
		}
		core.SetConfig(&core.ZodConfig{CustomError: histMap("CUS-", call[1]), LocaleError: histMap("LOC-", call[2])})
	}
}

func histories(c hx.Config, o *hx.Out, lvs []leaf, wrs []wrapper) error {
	defer core.SetConfig(nil)
	pickLeaf := map[string]bool{"small-string": true, "multiple-int": true, "format-email": true, "type-string": true,
		"format-uuid-type": true, "union": true, "small-slice": true, "type-nonoptional": true, "value-enum": true, "custom-refine-int": true}
	type st struct {
		lf leaf
		w  wrapper
	}
	var sites []st
	for _, lf := range lvs {
		if !pickLeaf[lf.id] {
			continue
		}
		for _, w := range wrs {
			if w.id == "top" || w.id == "slice-element" || w.id == "record-value" {
				sites = append(sites, st{lf, w})
			}
		}
	}
	// parseWith runs one parse of site s under the current global configuration. mode: 0 = no context argument,
	// 1 = a fresh empty ParseContext, 2 = the caller-owned context `shared` (reused across the parses of one history).
	// sch: a schema built before the history started (nil: build a fresh one now).
	parseWith := func(s st, h []string, mode int, shared *core.ParseContext, sch core.ZodSchema, how string) {
		var err error
		winner := "n"
		run := func() {
			z := sch
			if z == nil {
				z = s.w.wrap(s.lf.build(nil, nil))
			}
			switch mode {
			case 1:
				_, err = z.ParseAny(s.w.in(s.lf.input), &core.ParseContext{})
			case 2:
				_, err = z.ParseAny(s.w.in(s.lf.input), shared)
			default:
				_, err = z.ParseAny(s.w.in(s.lf.input))
			}
		}
		if p := hx.Safely(run); p != "" {
			winner = "panic"
		} else {
			var ze *gozod.ZodError
			if err != nil && gozod.IsZodError(err, &ze) {
				if is, ok := findIssue(ze.Issues, s.lf.code); ok {
					switch {
					case strings.HasPrefix(is.Message, "CUS-"):
						winner = "g" + is.Message[4:]
					case strings.HasPrefix(is.Message, "LOC-"):
						winner = "l" + is.Message[4:]
					case is.Message == "":
						winner = "e"
					default:
						winner = "d"
					}
				}
			}
		}
		o.Emit(fmt.Sprintf("c18 hist %s@%s %s # SetConfig(nil); then the calls in order (R = SetConfig(nil), S<c><l> = SetConfig(&ZodConfig{CustomError: c, LocaleError: l}), - = nil, upper case answers its tag, lower case answers \"\"); then %s with S = %s%s",
			s.lf.id, s.w.id, strings.Join(h, ","), s.w.desc, s.lf.repro, how), winner)
		o.Count(fmt.Sprintf("hist:len%d", len(h)))
	}
	probe := func(s st, h []string) {
		applyHistory(h)
		parseWith(s, h, 0, nil, nil, "")
	}
	// interleaved: one schema and one caller-owned ParseContext live through the whole history; after every
	// SetConfig call the site is parsed again (no context / fresh context / the reused context / the schema built
	// before the first call) and must answer for the configuration that is current at that moment.
	interleaved := func(s st, h []string) {
		core.SetConfig(nil)
		shared := &core.ParseContext{}
		old := s.w.wrap(s.lf.build(nil, nil))
		parseWith(s, []string{"R"}, 2, shared, old, "; parsed with the ParseContext that is reused later")
		for i, call := range h {
			if call == "R" {
				core.SetConfig(nil)
			} else {
				core.SetConfig(&core.ZodConfig{CustomError: histMap("CUS-", call[1]), LocaleError: histMap("LOC-", call[2])})
			}
			mode := i % 3
			var sch core.ZodSchema
			how := [...]string{"; parsed without a context", "; parsed with a fresh empty ParseContext", "; parsed with ONE ParseContext reused since the start of the history"}[mode]
			if i%2 == 1 {
				sch = old
				how += ", schema built before the first call"
			}
			parseWith(s, h[:i+1], mode, shared, sch, how+" (a parse after every call of the history)")
			o.Count("hist:interleaved-parse")
		}
	}
	// exhaustive short histories
	maxLen := 2
	if c.Thorough() {
		maxLen = 3
	}
	var rec func(h []string)
	rec = func(h []string) {
		if len(h) > 0 {
			for i, s := range sites {
				if c.Thorough() || len(h) < 2 || (i+len(h[0])+int(h[0][len(h[0])-1])+int(h[1][len(h[1])-1]))%3 == 0 {
					probe(s, h)
				}
			}
		}
		if len(h) == maxLen {
			return
		}
		for _, call := range histCalls {
			rec(append(append([]string{}, h...), call))
		}
	}
	rec(nil) // quick: every history of length 1, a third of those of length 2, on every site; thorough: all of length <= 3
	// random longer histories
	r := hx.NewRng(c.Seed ^ 0x18c0ffee)
	n := 4000
	if c.Thorough() {
		n = 60000
	}
	for i := 0; i < n; i++ {
		l := 3 + r.Intn(5)
		h := make([]string, l)
		for j := range h {
			if r.Chance(8) {
				h[j] = "R"
			} else {
				h[j] = hx.Pick(r, histCalls)
			}
		}
		if i%2 == 0 {
			probe(hx.Pick(r, sites), h)
		} else {
			interleaved(hx.Pick(r, sites), h)
		}
	}
	return nil
}
