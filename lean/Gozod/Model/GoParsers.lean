/-
  Gozod.Model.GoParsers — the validators of C20 that are *not* regular expressions:

  * `goDate`     — `time.Parse("2006-01-02", s)` succeeds            (validate.ISODate)
  * `goRFC3339`  — `time.Parse(time.RFC3339, s)` succeeds             (validate.ISODateTime)
      transcribed from go1.26 `time/format.go` (general layout parser; the strict fast path
      `parseRFC3339` accepts a subset): hour is `getnum(value, false)` = one or two digits,
      a fraction may follow the seconds after '.' *or* ',', the offset is sign hh ':' mm with
      hh ≤ 24 and mm ≤ 60 ("some people do write offsets of 24 hours or 60 minutes").
  * `goCIDRv4` / `goCIDRv6` — validate.CIDR after the proposed fix (pending/C20-cidr.diff):
      `netip.ParsePrefix(s)` succeeds and the address `Is4()` / `Is6()`.  ParsePrefix takes
      canonical decimal prefix lengths only, no zones, and netip's address syntax, which is the
      specification's; so these coincide with the specification recognisers.
  * `ipv6Spec` / `cidrv6Spec` — RFC 4291 §2.2 text forms of an IPv6 address (specification side;
      the library documents no more precise definition).

  Structure fingerprints.  The translator (harness/cmd/c20 -gen) extracts from pkg/validate/validate.go, for every
  parser-based validator, the calls through a selector and the basic literals of its body (transitively inside the
  package) as `Gen.fp_<fmt>`; vlib/c20.py compares it with the expectation recorded here.  A mismatch means the
  transcription below may no longer be what the code does: the tie is broken (the correspondence run then looks for
  a concrete failing input).

  -- fingerprint ipv6: func IPv6 reflectx.StringVal netip.ParseAddr addr.Is6 addr.Zone ""
  -- fingerprint cidrv4: func CIDRv4 4 func CIDR reflectx.StringVal netip.ParsePrefix 0 4 .Is4 prefix.Addr 6 .Is6 prefix.Addr
  -- fingerprint cidrv6: func CIDRv6 6 func CIDR reflectx.StringVal netip.ParsePrefix 0 4 .Is4 prefix.Addr 6 .Is6 prefix.Addr
  -- fingerprint base64url: func Base64URL reflectx.StringVal .MatchString strings.HasSuffix "=" 4 0 4 1
  -- fingerprint isodate: func ISODate reflectx.StringVal time.Parse "2006-01-02"
  -- fingerprint isodatetime: func ISODateTime reflectx.StringVal .MatchString time.Parse

  Core-only.
-/
import Gozod.Model.FormatSpec
import Gozod.Model.FormatSpecV6
namespace Gozod
namespace Parsers
open Fmt

/-- a fixed-width decimal field: exactly `n` digits -/
def takeDigits : Nat → List Nat → Option (Nat × List Nat)
  | 0, s => some (0, s)
  | n + 1, s =>
    match takeDigits n s with
    | some (v, c :: rest) => if isDigit c then some (v * 10 + (c - 48), rest) else none
    | _ => none

/-- `getnum(value, false)`: one digit, or two when the second byte is a digit too -/
def take1or2 : List Nat → Option (Nat × List Nat)
  | a :: b :: rest =>
    if isDigit a then (if isDigit b then some ((a - 48) * 10 + (b - 48), rest) else some (a - 48, b :: rest)) else none
  | [a] => if isDigit a then some (a - 48, []) else none
  | [] => none

def lit (c : Nat) : List Nat → Option (List Nat)
  | x :: rest => if x = c then some rest else none
  | [] => none

def dropDigits : List Nat → List Nat
  | c :: rest => if isDigit c then dropDigits rest else c :: rest
  | [] => []

def goDatePrefix (s : List Nat) : Option (List Nat) := do
  let (y, s) ← takeDigits 4 s
  let s ← lit 45 s
  let (m, s) ← takeDigits 2 s
  let s ← lit 45 s
  let (d, s) ← takeDigits 2 s
  if validDate y m d then some s else none

def goDate (s : List Nat) : Bool :=
  match goDatePrefix s with
  | some [] => true
  | _ => false

/-- the zone of layout element `Z07:00` -/
def goZone : List Nat → Bool
  | [90] => true
  | [sg, h1, h2, c, m1, m2] =>
    (sg = 43 || sg = 45) && isDigit h1 && isDigit h2 && c = 58 && isDigit m1 && isDigit m2 &&
      (h1 - 48) * 10 + (h2 - 48) ≤ 24 && (m1 - 48) * 10 + (m2 - 48) ≤ 60
  | _ => false

def goRFC3339 (s : List Nat) : Bool :=
  (do
    let s ← goDatePrefix s
    let s ← lit 84 s
    let (h, s) ← take1or2 s
    let s ← lit 58 s
    let (mi, s) ← takeDigits 2 s
    let s ← lit 58 s
    let (sec, s) ← takeDigits 2 s
    if h ≥ 24 ∨ mi ≥ 60 ∨ sec ≥ 60 then none
    -- a fraction not announced by the layout: [.,] digit+
    let s := match s with
      | p :: d :: rest => if (p = 46 ∨ p = 44) ∧ isDigit d then dropDigits rest else s
      | _ => s
    some (goZone s)).getD false

/-- validate.Base64URL after pending/C20-base64url.diff, the part after the regex match:
    `if strings.HasSuffix(str, "=") { return len(str)%4 == 0 }; return len(str)%4 != 1` -/
def goBase64URLLen (s : List Nat) : Bool :=
  if s.getLast? = some 61 then s.length % 4 = 0 else s.length % 4 ≠ 1

/-! ### IPv6 text forms (RFC 4291 §2.2) -/

def splitBy (sep : Nat) : List Nat → List (List Nat)
  | [] => [[]]
  | c :: rest =>
    match splitBy sep rest with
    | [] => [[]]   -- unreachable
    | f :: fs => if c = sep then [] :: f :: fs else (c :: f) :: fs

def isHextet (f : List Nat) : Bool := 1 ≤ f.length && f.length ≤ 4 && f.all isHex

/-- fields between colons → (number of 16-bit groups, has "::"), or none when malformed.
    `last` says the field is the final one (where a dotted quad may stand). -/
def countFields : List (List Nat) → Option (Nat × Bool)
  | [] => some (0, false)
  | [f] =>
    if f.isEmpty then some (0, true)
    else if isHextet f then some (1, false)
    else if ipv4.run f then some (2, false)
    else none
  | f :: fs =>
    match countFields fs with
    | none => none
    | some (n, ell) =>
      if f.isEmpty then (if ell then none else some (n, true))
      else if isHextet f then some (n + 1, ell)
      else none

def ipv6Spec (s : List Nat) : Bool :=
  let fs := splitBy 58 s
  let n := fs.length
  let first := fs.head?.getD []
  let last := fs.getLast?.getD []
  -- a leading or trailing colon must be part of "::"
  let startsOk := !first.isEmpty || (n ≥ 2 && (fs.getD 1 [1]).isEmpty)
  let endsOk := !last.isEmpty || (n ≥ 2 && (fs.getD (n - 2) [1]).isEmpty)
  if !(startsOk && endsOk) then false
  else
    let fs := if first.isEmpty then fs.drop 1 else fs
    let fs := if last.isEmpty then fs.dropLast else fs
    match countFields fs with
    | some (k, true) => k ≤ 7
    | some (k, false) => k = 8
    | none => false

/-- canonical decimal (no leading zero, no sign) at most `max` -/
def prefixLen (max : Nat) (f : List Nat) : Bool :=
  match f with
  | [] => false
  | [c] => isDigit c
  | c :: _ => isDigit c && c ≠ 48 && f.length ≤ 3 && f.all isDigit && f.foldl (fun v d => v * 10 + (d - 48)) 0 ≤ max

def cutSlash : List Nat → Option (List Nat × List Nat)
  | [] => none
  | c :: rest =>
    if c = 47 then some ([], rest)
    else match cutSlash rest with
      | some (a, b) => some (c :: a, b)
      | none => none

def cidrv6Spec (s : List Nat) : Bool :=
  match cutSlash s with
  | some (a, p) => ipv6Spec a && prefixLen 128 p
  | none => false

/-- validate.CIDRv4 after pending/C20-cidr.diff: netip.ParsePrefix ∧ Is4 — a dotted quad without
    leading zeros, '/', a canonical decimal 0–32: the definition itself -/
def goCIDRv4 : List Nat → Bool := cidrv4.run

/-- validate.IPv6 after pending/C20-ipv6.diff: netip.ParseAddr ∧ Is6 ∧ Zone() == "" — netip's IPv6 syntax is RFC 4291 §2.2
    (eight groups, one "::" for at least one group, a dotted quad without leading zeros for the last two groups): the definition itself -/
def goIPv6 : List Nat → Bool := ipv6.run

/-- validate.CIDRv6 (netip.ParsePrefix ∧ Is6, fix a919100): netip's address syntax is RFC 4291 §2.2 without zone,
    the prefix length a canonical decimal 0–128: the definition itself -/
def goCIDRv6 : List Nat → Bool := cidrv6.run

end Parsers
end Gozod
