/-
  Line handler for C18.
    c18 wire <site> <kind> <wrapper> <applicable> <configured>   → "<model> <spec>"
        model = Site.winner of the site's entry in the regenerated Gen.sites (FinalizeIssue applied to
                the sources the site passes), spec = firstConfigured (what the property demands)
    c18 silent <site> <kind> <wrapper> <applicable> <configured> <silent>   → the same with the sources in
        <silent> configured to answer "": model/spec are evaluated on configured \ silent
    c18 hist <site> <call,call,…>                               → the global configuration is reached by a HISTORY of
        SetConfig calls (R = SetConfig(nil); S<c><l> = SetConfig(&ZodConfig{CustomError: c, LocaleError: l}) with
        c ∈ - A B a b, l ∈ - L M l m; "-" = nil field, lower case = a map that answers ""); model = Config.run
        (SetConfig statement by statement) then the site's wiring, spec = Config.spec (last non-nil value per
        field since the last reset) then firstConfigured; the winner carries the tag of the map (gA, lM, d)
    c18 dep <site> <spec>                                       → issue-dependent maps: spec = the map kinds of c,s,p,g,l
        (K T N I O Z F E, - = not configured); model = Site.winnerDep (FinalizeIssue on the sources the site passes, applied
        to the features of the raw issue from Gen.leafSeen), spec = specDep (first configured source that has an answer)
    c18 multi <raiser>@<chain> <spec> <code/inStr/hasOrigin,…>   → ONE check that reports several issues in one run, every source a
        message function of the `dep` kinds: model = Msg.multiMessages (expectedMessage → nestedMessage → finalize, evaluated PER
        ISSUE with the check message applied to that issue), spec = Msg.multiSpec (per issue, the first source that answers for
        it); both as "w1,w2,…" in the order the issues were pushed
    c18 reach <outer file:line> <fin file:line> <cell> <applicable> <source>   → leaf coverage of the static catalogue: the
        cell (constructor family x variant x input) resolved a message at these two calls; with only <source> configured the
        model = siteMessage on the sources neither static row drops, spec = the source
    c18 loc <locale> <kind>                                      → "<model> <spec>"
        model = the entry of the regenerated Gen.localeTable, spec = 1
-/
import Gozod.Model.Msg
import Gozod.Model.MsgExpect
import Gozod.Model.MsgMulti
import Gozod.Model.Config
import Gozod.Gen.MsgWiring
import Gozod.Gen.LocaleTable
import Gozod.Gen.IssueSites
namespace Gozod.Drv.C18
open Gozod.Msg

/-- `leaf@wrapper`, `leaf@outer>…>inner`: the leaf and the chain of positions (outermost first; `top` = no position).
    Every cell is predicted from the EXPECTATION (Model/MsgExpect.lean: the listed gap of the leaf, the expected forwarding of
    every position) through `Msg.nestedMessage` — the definition `nested_message` / `c18_every_depth_expected` are about — and
    not from the observed tables. -/
def parseSite (id : String) : Option (String × List String) :=
  match id.splitOn "@" with
  | [leaf, w] =>
    let chain := if w == "top" then [] else w.splitOn ">"
    -- the leaf and every position must be known to the run (regenerated tables): a typo must not be predicted
    if (Gozod.Gen.topPasses.lookup leaf).isSome && chain.all (fun n => Gozod.Gen.positions.any (fun p => p.name == n))
    then some (leaf, chain) else none
  | _ => none

/-- `raiser@chain` of a `multi` cell: the raiser must be listed in `Msg.multiGaps`, every position known to the run -/
def parseMultiSite (id : String) : Option (SrcSet × List String) :=
  match id.splitOn "@" with
  | [raiser, w] =>
    let chain := if w == "top" then [] else w.splitOn ">"
    match multiGaps.lookup raiser with
    | some drops => if chain.all (fun n => Gozod.Gen.positions.any (fun p => p.name == n)) then some (drops, chain) else none
    | none => none
  | _ => none

def parseFeat (t : String) : Option RawFeat :=
  match t.splitOn "/" with
  | [code, a, b] => if code != "" && (a == "0" || a == "1") && (b == "0" || b == "1") then some ⟨code, a == "1", b == "1"⟩ else none
  | _ => none

def setOf (s : String) : SrcSet := if s == "-" then SrcSet.empty else SrcSet.ofString s

open Gozod.Config in
def parseCall (t : String) : Option (Call String) :=
  match t.toList with
  | ['R'] => some .reset
  | ['S', c, l] =>
    let f : Char → Option String := fun x => if x == '-' then none else some (String.singleton x)
    some (.set (f c) (f l))
  | _ => none

def answers (m : Option String) : Bool :=
  match m with
  | some t => t.toList.all Char.isUpper
  | none => false

/-- winner under a stored global configuration: "g"/"l" + the tag of the answering map, or the base -/
def histWinner (drops : SrcSet) (chain : List String) (cfg : Gozod.Config.Cfg String) : String :=
  let w := expectedWire drops chain ⟨false, false, false, answers cfg.custom, answers cfg.locale⟩
  if w = "g" then "g" ++ cfg.custom.getD "" else if w = "l" then "l" ++ cfg.locale.getD "" else "d"


/-- the finalising row of the static table that contains `file:line` (the innermost call when calls nest) -/
def findRow (loc : String) : Option IssueSite :=
  match loc.splitOn ":" with
  | [file, ln] =>
    let n := ln.toNat?.getD 0
    let cands := Gozod.Gen.issueSites.filter fun s =>
      s.reaches && s.key.startsWith (file ++ ":") && s.line ≤ n && n ≤ s.lineEnd
    cands.foldl (fun best s =>
      match best with
      | none => some s
      | some b => if s.lineEnd - s.line < b.lineEnd - b.line then some s else some b) none
  | _ => none

def srcUnion (a b : SrcSet) : SrcSet :=
  ⟨a.check || b.check, a.schema || b.schema, a.parse || b.parse, a.custom || b.custom, a.locale || b.locale⟩

def handle : List String → String
  | ["wire", site, _kind, _wrapper, _appl, cfg] =>
    match parseSite site with
    | some (leaf, chain) => s!"{expectedWire (gapOf leaf) chain (setOf cfg)} {firstConfigured (setOf cfg)}"
    | none => "no-such-site -"
  | ["silent", site, _kind, _wrapper, _appl, cfg, silent] =>
    -- a source that answers "" is as good as not configured (finalize_silent_*)
    let eff := (setOf cfg).diff (setOf silent)
    match parseSite site with
    | some (leaf, chain) =>
      let drops := if (setOf silent).check then gapSilentCheckOf leaf else gapOf leaf
      s!"{expectedWire drops chain eff} {firstConfigured eff}"
    | none => "no-such-site -"
  | ["hist", site, h] =>
    match parseSite site, (h.splitOn ",").mapM parseCall with
    | some (leaf, chain), some calls =>
      s!"{histWinner (gapOf leaf) chain (Gozod.Config.run calls)} {histWinner SrcSet.empty [] (Gozod.Config.spec calls)}"
    | _, _ => "bad-op -"
  | ["dep", site, spec] =>
    -- issue-dependent maps: the raw issue's features come from the regenerated `Gen.leafSeen`
    match parseSite site with
    | some (leaf, chain) =>
      match Gozod.Gen.leafSeen.lookup site with
      | some f =>
        let sp := spec.toList
        let silentCheck := (sp.getD 0 '-') != '-' && !(depAnswers (sp.getD 0 '-') f)
        let drops := if silentCheck then gapSilentCheckOf leaf else gapOf leaf
        s!"{expectedMessage drops chain (depSources sp f) f} {specDep sp f}"
      | none => "no-such-leaf -"
    | none => "no-such-site -"
  | ["multi", site, spec, feats] =>
    -- a multi-issue check: the model is evaluated per issue of the check (the check message applied to THAT issue)
    match parseMultiSite site, (feats.splitOn ",").mapM parseFeat with
    | some (drops, chain), some fs =>
      let sp := spec.toList
      if sp.length != 5 then "bad-op -" else
      s!"{",".intercalate (multiMessages drops chain (depFnSources sp) fs)} {",".intercalate (multiSpec (depFnSources sp) fs)}"
    | _, _ => "no-such-site -"
  | ["reach", outer, fin, _cell, _appl, src] =>
    -- leaf coverage: one source configured alone at a cell that reaches the static rows `outer` (first frame outside
    -- internal/issues) and `fin` (the caller of FinalizeIssue); model = FinalizeIssue on the sources neither row drops
    match findRow outer, findRow fin with
    | some ro, some rf =>
      let passes := (srcUnion ro.drops rf.drops).compl
      s!"{siteMessage passes (setOf src)} {firstConfigured (setOf src)}"
    | _, _ => "no-such-row -"
  | ["loc", loc, kind] =>
    match Gozod.Gen.localeRows.lookup loc, Gozod.Gen.localeKinds.idxOf? kind with
    | some row, some i =>
      match row[i]? with
      | some b => (if b then "1" else "0") ++ " 1"
      | none => "no-such-cell 1"
    | some _, none => "no-such-kind 1"
    | none, _ => "no-such-locale 1"
  | _ => "bad-op"

end Gozod.Drv.C18
