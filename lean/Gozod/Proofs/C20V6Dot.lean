/-
  C20 — `regex.IPv6` / `regex.CIDRv6` on the strings that contain a dotted quad.

      c20_ipv6_pattern_nozone   : ∀ s, avoids [37] s → ipv6QuadDefect.run s = false → accepts pat_ipv6 s = ipv6.run s
      c20_cidrv6_pattern_nozone : the same for pat_cidrv6 / cidrv6 / cidrv6QuadDefect
      c20_ipv6_pattern_partial_all, c20_cidrv6_pattern_partial_all :
          ∀ s, QuadDefect.run s = false → no alternative of the pattern that mentions '%' matches s → accepts pat s = definition.run s

  `Fmt.ipv6QuadDefect` (Model/FormatSpecV6E.lean) is the excluded region: addresses with the outline of an RFC 4291 dotted-quad
  form that have an octet with a leading zero, or whose hex part is not one of the four outlines the pattern knows.  The three
  defect classes (`c20_ipv6_witnesses`) lie in the excluded regions: `c20_ipv6_defects_excluded`.

  The certificates are checked against `Fmt.ipv6Q` / `Fmt.cidrv6Q`, the definitions with the octet value kept up to what
  matters (8 classes instead of 256 values); `ipv6_octet_quot` / `cidrv6_octet_quot` prove that they accept the same strings.
-/
import Gozod.Proofs.C20Lang
import Gozod.Proofs.C20
import Gozod.Model.FormatSpecV6E
import Gozod.Gen.Cert_ipv6_dot
import Gozod.Gen.Cert_cidrv6_dot
namespace Gozod.C20
open Gozod Gozod.Re Gozod.Fmt

/-! ## the octet value may be kept up to its class -/

theorem octNorm_zero (v : Nat) : octNorm v = 0 ↔ v = 0 := by
  unfold octNorm; repeat' split
  all_goals omega

theorem octNorm_le (v : Nat) : octNorm v ≤ 255 ↔ v ≤ 255 := by
  unfold octNorm; repeat' split
  all_goals omega

theorem octNorm_big (v : Nat) : octNorm v = 256 ↔ 256 ≤ v := by
  unfold octNorm; repeat' split
  all_goals omega

theorem octNorm_spec (v : Nat) : (v ≤ 2 → octNorm v = v) ∧ (3 ≤ v → v ≤ 9 → octNorm v = 3) ∧ (10 ≤ v → v ≤ 24 → octNorm v = 10) ∧
    (v = 25 → octNorm v = 25) ∧ (26 ≤ v → v ≤ 99 → octNorm v = 26) ∧ (100 ≤ v → v ≤ 255 → octNorm v = 100) ∧ (256 ≤ v → octNorm v = 256) := by
  unfold octNorm; repeat' split
  all_goals omega

theorem octNorm_fits (v d : Nat) (hd : d ≤ 9) : octNorm v * 10 + d ≤ 255 ↔ v * 10 + d ≤ 255 := by
  have h1 := octNorm_spec v
  omega

theorem octNorm_next (v d : Nat) (hd : d ≤ 9) : octNorm (octNorm v * 10 + d) = octNorm (v * 10 + d) := by
  have h1 := octNorm_spec v
  have h2 := octNorm_spec (v * 10 + d)
  have h3 := octNorm_spec (octNorm v * 10 + d)
  omega

theorem digit_le9 {a : Nat} (h : isDigit a = true) : a - 48 ≤ 9 := by
  simp only [isDigit, Bool.and_eq_true, Nat.ble_eq] at h; omega

theorem octAcc_norm (n v c : Nat) : octNorm (octAcc n (octNorm v) c) = octNorm (octAcc n v c) := by
  unfold octAcc
  by_cases hd : isDigit c = true
  · have hd9 : c - 48 ≤ 9 := digit_le9 hd
    simp only [hd, Bool.not_true, Bool.false_eq_true, if_false]
    by_cases hn : n = 0
    · simp only [hn, if_true]
    · simp only [hn, if_false]
      have h0 := octNorm_zero v
      have hb := octNorm_big v
      have hf := octNorm_fits v (c - 48) hd9
      by_cases hv : v = 0 ∨ v = 256
      · have hv' : octNorm v = 0 ∨ octNorm v = 256 := by
          rcases hv with h | h
          · exact Or.inl (h0.2 h)
          · exact Or.inr (hb.2 (by omega))
        rw [if_pos hv, if_pos hv']
      · by_cases hbig : 256 ≤ v
        · have hv' : octNorm v = 0 ∨ octNorm v = 256 := Or.inr (hb.2 hbig)
          rw [if_neg hv, if_pos hv']
          have : ¬ v * 10 + (c - 48) ≤ 255 := by omega
          rw [if_neg this]
        · have hv' : ¬ (octNorm v = 0 ∨ octNorm v = 256) := by
            intro h; rcases h with h | h
            · exact hv (Or.inl (h0.1 h))
            · exact hbig (hb.1 h)
          rw [if_neg hv, if_neg hv']
          by_cases hfit : v * 10 + (c - 48) ≤ 255
          · rw [if_pos hfit, if_pos (hf.2 hfit)]; exact octNorm_next v (c - 48) hd9
          · rw [if_neg hfit, if_neg (fun h => hfit (hf.1 h))]
  · simp only [Bool.not_eq_true] at hd
    simp [hd]

theorem digit_norm (q : V6St) (c : Nat) (hph : q.ph = 5) :
    (q.norm.digit c 255).map V6St.norm = (q.digit c 255).map V6St.norm := by
  obtain ⟨ph, g, ell, n, v, k⟩ := q
  simp only at hph; subst hph
  simp only [V6St.norm, V6St.digit, true_or, or_true, if_true]
  by_cases hd : isDigit c = true
  · have hd9 : c - 48 ≤ 9 := digit_le9 hd
    simp only [hd, Bool.not_true, Bool.false_eq_true, if_false]
    by_cases hn : n = 0
    · simp only [hn, if_true]
    · simp only [hn, if_false]
      by_cases hv : v = 0
      · rw [if_pos hv, if_pos ((octNorm_zero v).2 hv)]
      · rw [if_neg hv, if_neg (fun h => hv ((octNorm_zero v).1 h))]
        by_cases hfit : v * 10 + (c - 48) ≤ 255
        · rw [if_pos hfit, if_pos ((octNorm_fits v _ hd9).2 hfit)]
          simp [Option.map, V6St.norm, octNorm_next v (c - 48) hd9]
        · rw [if_neg hfit, if_neg (fun h => hfit ((octNorm_fits v _ hd9).1 h))]
  · simp only [Bool.not_eq_true] at hd
    simp [hd]

theorem ipv6Step_norm (q : V6St) (c : Nat) : (ipv6Step q.norm c).map V6St.norm = (ipv6Step q c).map V6St.norm := by
  by_cases h5 : q.ph = 5
  · have hn : q.norm.ph = 5 := by simp [V6St.norm, h5]
    by_cases hc : c = 46
    · obtain ⟨ph, g, ell, n, v, k⟩ := q
      simp only at h5; subst h5
      simp [ipv6Step, ipv6StepG, V6St.norm, hc]
    · have e1 : ipv6Step q.norm c = q.norm.digit c 255 := by simp [ipv6Step, ipv6StepG, hn, hc]
      have e2 : ipv6Step q c = q.digit c 255 := by simp [ipv6Step, ipv6StepG, h5, hc]
      rw [e1, e2]; exact digit_norm q c h5
  · by_cases h3 : q.ph = 3
    · obtain ⟨ph, g, ell, n, v, k⟩ := q
      simp only at h3; subst h3
      have hle := octNorm_le v
      simp only [ipv6Step, ipv6StepG, V6St.norm, true_or, if_true, V6St.start]
      by_cases h58 : c = 58
      · simp [h58]
      · by_cases h46 : c = 46
        · by_cases hv : v ≤ 255
          · simp [h46, hv, hle.2 hv]
          · have : ¬ octNorm v ≤ 255 := fun h => hv (hle.1 h)
            simp [h46, hv, this]
        · by_cases hx : isHex c = true
          · by_cases hn : n < 4
            · by_cases hq : quadMayStart g ell = true
              · simp [h58, h46, hx, hn, hq, Option.map, V6St.norm, octAcc_norm]
              · simp [h58, h46, hx, hn, hq, Option.map, V6St.norm]
            · simp [h58, h46, hx, hn]
          · simp [h58, h46, hx]
    · have : q.norm = q := by simp [V6St.norm, h3, h5]
      rw [this]

theorem ipv6Acc_norm (q : V6St) : ipv6Acc q.norm = ipv6Acc q := by
  obtain ⟨ph, g, ell, n, v, k⟩ := q
  simp only [V6St.norm]; split <;> rfl

/-- **the octet value may be kept up to its class: `ipv6Q` accepts what `ipv6` accepts** -/
theorem ipv6_octet_quot : ∀ s, ipv6.run s = ipv6Q.run s :=
  sim_run ipv6 ipv6Q V6St.norm rfl rfl (fun q c => (ipv6Step_norm q c).symm) (fun q => (ipv6Acc_norm q).symm)

theorem cidrv6Step_norm (q : V6St) (c : Nat) : (cidrv6Step q.norm c).map V6St.norm = (cidrv6Step q c).map V6St.norm := by
  by_cases h6 : q.ph = 6
  · have : q.norm = q := by simp [V6St.norm, h6]
    rw [this]
  · have hn : q.norm.ph = q.ph := by
      obtain ⟨ph, g, ell, n, v, k⟩ := q
      simp only [V6St.norm]; split <;> rfl
    have hn6 : ¬ q.norm.ph = 6 := by rw [hn]; exact h6
    by_cases hc : c = 47
    · simp only [cidrv6Step, cidrv6StepG, if_neg h6, if_neg hn6, hc, if_true, ipv6Acc_norm]
    · simp only [cidrv6Step, cidrv6StepG, if_neg h6, if_neg hn6, if_neg hc]
      exact ipv6Step_norm q c

theorem cidrv6_octet_quot : ∀ s, cidrv6.run s = cidrv6Q.run s :=
  sim_run cidrv6 cidrv6Q V6St.norm rfl rfl (fun q c => (cidrv6Step_norm q c).symm) (fun q => by
    obtain ⟨ph, g, ell, n, v, k⟩ := q
    simp only [cidrv6Q, cidrv6, V6St.norm]; split <;> rfl)

/-! ## the patterns on all strings without a zone -/

/-- **on every string without '%' and outside the dotted-quad defect region, `regex.IPv6` accepts exactly the RFC 4291 addresses** -/
theorem c20_ipv6_pattern_nozone :
    ∀ s, avoids [37] s = true → ipv6QuadDefect.run s = false → accepts Gen.pat_ipv6 s = ipv6.run s := fun s hs he =>
  (bisim_sound_R _ _ _ _ Gen.cert_ipv6_dot_ok s hs he).trans (ipv6_octet_quot s).symm

theorem c20_cidrv6_pattern_nozone :
    ∀ s, avoids [37] s = true → cidrv6QuadDefect.run s = false → accepts Gen.pat_cidrv6 s = cidrv6.run s := fun s hs he =>
  (bisim_sound_R _ _ _ _ Gen.cert_cidrv6_dot_ok s hs he).trans (cidrv6_octet_quot s).symm

/-! ## strings without a '.' lie outside the excluded region -/

/-- the excluded region contains only strings with a '.': its automaton enters the dotted-quad phase on a '.' only -/
theorem quadDefectStep_ph (pl : Bool) {q q' : V6ESt} {c : Nat} (hq : q.ph ≠ 5 ∧ q.ph ≠ 6) (hc : c ≠ 46)
    (h : quadDefectStep pl q c = some q') : q'.ph ≠ 5 ∧ q'.ph ≠ 6 := by
  obtain ⟨h5, h6⟩ := hq
  simp only [quadDefectStep, if_neg h6, if_neg h5, if_neg hc, V6ESt.startGroup] at h
  repeat' split at h
  all_goals first | (cases h; done) | (cases h; simp only; omega) | (cases h; simp_all)

theorem ipv6QuadDefect_nodot : ∀ s, avoids [46] s = true → ipv6QuadDefect.run s = false := by
  have key : ∀ (s : List Nat) (o : Option V6ESt), avoids [46] s = true → (∀ q, o = some q → q.ph ≠ 5 ∧ q.ph ≠ 6) →
      ipv6QuadDefect.accO (s.foldl ipv6QuadDefect.gstep o) = false := by
    intro s
    induction s with
    | nil =>
      intro o _ ho
      cases o with
      | none => rfl
      | some q =>
        have := ho q rfl
        show (decide (q.ph = 5) && decide (q.k = 3) && decide (q.n ≥ 1) && q.lz) = false
        simp [this.1]
    | cons c s ih =>
      intro o hs ho
      simp only [avoids, List.all_cons, Bool.and_eq_true, Bool.not_eq_true'] at hs
      have hc : c ≠ 46 := by intro e; subst e; simp [List.elem] at hs
      show ipv6QuadDefect.accO (s.foldl ipv6QuadDefect.gstep (ipv6QuadDefect.gstep o c)) = false
      refine ih _ (by simpa [avoids] using hs.2) ?_
      intro q' hq'
      cases o with
      | none => cases hq'
      | some q =>
        have hstep : (if ipv6Support.elem c then quadDefectStep false q c else none) = some q' := hq'
        split at hstep
        · exact quadDefectStep_ph false (ho q rfl) hc hstep
        · cases hstep
  intro s hs
  exact key s (some V6ESt.init) hs (fun q hq => by cases hq; decide)

theorem cidrv6QuadDefect_nodot : ∀ s, avoids [46] s = true → cidrv6QuadDefect.run s = false := by
  have key : ∀ (s : List Nat) (o : Option V6ESt), avoids [46] s = true → (∀ q, o = some q → q.ph ≠ 5 ∧ q.ph ≠ 6) →
      cidrv6QuadDefect.accO (s.foldl cidrv6QuadDefect.gstep o) = false := by
    intro s
    induction s with
    | nil =>
      intro o _ ho
      cases o with
      | none => rfl
      | some q =>
        have := ho q rfl
        show (decide (q.ph = 6) && decide (q.n ≥ 1) && q.lz) = false
        simp [this.2]
    | cons c s ih =>
      intro o hs ho
      simp only [avoids, List.all_cons, Bool.and_eq_true, Bool.not_eq_true'] at hs
      have hc : c ≠ 46 := by intro e; subst e; simp [List.elem] at hs
      show cidrv6QuadDefect.accO (s.foldl cidrv6QuadDefect.gstep (cidrv6QuadDefect.gstep o c)) = false
      refine ih _ (by simpa [avoids] using hs.2) ?_
      intro q' hq'
      cases o with
      | none => cases hq'
      | some q =>
        have hstep : (if (47 :: ipv6Support).elem c then quadDefectStep true q c else none) = some q' := hq'
        split at hstep
        · exact quadDefectStep_ph true (ho q rfl) hc hstep
        · cases hstep
  intro s hs
  exact key s (some V6ESt.init) hs (fun q hq => by cases hq; decide)

theorem avoids_pct {s : List Nat} (h : avoids [46, 37] s = true) : avoids [37] s = true := by
  induction s with
  | nil => rfl
  | cons c s ih =>
    simp only [avoids, List.all_cons, Bool.and_eq_true] at h ⊢
    refine ⟨?_, by simpa [avoids] using ih (by simpa [avoids] using h.2)⟩
    have h1 := h.1
    simp only [List.elem, Bool.not_eq_true'] at h1 ⊢
    cases hc : (c == 37)
    · rfl
    · cases hd : (c == 46) <;> rw [hd] at h1 <;> simp [hc] at h1

/-- on every string without '.' and '%' the exported patterns accept exactly the RFC 4291 addresses / prefixes
    (corollaries: the excluded region contains only strings with a '.') -/
theorem c20_ipv6_pattern_partial : ∀ s, avoids [46, 37] s = true → accepts Gen.pat_ipv6 s = ipv6.run s := fun s hs =>
  c20_ipv6_pattern_nozone s (avoids_pct hs) (ipv6QuadDefect_nodot s (avoids_dot hs))
theorem c20_cidrv6_pattern_partial : ∀ s, avoids [46, 37] s = true → accepts Gen.pat_cidrv6 s = cidrv6.run s := fun s hs =>
  c20_cidrv6_pattern_nozone s (avoids_pct hs) (cidrv6QuadDefect_nodot s (avoids_dot hs))

/-! ## all strings: a '%' is never part of an address -/

theorem foldl_gstep_none (S : Spec) : ∀ s : List Nat, s.foldl S.gstep none = none
  | [] => rfl
  | _ :: s => foldl_gstep_none S s

/-- a string with a byte outside the format's alphabet is not of the format -/
theorem run_false_of_foreign (S : Spec) (B : List Nat) (hB : ∀ b, B.elem b = true → S.support.elem b = false) :
    ∀ s, avoids B s = false → S.run s = false := by
  have key : ∀ (s : List Nat) (o : Option S.State), avoids B s = false → S.accO (s.foldl S.gstep o) = false := by
    intro s
    induction s with
    | nil => intro o h; simp [avoids] at h
    | cons c s ih =>
      intro o h
      simp only [List.foldl_cons]
      by_cases hc : B.elem c = true
      · rw [gstep_outside (hB c hc) o, foldl_gstep_none]; rfl
      · refine ih _ ?_
        simp only [avoids, List.all_cons, Bool.and_eq_false_iff] at h
        rcases h with h | h
        · simp only [Bool.not_eq_true] at hc; rw [hc] at h; cases h
        · simpa [avoids] using h
  intro s h
  exact key s (some S.init) h

/-- **all strings**: outside the dotted-quad defect region `regex.IPv6` accepts exactly the RFC 4291 addresses, except that it
    takes some strings with a '%' (the zone defect: no string with a '%' is an address) -/
theorem c20_ipv6_pattern_partial_all :
    ∀ s, ipv6QuadDefect.run s = false → (avoids [37] s = true ∨ accepts Gen.pat_ipv6 s = false) → accepts Gen.pat_ipv6 s = ipv6.run s := by
  intro s he h
  cases ha : avoids [37] s with
  | true => exact c20_ipv6_pattern_nozone s ha he
  | false =>
    rw [ha] at h
    have hp : accepts Gen.pat_ipv6 s = false := by rcases h with h | h; cases h; exact h
    rw [hp, run_false_of_foreign ipv6 [37] (by intro b hb; have : b = 37 := by simpa using hb
                                               subst this; decide) s ha]

theorem c20_cidrv6_pattern_partial_all :
    ∀ s, cidrv6QuadDefect.run s = false → (avoids [37] s = true ∨ accepts Gen.pat_cidrv6 s = false) → accepts Gen.pat_cidrv6 s = cidrv6.run s := by
  intro s he h
  cases ha : avoids [37] s with
  | true => exact c20_cidrv6_pattern_nozone s ha he
  | false =>
    rw [ha] at h
    have hp : accepts Gen.pat_cidrv6 s = false := by rcases h with h | h; cases h; exact h
    rw [hp, run_false_of_foreign cidrv6 [37] (by intro b hb; have : b = 37 := by simpa using hb
                                                 subst this; decide) s ha]

/-- the hypotheses are satisfiable by dotted-quad addresses, well-formed or not; the defects of `c20_ipv6_witnesses` are excluded -/
theorem c20_ipv6_defects_excluded :
    ipv6QuadDefect.run (b! "::01.2.3.4") = true ∧ ipv6QuadDefect.run (b! "1:2:3:4:5:6:1.2.3.4") = true ∧
    ipv6QuadDefect.run (b! "1:2:3:4:5::1.2.3.4") = true ∧ ipv6QuadDefect.run (b! "::FFFF:1.2.3.4") = true ∧
    ipv6QuadDefect.run (b! "::1:1.2.3.4") = true ∧
    cidrv6QuadDefect.run (b! "::01.2.3.4/120") = true ∧ cidrv6QuadDefect.run (b! "1:2:3:4:5:6:1.2.3.4/64") = true := by
  decide +kernel

example : avoids [37] (b! "::ffff:1.2.3.4") = true ∧ ipv6QuadDefect.run (b! "::ffff:1.2.3.4") = false ∧ ipv6.run (b! "::ffff:1.2.3.4") = true ∧
    ipv6QuadDefect.run (b! "::1.2.3.4") = false ∧ ipv6.run (b! "::1.2.3.4") = true ∧
    ipv6QuadDefect.run (b! "::ffff:0:255.255.255.255") = false ∧ ipv6.run (b! "::ffff:0:255.255.255.255") = true ∧
    ipv6QuadDefect.run (b! "1:2:3:4::1.2.3.4") = false ∧ ipv6.run (b! "1:2:3:4::1.2.3.4") = true ∧
    ipv6QuadDefect.run (b! "::1.2.3.256") = false ∧ ipv6.run (b! "::1.2.3.256") = false ∧
    ipv6QuadDefect.run (b! "::1.2.3") = false ∧ ipv6.run (b! "::1.2.3") = false ∧
    ipv6QuadDefect.run (b! "1:2:3:4:5:6:7:1.2.3.4") = false ∧ ipv6.run (b! "1:2:3:4:5:6:7:1.2.3.4") = false ∧
    ipv6QuadDefect.run (b! "1.2.3.4") = false ∧ ipv6.run (b! "1.2.3.4") = false ∧
    ipv6QuadDefect.run (b! "2001:db8::1") = false ∧
    cidrv6QuadDefect.run (b! "::ffff:1.2.3.4/96") = false ∧ cidrv6.run (b! "::ffff:1.2.3.4/96") = true := by
  decide +kernel

end Gozod.C20
