/-
  Gozod.Model.NumFloat — the float branch of `pkg/validate.MultipleOf` (the documented
  relative-ε rule), modelled exactly on `F`:

      val, div := coerce.ToFloat64(value), coerce.ToFloat64(divisor)   (NaN: error → false)
      if div == 0 { return false }
      epsilon   := max(1e-10, math.Abs(div)*1e-6)
      remainder := math.Abs(math.Mod(val, div))
      return remainder < epsilon || math.Abs(remainder-math.Abs(div)) < epsilon

  `math.Mod` is exact (IEEE fmod); the product and the difference are rounded to nearest-even
  (`roundFin 53 1074 1024`).  The two literals are taken as their float64 values (bit patterns
  pinned by `C16D.multipleOf_consts`).  Core-only.
-/
import Gozod.Model.Coerce
namespace Gozod.NumFloat
open Gozod Gozod.Coerce

/-- Round an exact dyadic to float64. -/
def rnd (a : Int) (k : Nat) : F := roundFin 53 1074 1024 a k

def fabs : F → F
  | .fin a k => .fin (a.natAbs : Int) k
  | .ninf => .pinf
  | x => x

/-- float64 `x * y` (only the cases the rule reaches need care: ±Inf·finite-nonzero = ±Inf). -/
def fmul : F → F → F
  | .fin a k, .fin b l => rnd (a * b) (k + l)
  | .nan, _ => .nan
  | _, .nan => .nan
  | .fin a _, y => if a = 0 then .nan else if a > 0 then y else (match y with | .pinf => .ninf | _ => .pinf)
  | x, .fin b _ => if b = 0 then .nan else if b > 0 then x else (match x with | .pinf => .ninf | _ => .pinf)
  | .pinf, .pinf => .pinf
  | .ninf, .ninf => .pinf
  | _, _ => .ninf

/-- float64 `x - y`. -/
def fsub : F → F → F
  | .fin a k, .fin b l => rnd (a * 2 ^ l - b * 2 ^ k) (k + l)
  | .nan, _ => .nan
  | _, .nan => .nan
  | .pinf, .pinf => .nan
  | .ninf, .ninf => .nan
  | .pinf, _ => .pinf
  | .ninf, _ => .ninf
  | _, .pinf => .ninf
  | _, .ninf => .pinf

/-- `math.Mod(x, y)`: exact; NaN for an infinite `x` or a zero `y`; `x` for an infinite `y`. -/
def fmod : F → F → F
  | .fin a k, .fin b l => if b = 0 then .nan else .fin (Int.tmod (a * 2 ^ l) (b * 2 ^ k)) (k + l)
  | .fin a k, .pinf => .fin a k
  | .fin a k, .ninf => .fin a k
  | _, _ => .nan

/-- Go's builtin `max` on two float64 (NaN if either is). -/
def fmax (x y : F) : F :=
  match F.cmp x y with
  | none => .nan
  | some .lt => y
  | _ => x

def flt (x y : F) : Bool := F.cmp x y == some .lt

def isZeroF : F → Bool
  | .fin a _ => a == 0
  | _ => false

/-- The float64 values of the literals `1e-10` and `1e-6`. -/
def c1em10 : F := F.ofBits 4457293557087583675
def c1em6 : F := F.ofBits 4517329193108106637

/-- The float branch of `validate.MultipleOf` on two float64 operands (NaN operands have
    already been refused by `coerce.ToFloat64`). -/
def floatMultipleOf (v d : F) : Bool :=
  if v.isNaN || d.isNaN then false
  else if isZeroF d then false
  else
    let eps := fmax c1em10 (fmul (fabs d) c1em6)
    let r := fabs (fmod v d)
    flt r eps || flt (fabs (fsub r (fabs d))) eps

/-- What `coerce.ToFloat64` makes of a `Num` operand (integers are rounded to float64). -/
def numToF : Num → F
  | .i v => .fin (toF64Int v) 0
  | .u v => .fin (toF64Int v) 0
  | .f x => x

/-- `validate.MultipleOf` on two built-in numeric operands: the exact integer branch when both are
    integers, the ε-rule otherwise. -/
def multipleOfNum (a b : Num) : Bool :=
  match a, b with
  | .f _, _ => floatMultipleOf (numToF a) (numToF b)
  | _, .f _ => floatMultipleOf (numToF a) (numToF b)
  | a, b => multipleOfInts a b

end Gozod.NumFloat
