/-
  C13 — witnesses on /repo HEAD (kept apart: they stop checking when the library is repaired,
  which is reported as "finding no longer reproduces", not as a violation).
-/
import Gozod.Proofs.C13
import Gozod.Proofs.C13Typed
namespace Gozod.C13W
open Gozod.Tags Gozod.GenChain Gozod.Gen Gozod.GenSem Gozod.C13

/-- the cell compiles, its chain is judged on every probe, and some verdict is not FromStruct's -/
def differs (x : Block × GenBlock) (rc : (List TRule × List Bool) × GenCell) : Bool :=
  rc.2.status == .ok &&
  (match emitCell x.1.fty rc.2.rules with
   | some ch => (x.1.probes.map (denoteChain ch)).all Option.isSome && decide (x.1.probes.map (denoteChain ch) ≠ rc.1.2.map some)
   | none => false)

theorem c13_equiv_full_false : ¬ c13_equiv_full := by
  intro h
  have key : ∃ x ∈ zipTables, ∃ rc ∈ rowsOf x, differs x rc = true := by decide +kernel
  obtain ⟨x, hx, rc, hrc, hd⟩ := key
  simp only [differs, Bool.and_eq_true, beq_iff_eq] at hd
  obtain ⟨ch, he, hv⟩ := h x hx rc hrc hd.1
  rw [he] at hd
  simp only [Bool.and_eq_true, decide_eq_true_eq] at hd
  exact hd.2.2 hv

/-- each excluded class (defined on the input) is inhabited by a cell on which the two schemas really differ, the other
    classes absent: F string `url,uuid`; F uint64 `min=18446744073709551615` (`refKnown` is empty since the C06 fixes) -/
theorem c13_class_witnesses :
    (∃ x ∈ zipTables, ∃ rc ∈ rowsOf x, differs x rc = true ∧ secondFormat x.1.fty rc.2.rules = true ∧ refKnown x.1.fty rc.2.rules = false ∧ boundBeyondInt64 x.1.fty rc.2.rules = false) ∧
    (∃ x ∈ zipTables, ∃ rc ∈ rowsOf x, differs x rc = true ∧ boundBeyondInt64 x.1.fty rc.2.rules = true ∧ refKnown x.1.fty rc.2.rules = false ∧ secondFormat x.1.fty rc.2.rules = false) := by
  refine ⟨by decide +kernel, by decide +kernel⟩

/-- the converse of `C13.c13_illtyped_rows_are_open`: every listed does-not-compile class still has a row of the kind × tag
    table that fails for exactly that reason — the `open:` lines of known-findings.txt are EXACTLY the classes of rows that do
    not type-check. Stops checking when a fix lands (reported as "a known finding no longer reproduces"): the line becomes `fixed:`. -/
theorem c13_open_compile_classes_exact :
    Gozod.Gen.openCompileClasses.all (fun c => (illClasses WF).contains c) = true := by decide +kernel

end Gozod.C13W
