/-
  Line handler for C09.
    c09 str <ctorPtr 0/1> <modifier>* ; <n> <check>*n | <input> @ <implementation observation>
    c09 gen …                                          | …       @ <implementation observation>
  modifier := Optional | Nilable | Nullish | NonOptional | Default:<hex> | DefaultFunc:<hex> | Prefault:<hex> | PrefaultFunc:<hex>
  check    := as in C10 (no when-guards)
  input    := nil | nilptr | <hex> | <hex>* | foreign
  observation := P=<out>;S=<out>;A=<out>;MP=<out>;MS=<out>;MA=<out>      (S/MS = n/a when the input is not of the strict type)
  out := ok:<hex> | ok:nil | err:checks:<p,p,…> | err:nonoptional | err:type | …
    c09 hist str <schema A> // <schema B> // <hop>* // t=<k> in=<hex> | <input> @ <observation>;H=<ok|flags>
      schema := <ctorPtr 0/1> <modifier>* ; <n> <check>*n      (heap cells 0 and 1)
      hop    := run:<P|S|A|MP|MS|MA>:<j>:<v|n> | clone:<dst>:<src> | chain:<j>:<modifier> | fresh:<j>
      The history is run on `Prim.exec`'s step function with the `pinned` implementation; the model
      observation is what the six entry points answer on cell k afterwards.
    c09 hist gen … / c09 frame …   echoed (frame: the model's answer is the constant `frame:same`)
    c09 cpx <family> <GoType> <key=value>* | <input> @ <projected observation>
      A schema of a complex-path type (ParseComplex / ParseComplexStrict and the four type-local pairs). The line carries what
      the `Cpx` model is parametric in, read off the REAL schema and the REAL validator:
        ps=0/1 (R is a pointer)  ptv=0/1 (the pointer extractor takes values)  opt= nil= nonopt= (internals)  dv= df= pv= pf=
        (`v:<canon>` of DefaultValue / DefaultFunc() / PrefaultValue / PrefaultFunc(), `-` = unset)  checks=<o|p>* (overwrite / other)
        strict=0/1 (the input is of StrictParse's parameter type)  in=nil|nilx|val|ptr|ill (untyped nil / typed nil / what the
        extractors answer)  self=<canon of the input>  r.in= r.pv= r.pf= (what the type's validator answers on the input / the
        prefault value: the unmodified schema's projected answer without the pointer of its R, `-` = not asked)
      The six predictions are `TypeLocal.famSix` = `Cpx.six (famParse …) (famStrict …)`: through `Cpx.parse`, `Cpx.strictParse`,
      `TypeLocal.file…/func…/struct…`, `Cpx.must`, `Cpx.fwd`. Errors are projected to `code@path` lists (no message texts).
  Output "<model observation>\t<spec verdict>": the spec verdict echoes the observation when all entry
  points agree (Parse = ParseAny = MustParse = MustParseAny, and StrictParse = MustStrictParse = Parse
  when applicable); for `gen` lines (types whose engine path is not modelled) the model echoes too.
-/
import Gozod.Model.Prim
import Gozod.Model.Str
import Gozod.Model.TypeLocal
import Gozod.Drv.C10
import Gozod.Gen.EntryPoints
namespace Gozod.Drv.C09
open Gozod Gozod.Str Gozod.Prim Gozod.Drv.C10

abbrev SI := Internals SPred SOw Bytes

def applyMod (i : SI) (tok : String) : Option SI :=
  match tok.splitOn ":" with
  | ["Optional"] => some { i with optional := true, ptrSchema := true }
  | ["Nilable"] => some { i with nilable := true, ptrSchema := true }
  | ["Nullish"] => some { i with optional := true, nilable := true, ptrSchema := true }
  | ["NonOptional"] => some { i with optional := false, nonOptional := true, ptrSchema := false }
  | ["Default", h] => (unhex h).map fun b => { i with dv := some b }
  | ["DefaultFunc", h] => (unhex h).map fun b => { i with df := some b }
  | ["Prefault", h] => (unhex h).map fun b => { i with pv := some b }
  | ["PrefaultFunc", h] => (unhex h).map fun b => { i with pf := some b }
  | _ => none

def renderOut : Out Bytes → String
  | .okVal v => "ok:" ++ hex v
  | .okNil => "ok:nil"
  | .errChecks ps => "err:checks:" ++ ",".intercalate (ps.map toString)
  | .errNonOptional => "err:nonoptional"
  | .errType => "err:type"

def isRefineP : SPred → Bool
  | .custom _ => true
  | _ => false

/-- All entry points agree in an observation `P=..;S=..;A=..;MP=..;MS=..;MA=..`. -/
def judge (obs : String) : Option String :=
  let kv := (obs.splitOn ";").filterMap fun f =>
    match f.splitOn "=" with
    | k :: rest => some (k, "=".intercalate rest)
    | _ => none
  let get := fun k => (kv.find? (·.1 == k)).map (·.2)
  match get "H" with
  | some h => if h != "ok" then some ("H-" ++ h) else judgeP get
  | none => judgeP get
where judgeP (get : String → Option String) : Option String :=
  match get "P" with
  | none => some "no-parse-observation"
  | some p =>
    let bad := ["A", "MP", "MA", "S", "MS"].find? fun k =>
      match get k with
      | some v => v != "n/a" && v != p
      | none => true
    bad.map fun k => k ++ "-differs-from-Parse"

abbrev HCell := Cell SPred SOw Bytes Unit

def parseSchema (toks : List String) (refineNilByCtor : Bool := true) : Option SI :=
  match toks with
  | cp :: rest =>
    let mods := rest.takeWhile (· ≠ ";")
    let after := (rest.dropWhile (· ≠ ";")).drop 1
    match after with
    | n :: ctoks =>
      match n.toNat?.bind (fun n => parseChecks n ctoks) with
      | some (cs, []) =>
        let base : SI := { checks := cs, ptrSchema := cp == "1", ctorPtr := refineNilByCtor && cp == "1", isRefine := isRefineP }
        mods.foldlM applyMod base
      | _ => none
    | _ => none
  | _ => none

def parseEP : String → Option EP
  | "P" => some .parse | "S" => some .strict | "A" => some .parseAny
  | "MP" => some .mustParse | "MS" => some .mustStrict | "MA" => some .mustParseAny
  | _ => none

/-- One hop of the harness, turned into a `Prim.Op` against the current heap and executed by `Prim.step`. -/
def hopStep (ck : CloneKind) (byCtor : Bool) (inB : Bytes) (h : List HCell) (tok : String) : Option (List HCell) :=
  match tok.splitOn ":" with
  | ["run", ep, j, w] => do
    let ep ← parseEP ep
    let j ← j.toNat?
    let c ← h[j]?
    let x : Input Bytes := match c.cfg.ptrSchema, w == "n" with
      | true, true => .nilPtr
      | false, true => .nil
      | true, false => .ptr inB
      | false, false => .val inB
    -- the harness skips strict calls whose input is not of the static type (untyped nil on a value schema)
    pure (step pinned Str.env h (.run ep j x)).1
  | ["clone", d, s] => do
    let d ← d.toNat?
    let s ← s.toNat?
    let _ ← h[d]?
    let _ ← h[s]?
    pure (step pinned Str.env h (.cloneFrom ck d s)).1
  | "chain" :: j :: modTok => do
    let j ← j.toNat?
    let c ← h[j]?
    let _ ← applyMod c.cfg (":".intercalate modTok)
    pure (step pinned Str.env h (.chain j fun c => (applyMod c (":".intercalate modTok)).getD c)).1
  | ["fresh", j] => do
    let j ← j.toNat?
    let c ← h[j]?
    pure (step pinned Str.env h (.mk { ptrSchema := c.cfg.ptrSchema, ctorPtr := byCtor && c.cfg.ptrSchema, isRefine := isRefineP })).1
  | _ => none

def parseInput (inTok : String) : Option (Input Bytes) :=
  if inTok == "nil" then some .nil
  else if inTok == "nilptr" then some .nilPtr
  else if inTok == "foreign" then some .foreign
  else if inTok.endsWith "*" then (unhex (inTok.dropEnd 1).toString).map .ptr
  else (unhex inTok).map .val

/-- Does the schema type have a `MustParseAny` at all (regenerated entry-point table)? -/
def hasMustParseAny (goType : String) : Bool :=
  match EntryPoints.Table.find Gen.EntryPoints.table goType "MustParseAny" with
  | some .absent => false
  | none => false
  | _ => true

/-- An `Out` as the `(R, error)` pair of an entry point: the two `ok` forms are results, the rest errors. -/
def outExc : Out Bytes → Except (Out Bytes) (Out Bytes)
  | .okVal v => .ok (.okVal v)
  | .okNil => .ok .okNil
  | e => .error e

def renderExcP : Except (Out Bytes) (Out Bytes) → String
  | .ok r => renderOut r
  | .error e => renderOut e

def renderOutcP : Cpx.Outcome (Out Bytes) (Out Bytes) → String
  | .returned r => renderOut r
  | .panicked e => renderOut e

/-- The six entry points of a primitive schema: `Parse` = `Prim.parse`, `StrictParse` = `Prim.strictParse`, the other four
    assembled by `Cpx.six` (fwd / must wrappers). -/
def observe (i : SI) (x : Input Bytes) (mpa : Bool := true) : String :=
  let r := Cpx.six (fun y => outExc (parse Str.env i y)) (fun y => outExc (strictParse Str.env i y)) x
  let strictOk : Bool := match x with
    | .val _ => !i.ptrSchema
    | .ptr _ => i.ptrSchema
    | .nilPtr => i.ptrSchema
    | _ => false
  let s := if strictOk then renderExcP r.s else "n/a"
  let ms := if strictOk then renderOutcP r.ms else "n/a"
  let ma := if mpa then renderOutcP r.ma else "n/a"
  s!"P={renderExcP r.p};S={s};A={renderExcP r.a};MP={renderOutcP r.mp};MS={ms};MA={ma}"

/-- `byCtor`: a refinement lets nil pass when the checks were attached to the pointer constructor (strings); for integers
    (`false`) it never does: `ZodIntegerTyped.Refine` asks the receiver's `IsNilable()` at attachment, and the recipes attach
    the checks to the bare constructor. -/
def handleHistStr (ck : CloneKind) (goType : String) (body input : String) (byCtor : Bool := true) : Option String := do
  match body.splitOn " // " with
  | [a, b, hops, tail] =>
    let ca ← parseSchema ((a.splitOn " ").filter (· ≠ "")) byCtor
    let cb ← parseSchema ((b.splitOn " ").filter (· ≠ "")) byCtor
    let (t, inB) ← match (tail.splitOn " ").filter (· ≠ "") with
      | [t, i] => do
        let t ← (t.drop 2).toString.toNat?
        let i ← unhex (i.drop 3).toString
        pure (t, i)
      | _ => none
    let h0 : List HCell := (step pinned Str.env (step pinned Str.env [] (.mk ca)).1 (.mk cb)).1
    let h ← ((hops.splitOn " ").filter (· ≠ "")).foldlM (hopStep ck byCtor inB) h0
    let c ← h[t]?
    let x ← parseInput input.trimAscii.toString
    pure (observe c.cfg x (hasMustParseAny goType) ++ ";H=ok")
  | _ => none

/-! ## `c09 cpx`: the complex engine path and the type-local pairs, run through `Cpx` / `TypeLocal` -/
section CpxRun
open Gozod.Cpx Gozod.TypeLocal

abbrev CV := String      -- a value: its canonical rendering, or a marker (`$in`, `$pv`, `$pf`) for a value only the run knows
abbrev CE := String      -- an error: its projection `err:<code@path,…>`

def kvs (toks : List String) : List (String × String) :=
  toks.filterMap fun t =>
    match t.splitOn "=" with
    | k :: rest@(_ :: _) => some (k, "=".intercalate rest)
    | _ => none

def kvGet (kv : List (String × String)) (k : String) : Option String := (kv.find? (·.1 == k)).map (·.2)

def optVal (s : Option String) : Option CV :=
  match s with
  | some v => if v.startsWith "v:" then some (v.drop 2).toString else none
  | none => none

/-- What the validator answered (`ok:<canon>` / `ok:&<canon>` / `err:…`), as the model's `Except`. -/
def oracleRes (s : String) : Except CE CV :=
  if s.startsWith "ok:" then .ok (s.drop 3).toString else .error s

def typeErrP : CE := "err:invalid_type@[]"
def nonOptErrP : CE := "err:invalid_type@[]:nonoptional"

/-- The environment of a `cpx` line: the validator is the table the line carries; the harness' Overwrite is the identity
    (`checksOnDefault` hands the default on, `checksOnNil` nil, no separate pointer pass); no engine-level Transform is
    reachable through the public API. -/
def cpxEnv (kv : List (String × String)) : CEnv Unit Unit Unit CV CE where
  validate := fun _ v =>
    match kvGet kv ("r." ++ (v.drop 1).toString) with
    | some r => if r == "-" then .error "err:?validator-not-asked" else oracleRes r
    | none => .error "err:?validator-not-asked"
  firstPass := fun _ _ => none
  checksOnDefault := fun _ d => .val d
  checksOnNil := fun _ => .nil
  trans := fun _ r => r
  typeErr := typeErrP
  nonOptErr := nonOptErrP

def cpxChecks (s : String) : List (Check Unit Unit) :=
  s.toList.filterMap fun ch =>
    if ch == 'o' then some (.overwrite ()) else if ch == 'p' then some (.pred () false none) else none

def cpxCfg (kv : List (String × String)) : CCfg Unit Unit Unit CV :=
  let b := fun k => kvGet kv k == some "1"
  { i := { checks := cpxChecks ((kvGet kv "checks").getD ""), ptrSchema := b "ps", optional := b "opt", nilable := b "nil",
           nonOptional := b "nonopt", dv := optVal (kvGet kv "dv"), df := optVal (kvGet kv "df"),
           pv := (optVal (kvGet kv "pv")).map fun _ => "$pv", pf := (optVal (kvGet kv "pf")).map fun _ => "$pf" },
    ptrExTakesValues := b "ptv" }

def cpxIn (c : CCfg Unit Unit Unit CV) (kind : String) : Option (CIn CV) :=
  match kind with
  | "nil" => some { isNil := true, untyped := true, ptrEx := none, typEx := none }
  | "nilx" => some { isNil := true, untyped := false, ptrEx := some none, typEx := none }
  | "val" => some (inOfVal c "$in")
  | "ptr" => some { isNil := false, untyped := false, ptrEx := some (some "$in"), typEx := none }
  | "ill" => some { isNil := false, untyped := false, ptrEx := none, typEx := none }
  | _ => none

def cpxFam : String → Option Fam
  | "slice" => some .slice | "viaParse" => some .viaParse | "file" => some .file
  | "function" => some .function | "struct" => some .struct
  | _ => none

/-- The family the regenerated table gives the Go type (so a re-routed `StrictParse` changes the prediction too). -/
def famOfTable (goType : String) : Option Fam :=
  let parseIsComplex : Bool := match EntryPoints.Table.find Gen.EntryPoints.table goType "Parse" with
    | some (.engine "ParseComplex" _ _ _ _ _) => true
    | _ => false
  if !parseIsComplex then none else
  match EntryPoints.classify Gen.EntryPoints.table goType with
  | .complex _ => some .slice
  | .viaParse => some .viaParse
  | .typeLocal _ _ =>
    if goType == "ZodFile" then some .file else if goType == "ZodFunction" then some .function
    else if goType == "ZodStruct" then some .struct else none
  | _ => none

/-- ZodStruct's error rewrite under the projection: a single root-level invalid_type issue is replaced by what
    `createStructTypeError(input, ctx)` builds — a single root-level `custom` issue naming both Go types, or, for an untyped
    nil input (no Go type to name), the engine's invalid_type issue again. -/
def cpxStructErr (untyped : Bool) : StructErr CE :=
  { looksLikeTypeErr := fun e => e == typeErrP, rewritten := if untyped then typeErrP else "err:custom@[]",
    conversionErr := "err:?conversion" }

def showV (kv : List (String × String)) (v : CV) : String :=
  if v.startsWith "$" then
    match kvGet kv ("self." ++ (v.drop 1).toString) with
    | some s => (s.drop 2).toString
    | none => v
  else v

/-- A value's text starts with `&` when the value itself is a Go pointer (a file): a pointer to it shows one `&` as well. -/
def dropAmp (s : String) : String := if s.startsWith "&" then (s.drop 1).toString else s

def renderRes (kv : List (String × String)) : Cpx.Res CV CE → String
  | .val v => "ok:" ++ showV kv v
  | .ptr v => "ok:&" ++ dropAmp (showV kv v)
  | .nilPtr => "ok:nil"
  | .nil => "ok:nil"
  | .err e => e

def renderExc (kv : List (String × String)) : Except CE (Cpx.Res CV CE) → String
  | .ok r => renderRes kv r
  | .error e => e

def renderOutc (kv : List (String × String)) : Outcome (Cpx.Res CV CE) CE → String
  | .returned r => renderRes kv r
  | .panicked e => e

def handleCpx (toks : List String) : Option String := do
  match toks with
  | famTok :: goType :: rest =>
    let kv := kvs rest
    let fam ← cpxFam famTok
    -- the family named by the harness must be the one the regenerated table gives the type
    if famOfTable goType != some fam then none else
    let c := cpxCfg kv
    let x ← cpxIn c ((kvGet kv "in").getD "")
    let r := famSix (cpxStructErr x.untyped) fam (cpxEnv kv) c x
    let strict := kvGet kv "strict" == some "1"
    let s := if strict then renderExc kv r.s else "n/a"
    let ms := if strict then renderOutc kv r.ms else "n/a"
    let ma := if hasMustParseAny goType then renderOutc kv r.ma else "n/a"
    pure s!"P={renderExc kv r.p};S={s};A={renderExc kv r.a};MP={renderOutc kv r.mp};MS={ms};MA={ma}"
  | _ => none

end CpxRun

/-- `c09 table`: the rows of the regenerated entry-point table the expectation does not cover. -/
def tableReport : String :=
  let off := EntryPoints.tableOffenders Gen.EntryPoints.table ++
    (EntryPoints.wrapperOffenders Gen.EntryPoints.table).map (· ++ " is not the plain wrapper") ++
    (EntryPoints.uncovered Gen.EntryPoints.table).map (· ++ " has no agreement theorem and no disposition") ++
    EntryPoints.baseOffenders Gen.EntryPoints.table ++
    EntryPoints.transcriptionOffenders Gen.EntryPoints.table Gen.EntryPoints.stmts
  if off.isEmpty then "table-ok" else " ; ".intercalate off

def handleLine (line : String) : String :=
  if line.startsWith "c09 table" then tableReport ++ "\t-" else
  let (lhs, impl) := match line.splitOn " @ " with
    | [a, b] => (a, some b)
    | _ => (line, none)
  let spec := match impl with
    | none => "-"
    | some io => match judge io with
      | none => io
      | some why => "spec-rejects:" ++ why
  match lhs.splitOn " | " with
  | [schema, input] =>
    match (schema.splitOn " ").filter (· ≠ "") with
    | "c09" :: "cpx" :: toks =>
      match handleCpx toks with
      | some m => m ++ "\t" ++ spec
      | none => "bad-op"
    | "c09" :: "gen" :: _ => (impl.getD "-") ++ "\t" ++ spec
    | "c09" :: "ill" :: _ => (impl.getD "-") ++ "\t" ++ spec
    | "c09" :: "hist" :: "gen" :: _ => (impl.getD "-") ++ "\t" ++ spec
    | "c09" :: "frame" :: _ => "frame:same" ++ "\t" ++ (impl.getD "-")
    | "c09" :: "hist" :: "str" :: _ =>
      match handleHistStr .copyAll "ZodString" (schema.drop "c09 hist str ".length).toString input with
      | some m => m ++ "\t" ++ spec
      | none => "bad-op"
    -- integers in unary ("x"*n): `CloneFrom` keeps the receiver's checks (types/integer.go:597-605)
    | "c09" :: "hist" :: "int" :: _ =>
      match handleHistStr .keepChecks "ZodIntegerTyped" (schema.drop "c09 hist int ".length).toString input false with
      | some m => m ++ "\t" ++ spec
      | none => "bad-op"
    | "c09" :: "str" :: cp :: rest =>
      let mods := rest.takeWhile (· ≠ ";")
      let after := (rest.dropWhile (· ≠ ";")).drop 1
      match after with
      | n :: ctoks =>
        match n.toNat?.bind (fun n => parseChecks n ctoks) with
        | some (cs, []) =>
          let base : SI := { checks := cs, ptrSchema := cp == "1", ctorPtr := cp == "1", isRefine := isRefineP }
          match mods.foldlM applyMod base with
          | none => "bad-op"
          | some i =>
            let inTok := input.trimAscii.toString
            let inp : Option (Input Bytes) :=
              if inTok == "nil" then some .nil
              else if inTok == "nilptr" then some .nilPtr
              else if inTok == "foreign" then some .foreign
              else if inTok.endsWith "*" then (unhex (inTok.dropEnd 1).toString).map .ptr
              else (unhex inTok).map .val
            match inp with
            | none => "bad-op"
            | some x => observe i x ++ "\t" ++ spec
        | _ => "bad-op"
      | _ => "bad-op"
    | _ => "bad-op"
  | _ => "bad-op"

end Gozod.Drv.C09
