"""C19 — error formatters lose nothing: every issue appears once at its own path."""
import os, re
from . import common as C

MANIFEST = dict(
   technique="Lean 4 proof about a transcription of FlattenError/TreeifyError/FormatError/PrettifyError/ToDotPath (count, placement and path-injectivity theorems over all issue trees and all paths) + whole-table theorems over a go/ast translation of gozod.go's re-exports and errors.go's thin entry points + differential correspondence of the model and of an independent grouping oracle against the real formatters, through every exported entry point, on generated and Parse-produced ZodErrors",
   text="Theorems c19_flatten_count/_place, c19_tree_count/_place, c19_format_count (full since cef00ff), c19_format_place (exact outside the reserved key \"_errors\", modulo reserved segments for every error: c19_format_place_strip; a witness theorem shows the misplacement inside that region), c19_nonempty prove for every issue list (any codes, typed paths, union branches and sub-issues nested to any depth) that FlattenError, TreeifyError and FormatError carry exactly one message per issue (per nested leaf for wrapper issues in FormatError), filed at the position the path denotes, and at least one for a non-empty error. PrettifyError (a single string) is proved about the definition the driver runs (prettifyGo, every path element type; Proofs/C19Pretty.lean): the report is the \"; \"-join of one segment per issue in order, a segment is the message preceded by the dot path unless the path is empty (c19_go_prettify_join/_seg), every issue's segment and message occur in the report (c19_go_prettify_accounts/_msg_occurs), cutting the report at every \"; \" gives back exactly one segment per issue when no segment contains ';' (c19_go_prettify_split_partial; witness c19_go_prettify_split_full_false: a message \"a; b\" reads as two — the report shape cannot tell), the path part identifies the position (c19_dotpath_go_injective), and the report is the empty string exactly for ONE issue at the ROOT whose message is empty (c19_go_prettify_empty_iff, c19_prettify_empty_iff): a non-empty error never formats to an empty report under the stated hypothesis that no message is \"\" (c19_go_nonempty, c19_nonempty; witnesses c19_go_prettify_nonempty_full_false / c19_prettify_nonempty_full_false, re-derived on the real code by the run with a formatter that returns \"\"); for the library's own messages (an issue's Message, else the default formatter's text) the run asks all four reports of every non-empty error to be non-empty, unconditionally. prettifyGo_eq relates prettifyGo to the position-level prettify outside negative ints (witness prettifyGo_neg_differs). c19_dotpath_esc_injective proves for ToDotPath as it stands (quoted keys escaped, since c7ce73a) that two different paths of any length with arbitrary keys never render alike, so PrettifyError, PrettifyErrorWithFormatter and err.Error() (c19_error_eq_prettify) name every position unambiguously. c19_exports_are_internal/_cover, c19_wrappers_as_expected, c19_errors_go_accounted and c19_error_method_as_expected are decided over a table regenerated from gozod.go and internal/issues/errors.go on every run: each exported formatter is the internal function of the same name, each thin entry point hands the unchanged error to the transcribed function with defaultIssueMapper of the right formatter, and no function of errors.go is unaccounted for. The hand-written model is tied to /repo by running model, spec oracle and the real formatters — through the plain entry points, err.Error(), the WithMapper/WithFormatter variants with custom mappers and formatters, and SetFormatter — on thousands of synthesised issue trees and real failing Parse calls and comparing canonical renderings; structure fingerprints of the 16 Go functions involved aim the run when one is edited.",
   note="Round 4b: every ZodError — path elements of any Go type (the library files Map keys and Set elements of any comparable type in paths: Gen/C19PathTypes.lean, regenerated with go/types, c19_path_types_covered / _any_sources) and nil errors are in the model (Model/IssuesGo.lean), the spec, the generator and the Parse stream; c19_go_tree_place, c19_go_never_panics, c19_go_*_count are the full statements for them, by refinement to the position-level model (flattenGo_eq, formatGo_eq, treeifyGo_eq); c19_parse_dotpath / c19_parse_dotpath_go: the dot notation parses back to the path (injectivity is a corollary). Round 4c (audit B M9/LOW): the Prettify theorems restated about prettifyGo at the strength of the clause (above); the observation carries the clause ne (non-empty error => all four reports non-empty) judged on the implementation alone, the spec column states it (unconditional for the library's own messages, modulo the one-root-issue-with-empty-message region for user-supplied formatters); rendered message lists mark every message (m<hex>) so that a list holding one empty message is not read as an empty list; c19_path_sinks_recognised / _elements_recorded / _nonvacuous: a type-driven enumeration (go/types worklist over every variable, parameter, field and function result that flows into a Path []any field) of every expression a path is built from, with its shape — a construction the translator does not understand is a row 'unrecognised' and breaks the proof (it found slices.Concat in core/context.go:AddIssue and the string elements of checks.resolvePath, which the name-based matcher had missed). Fixed in /repo: c65f4c0 (TreeifyError panic on negative ints, other types ignored), 6ff3a13 (ToDotPath [%v]), e8b2b50 (nil *ZodError). Trusted: Lean kernel; axioms propext/Classical.choice/Quot.sound only; the Go harness, hex line protocol and comparer; the go/ast translator (source text only). The model is a hand transcription validated on generated cases. Issue.msg stands for mapper(issue): the default formatter's text is taken from the library, custom mappers/formatters are computed by the harness. fmt's %v of a path element of another type is computed by the harness with the same call (trusted). FormatError's reserved key \"_errors\" is an open known finding for the placement only (since cef00ff no message is lost; the placement cannot be repaired within the report shape).",
   design="DESIGN.md §5 C19; notes/C19.md")

MODULES = ["Gozod.Proofs.C19", "Gozod.Proofs.C19Dot", "Gozod.Proofs.C19Exports", "Gozod.Proofs.C19Go", "Gozod.Proofs.C19Parse", "Gozod.Proofs.C19Pretty", "Gozod.Proofs.C19PathTypes"]
GEN = os.path.join(C.LEAN, "Gozod", "Gen", "C19Exports.lean")
GEN_PATHS = os.path.join(C.LEAN, "Gozod", "Gen", "C19PathTypes.lean")
THEOREMS = ["Gozod.C19." + t for t in [
    "c19_flatten_count", "c19_flatten_form", "c19_flatten_field", "c19_flatten_place",
    "c19_tree_count", "c19_tree_place",
    "formatError_eq", "c19_format_count", "legacy_fileAt_drops_reserved",
    "c19_format_place_partial", "c19_format_place_strip", "c19_format_place_full_false",
    "c19_prettify_count", "c19_prettify_place", "c19_dotpath_injective_partial", "c19_dotpath_injective_full_false", "dotpath_empty_key",
    "c19_nonempty", "intercalate_eq_nil_iff", "semi_intercalate_eq_empty_iff", "c19_prettify_empty_iff", "c19_prettify_nonempty_full_false",
    "esc_split", "segDotEsc_split", "c19_dotpath_esc_injective", "c19_dotpath_esc_nonempty",
    "dotPath_eq_esc", "c19_dotpath_injective_escfree", "plainPath_escFree", "dotpath_backslash_outside",
    "c19_exports_are_internal", "c19_exports_cover", "c19_wrappers_as_expected", "c19_errors_go_accounted",
    "c19_transcribed_present", "c19_error_method_as_expected", "c19_error_eq_prettify",
    "legacy_format_drops_union", "legacy_format_drops_element", "legacy_format_drops_unknown_code",
    "legacy_format_misfiles_nested", "legacy_dotpath_conflates", "legacy_nonempty_false",
    "c19_wrapper_guards_as_expected",
    # Go-level errors: every path element type, nil (Proofs/C19Go.lean)
    "El.render_pos", "flattenGo_eq", "formatGo_eq", "treeifyGo_eq",
    "c19_go_flatten_count", "c19_go_format_count", "c19_go_tree_count", "c19_go_tree_place", "c19_go_nonempty",
    "c19_go_never_panics", "reportsCfg_fixed", "treeifyCfg_fixed", "treeifyCfg_head",
    "treeInsertOld_eq_dropOther", "treeInsertOld_plain", "treeInsertOld_none_iff", "c19_old_tree_partial",
    "old_tree_panics_negative", "old_tree_misfiles_other", "c19_old_tree_full_false", "old_nil_panics",
    # PrettifyError, about the definition the driver runs (Proofs/C19Go.lean, C19Pretty.lean)
    "prettySegGo_eq_empty_iff", "c19_go_prettify_empty_iff", "c19_go_prettify_nonempty_full_false",
    "c19_go_prettify_join", "c19_go_prettify_seg", "c19_go_prettify_accounts", "c19_go_prettify_msg_occurs",
    "splitSemi_intercalate", "c19_go_prettify_split_partial", "c19_go_prettify_split_full_false",
    "prettifyGo_eq", "prettifyGo_neg_differs",
    # the dot notation as a grammar (Proofs/C19Parse.lean)
    "unesc_esc", "parseSegs_seg", "c19_parse_dotpath_go", "c19_parse_dotpath", "c19_dotpath_go_injective",
    "c19_dotpath_typed_injective", "c19_dotpath_esc_injective'", "old_dotpath_other_conflates",
    "dotPathOld_typed", "c19_old_dotpath_partial", "c19_old_dotpath_full_false",
    "leafCount_pos", "c19_format_accounts_every_issue",
    # the Go types the library itself puts into paths, over the table regenerated with go/types (Proofs/C19PathTypes.lean)
    "c19_path_types_covered", "c19_el_needed", "c19_path_types_any_sources", "c19_path_types_typed_present",
    "c19_path_sinks_recognised", "c19_path_sinks_elements_recorded", "c19_path_sinks_nonvacuous",
]]

PARTS = ("flat", "tree", "fmt", "pretty", "ne")

def parts(line):
    d = {}
    for tok in line.split(" "):
        if "=" in tok:
            k, v = tok.split("=", 1)
            d[k] = v
    return d

ERRKEY = "k" + "_errors".encode().hex()
ERROTHER = "o" + "_errors".encode().hex()

def features(op):
    """Classify the issue tree of an op line (token scan; enough to name the failure class)."""
    t = C.op_body(op).split(" ")
    f = set()
    # t = c19 cfg=.... dm=. <n | nil> issues...
    if len(t) > 3 and t[3] == "nil":
        return {"nil-error"}
    i = 4
    # walk the token stream: I code npath segs... msg nb (n issues...)* ni issues*
    def issue(i, depth):
        assert t[i] == "I", (i, t[i])
        code = t[i + 1]; n = int(t[i + 2]); segs = t[i + 3:i + 3 + n]; i = i + 3 + n
        i += 1  # msg
        nb = int(t[i]); i += 1
        any_nested = False
        for _ in range(nb):
            c = int(t[i]); i += 1
            for _ in range(c):
                any_nested = True
                i = issue(i, depth + 1)
        ni = int(t[i]); i += 1
        subs_at = i
        for _ in range(ni):
            i = issue(i, depth + 1)
        if ERRKEY in segs or ERROTHER in segs: f.add("reserved-key")
        if depth == 0:
            if any(sg.startswith("j") for sg in segs): f.add("negative-int-element")
            if any(sg.startswith("o") for sg in segs): f.add("other-type-element")
        if code.startswith("?"): f.add("unknown-code")
        if code == "invalid_union":
            f.add("union-with-branches" if any_nested else "union-without-branches")
        if code in ("invalid_key", "invalid_element"):
            f.add("element-with-nested" if ni else "element-without-nested")
        if depth > 0 and n > 0: f.add("nested-nonempty-path")
        if depth == 0:
            for sg in segs:
                if sg.startswith("k"):
                    kb = bytes.fromhex(sg[1:])
                    if kb == b"" or b'"' in kb or b"\\" in kb: f.add("key-needs-escaping")
        if n and segs[0].startswith("k"):
            k = bytes.fromhex(segs[0][1:]).decode("utf-8", "replace")
            if k and (k[0].isdigit() or not re.fullmatch(r"[A-Za-z0-9_]*", k)): f.add("first-key-needs-brackets")
        return i
    n = int(t[3])
    for _ in range(n):
        i = issue(i, 0)
    return f

def key(op, impl, M, S):
    """failure class = first report on which the implementation differs from the oracle; reports on which
    it also differs from the model (i.e. not a mirrored, listed defect) are named first."""
    a, s, m = parts(impl), parts(S or M), parts(M)
    bad = [p for p in PARTS if a.get(p) != s.get(p)]
    drift = [p for p in PARTS if a.get(p) != m.get(p)]
    if drift:
        return key1(op, a, drift[0]) + ":model-differs"
    if not bad:
        return "other"
    return key1(op, a, bad[0])

def key1(op, a, p):
    f = features(op)
    if "nil-error" in f:
        return "nil-error:panic" if a.get(p, "").startswith("panic") else "nil-error:" + p
    if a.get(p, "").startswith("panic"):
        if p == "tree" and "negative-int-element" in f: return "tree:panic:negative-int-element"
        return p + ":panic"
    if p == "tree" and "other-type-element" in f: return "tree:other-type-element"
    if p == "pretty" and "other-type-element" in f: return "pretty:other-type-element"
    if p == "fmt":
        for cls in ("reserved-key", "unknown-code", "union-without-branches", "element-without-nested",
                    "element-with-nested", "union-with-branches"):
            if cls in f: return "fmt:" + cls
        return "fmt:other"
    if p == "pretty":
        if "key-needs-escaping" in f: return "pretty:key-needs-escaping"
        if "first-key-needs-brackets" in f: return "pretty:first-key-needs-brackets"
        return "pretty:other"
    return p + ":other"

def describe(op):
    how = C.op_comment(op).strip()
    if how.startswith("nil-error"):
        return "var ze *gozod.ZodError (nil); gozod.FlattenError(ze), TreeifyError(ze), FormatError(ze), PrettifyError(ze)"
    if how.startswith("parse "):
        return "gozod." + how[6:] + " → err; gozod.FlattenError/TreeifyError/FormatError/PrettifyError(err)"
    return "%s: &gozod.ZodError{Issues: <the issue tree of the op line>} (synth-on-real-error: a copy of the error of String().Parse(1) with Issues replaced); then the four formatters" % how

# which reports a modelled Go function feeds (to aim the run when its fingerprint changes)
REACH = {"FlattenErrorWithMapper": "flat", "FlattenError": "flat", "FlattenErrorWithFormatter": "flat",
         "TreeifyErrorWithMapper": "tree", "TreeifyError": "tree", "processIssueInTree": "tree",
         "FormatErrorWithMapper": "fmt", "FormatError": "fmt",
         "PrettifyErrorWithFormatter": "pretty", "PrettifyError": "pretty", "ToDotPath": "pretty", "ZodError.Error": "pretty",
         "needsBracketNotation": "pretty", "isIdentChar": "pretty", "defaultIssueMapper": "flat,tree,fmt,pretty"}
# the entry-point variant of the harness that reaches a function no other variant reaches
NEEDS_ENTRY = {"FlattenErrorWithFormatter": "custom-formatter", "ZodError.Error": "error-method"}

def run(res):
    # --- translator: regenerate Gen/C19Exports.lean (re-exports of gozod.go, thin entry points of errors.go) from the working tree
    ok, out = C.build_harness("C19")
    if not ok:
        C.tie_broken(res, "harness C19 does not build against the library", out[-3000:]); return res.finish()
    env = C.goenv(); env["VERIF_REPO"] = C.REPO
    tmp = os.path.join(C.BUILD, "run", "C19-gen-%d" % os.getpid()); os.makedirs(tmp, exist_ok=True)
    with C.Lock("c19gen"):
        rc, out = C.run([C.harness_bin("C19"), "-out", tmp, "-gen", GEN, "-genpaths", GEN_PATHS], env=env, timeout=900)
    if rc != 0:
        C.tie_broken(res, "translator C19 (gozod.go, internal/issues/errors.go -> Gen/C19Exports.lean; go/types over core, internal/checks, internal/engine, internal/issues, types -> Gen/C19PathTypes.lean)", out[-3000:])
    ok, detail = C.prove(res, MODULES, THEOREMS)
    if not ok:
        C.tie_broken(res, "proof Gozod.Proofs.C19 / C19Dot / C19Go / C19Pretty / C19Exports / C19PathTypes (the last two are over tables regenerated from gozod.go, errors.go and the five packages that build issue paths: an 'unrecognised' path construction breaks c19_path_sinks_recognised)", detail)
    # --- structure fingerprints of the transcribed Go functions: an edited function aims the run (4x the synthesised cases)
    changed = C.fingerprint(res, "C19")
    aimed = set()
    for k, lean_def, kind, detail in changed:
        fn = k.split(":", 1)[1]
        if kind == "missing":
            C.tie_broken(res, "fingerprint " + k, "the Go function %s transcribes is gone or renamed" % lean_def)
        aimed |= set(REACH.get(fn, "flat,tree,fmt,pretty").split(","))
    if changed:
        res.notes.append("modelled Go functions edited since the expectation was recorded: " +
                         "; ".join("%s (%s: %s) transcribed by %s" % (c[0], c[2], c[3], c[1]) for c in changed) +
                         "; run aimed at " + ",".join(sorted(aimed)))
    data, err = C.correspond(res, "C19", extra_args=(["-aim", ",".join(sorted(aimed))] if aimed else []))
    if data is None:
        C.tie_broken(res, "correspondence C19/formatters", err)
        return res.finish()
    # every entry point must be reached by the run (a changed function no case reaches is a broken tie)
    dist = data[3].get("histogram", {})
    for fn, entry in NEEDS_ENTRY.items():
        if not dist.get("entry:" + entry):
            C.tie_broken(res, "coverage C19/" + fn, "no generated case went through the entry-point variant '%s' that reaches %s" % (entry, fn))
    C.decide(res, "C19", data, key, "C19/flatten+treeify+formatError+prettify", describe=describe)
    res.coverage["rule"] = ("corpus of the sighted shapes; synthesised issue lists (0-20 issues, all 17 codes + unknown codes, paths of 0-4 segments "
        "mixing identifier keys, numeric-looking keys, keys with dots/spaces/quotes/non-ASCII, \"_errors\", \"\" and sparse int indices; union issues with 0-3 branches of 0-3 "
        "issues, key/element issues with 0-3 sub-issues, nesting depth <= 3; duplicated and separator-containing messages) wrapped as a struct-literal ZodError "
        "or on a copy of a real error; and errors of real failing Parse calls of generated Object/StrictObject/Slice/Array/Tuple/Union/Record/Map schemas "
        "on generated values. Keys also carry double quotes, backslashes and brackets; a tenth of the lists nests wrapper issues to depth 6; 6 % of the issues are exact repeats; nil Issues. "
        "45 % of the cases are observed through another entry point: err.Error(), FlattenErrorWithFormatter/PrettifyErrorWithFormatter/SetFormatter with a custom formatter or with a formatter that returns \"\" for root and custom issues (blank-formatter: empty messages), "
        "FlattenErrorWithMapper/TreeifyErrorWithMapper with a custom mapper, ...WithFormatter(e, e.Formatter()). distinct = distinct issue trees.")
    res.assumptions += [
        "Issue.msg stands for mapper(issue): for the default mapper the harness asks the library for it (issues without a Message of their own occur in 15 % of the lists), for custom mappers/formatters it computes it itself",
        "READING DECISION (round 4c): 'a non-empty error never formats to an empty report' is read with the hypothesis that no message is the empty string. A message is what the mapper / formatter returns; a user-supplied formatter that returns \"\" for the only issue of an error, filed at the root, makes PrettifyErrorWithFormatter return \"\" (one empty message, faithfully carried; Flatten/Treeify/FormatError carry it as one empty entry). This is the exact region (c19_go_prettify_empty_iff); it is not reachable with the library's own messages (Issue.Message, else DefaultMessageFormatter.FormatMessage, which returns a non-empty text on every arm) — the run checks that unconditionally (dm=1 cases)",
        "a path element that is neither string nor int is represented by its fmt %v text (all four formatters read it through %v only); the position it denotes is the key of that text (reading decision El.pos, notes/C19.md)",
        "a nil *ZodError carries no issue: its reports are those of an error without issues; (*ZodError)(nil).Error() == \"\" is not a report",
        "FormatError replaces wrapper issues (invalid_union with branch errors, invalid_key/invalid_element with sub-issues) by their nested leaves with the wrapper's path as prefix (reading decision, notes/C19.md)",
    ]
    return res.finish()
