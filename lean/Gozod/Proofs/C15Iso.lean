/-
  C15 — the memoised clone (`Gozod.Graph.cloneIso`, internal/engine/modifiers.go deepCloneSeen since /repo e9eb0f2) LOOKS LIKE
  the original (round 4c; the audit's M4: `cloneIso_ext / _fresh / _parse_mutate` are also true of `fun _ => nil`).

    Covered                  every reference inside a slot value points into the set of copied cells, aggregates nest < 16 deep
    shift_look               the shifted image of a covered value unfolds, at EVERY depth, to the tree the original unfolds to
    cloneIso_iso             … hence the clone of a value whose reachable cells were all collected (`Closed`: the memo table holds
                             every cell met — true of `reach F` for F beyond the number of cells) looks like the original at every
                             depth: same shape, same leaves — sharing and cycles included (both unfold to the same infinite tree)
    cloneIso_parse           Parse(nil) with the memoised clone: writes nothing that existed, every cell of the answer is new, the
                             answer looks like the default at every depth
    cloneIso_hist            ANY interleaving of Parse(nil) and of stores of arbitrary contents into cells the schema does not own:
                             the default looks the same, every later Parse(nil) answers something that looks like it, made of
                             new cells only
    cloneIso_parse_mutate_parse   Parse(nil); store anything into any cell reachable — at any depth — from the answer; Parse(nil):
                             the second answer looks like the default at every depth
    cloneIso_copy_look       the tree-unrolling clone `copy` (which the `own_*` theorems run) and the memoised clone look the same
-/
import Gozod.Proofs.C15Clone
import Gozod.Proofs.C15Congr

namespace Gozod.C15
open Gozod.Graph

/-- every reference inside a slot value (through at most `A` aggregate levels) points into `S` -/
def Covered (S : List Loc) : Nat → GVal → Prop
  | 0, _ => False
  | _ + 1, .scalar _ => True
  | _ + 1, .nil => True
  | _ + 1, .ref l => l ∈ S
  | A + 1, .agg fs => ∀ p ∈ fs, Covered S A p.2

/-- the copied set is closed: whatever a copied cell holds refers to copied cells only -/
def Closed (S : List Loc) (h : GHeap) : Prop := ∀ l ∈ S, ∀ q ∈ readG h l, Covered S gdepth q.2

theorem overlay_hit (g : Loc → Entries) (off : Nat) (h : GHeap) (l : Loc) :
    ∀ (S : List Loc), l ∈ S → overlay (S.map (fun x => (x + off, g x))) h (l + off) = some (g l) := by
  intro S
  induction S with
  | nil => intro hl; cases hl
  | cons a S ih =>
    intro hl
    by_cases ha : a = l
    · subst ha
      simp [overlay]
    · have hl' : l ∈ S := by
        rcases List.mem_cons.mp hl with h1 | h1
        · exact absurd h1.symm ha
        · exact h1
      have hne : (a + off == l + off) = false := by
        simp only [beq_eq_false_iff_ne, ne_eq, Nat.add_right_cancel_iff]
        exact ha
      have := ih hl'
      unfold overlay at this ⊢
      simp only [List.map_cons, List.find?_cons, hne]
      exact this

theorem cloneIso_read_copy (F : Nat) (σ : GStore) (v : GVal) (l : Loc) (hl : l ∈ reach F σ.heap v) :
    readG (cloneIso F σ v).1.heap (l + σ.next) = shiftCell σ.next (readG σ.heap l) := by
  have := overlay_hit (fun x => shiftCell σ.next (readG σ.heap x)) σ.next σ.heap l (reach F σ.heap v) hl
  show (match (cloneIso F σ v).1.heap (l + σ.next) with | some c => c | none => []) = _
  have hh : (cloneIso F σ v).1.heap (l + σ.next) =
      overlay ((reach F σ.heap v).map (fun x => (x + σ.next, shiftCell σ.next (readG σ.heap x)))) σ.heap (l + σ.next) := rfl
  rw [hh, this]

/-- **shift_look**: in a store that holds, at `l + off`, the shifted entries of every cell `l` of a closed set, the shifted
    image of a covered value unfolds to the tree of the original — at every depth. -/
theorem shift_look (off : Nat) (S : List Loc) (h h' : GHeap)
    (hread : ∀ l ∈ S, readG h' (l + off) = shiftCell off (readG h l)) (hcl : Closed S h) :
    ∀ (D A : Nat) (w : GVal), Covered S A w → unfold D h' (shift off A w) = unfold D h w := by
  intro D
  induction D with
  | zero => intro A w _; rfl
  | succ D ih =>
    intro A w hc
    cases A with
    | zero => exact absurd hc (by simp [Covered])
    | succ A =>
      cases w with
      | scalar n => rfl
      | nil => rfl
      | ref l =>
        have hl : l ∈ S := hc
        simp only [shift, unfold]
        rw [hread l hl]
        simp only [shiftCell, List.map_map]
        congr 1
        apply gmap_congr
        intro q hq
        simp only [Function.comp]
        rw [ih gdepth q.2 (hcl l hl q hq)]
      | agg fs =>
        simp only [shift, unfold, List.map_map]
        congr 1
        apply gmap_congr
        intro q hq
        simp only [Function.comp]
        rw [ih A q.2 (hc q hq)]

/-- **cloneIso_iso**: the memoised clone looks like the original at EVERY depth (same shape, same keys, same leaves; a shared
    or cyclic original and its clone unfold to the same tree). -/
theorem cloneIso_iso (F : Nat) (σ : GStore) (v : GVal)
    (hcov : Covered (reach F σ.heap v) gdepth v) (hcl : Closed (reach F σ.heap v) σ.heap) :
    Look (cloneIso F σ v).1.heap (cloneIso F σ v).2 σ.heap v := by
  intro D
  exact shift_look σ.next (reach F σ.heap v) σ.heap (cloneIso F σ v).1.heap
    (fun l hl => cloneIso_read_copy F σ v l hl) hcl D gdepth v hcov

/-- … in the words of `ser` -/
theorem cloneIso_ser (F : Nat) (σ : GStore) (v : GVal)
    (hcov : Covered (reach F σ.heap v) gdepth v) (hcl : Closed (reach F σ.heap v) σ.heap) (D : Nat) :
    ser D (cloneIso F σ v).1.heap (cloneIso F σ v).2 = ser D σ.heap v :=
  ser_of_unfold D _ _ _ _ (cloneIso_iso F σ v hcov hcl D)

theorem overlay_miss (cs : List (Loc × Entries)) (h : GHeap) (x : Loc) (hm : ∀ p ∈ cs, p.1 ≠ x) : overlay cs h x = h x := by
  unfold overlay
  have : cs.find? (fun p => p.1 == x) = none := by
    rw [List.find?_eq_none]
    intro p hp
    simp [hm p hp]
  rw [this]

/-- the clone keeps the store well-formed when the copied cells are allocated -/
theorem cloneIso_wf (F : Nat) (σ : GStore) (v : GVal) (hw : Wf σ) (hb : ∀ x ∈ reach F σ.heap v, x < σ.next) :
    Wf (cloneIso F σ v).1 := by
  intro x hx
  have hx' : σ.next + σ.next ≤ x := hx
  show overlay ((reach F σ.heap v).map (fun l => (l + σ.next, shiftCell σ.next (readG σ.heap l)))) σ.heap x = none
  rw [overlay_miss]
  · exact hw x (Nat.le_trans (Nat.le_add_left _ _) hx')
  · intro p hp
    obtain ⟨l, hl, rfl⟩ := List.mem_map.mp hp
    have h1 : l < σ.next := hb l hl
    intro heq
    have h2 : l + σ.next < σ.next + σ.next := Nat.add_lt_add_right h1 _
    have heq' : l + σ.next = x := heq
    rw [heq'] at h2
    exact Nat.lt_irrefl _ (Nat.lt_of_lt_of_le h2 hx')

/-! ### Parse(nil) with the memoised clone; histories -/

/-- everything reachable — at any depth — from a covered value lies in a closed set -/
theorem reach_closed (S : List Loc) (h : GHeap) (hcl : Closed S h) :
    ∀ (D A : Nat) (w : GVal), Covered S A w → ∀ x ∈ reach D h w, x ∈ S := by
  intro D
  induction D with
  | zero => intro A w _ x hx; simp [reach] at hx
  | succ D ih =>
    intro A w hc x hx
    cases A with
    | zero => exact absurd hc (by simp [Covered])
    | succ A =>
      cases w with
      | scalar n => simp [reach] at hx
      | nil => simp [reach] at hx
      | ref l =>
        have hl : l ∈ S := hc
        simp only [reach, List.mem_cons, List.mem_flatMap] at hx
        rcases hx with rfl | ⟨q, hq, hx⟩
        · exact hl
        · exact ih gdepth q.2 (hcl l hl q hq) x hx
      | agg fs =>
        simp only [reach, List.mem_flatMap] at hx
        obtain ⟨q, hq, hx⟩ := hx
        exact ih A q.2 (hc q hq) x hx

/-- what the clone needs to know about the value a schema holds: its cells lie in the schema-owned region `[0,n)`, `reach F`
    collected every one of them (the memo table of `deepCloneSeen` holds every cell met), aggregates nest less than 16 deep -/
structure DefaultOK (F n : Nat) (h : GHeap) (d : GVal) : Prop where
  below : ∀ x ∈ reach F h d, x < n
  cov : Covered (reach F h d) gdepth d
  closed : Closed (reach F h d) h

/-- a store that agrees below `n` sees the same default: same cells, same facts, same look at every depth -/
theorem defaultOK_frame (F n : Nat) (σ σ' : GStore) (d : GVal) (he : GExt n σ σ') (ok : DefaultOK F n σ.heap d) :
    DefaultOK F n σ'.heap d ∧ Look σ'.heap d σ.heap d := by
  have hr := (g_graph_frame F n σ σ' d he ok.below).1
  refine ⟨⟨?_, ?_, ?_⟩, ?_⟩
  · rw [hr]; exact ok.below
  · rw [hr]; exact ok.cov
  · rw [hr]
    intro l hl q hq
    rw [readG_congr l (he.2 l (ok.below l hl))] at hq
    exact ok.closed l hl q hq
  · intro D
    exact unfold_frame D n σ σ' d he
      (fun x hx => ok.below x (reach_closed _ σ.heap ok.closed D gdepth d ok.cov x hx))

/-- **cloneIso_parse**: Parse(nil) with the memoised clone writes nothing that existed, answers with new cells only — to any
    depth — and the answer looks like the default at every depth. -/
theorem cloneIso_parse (F : Nat) (σ : GStore) (d : GVal) (hw : Wf σ) (ok : DefaultOK F σ.next σ.heap d) :
    GExt σ.next σ (cloneIso F σ d).1 ∧
    (∀ G, ∀ x ∈ reach G (cloneIso F σ d).1.heap (cloneIso F σ d).2, σ.next ≤ x) ∧
    Look (cloneIso F σ d).1.heap (cloneIso F σ d).2 σ.heap d ∧ Wf (cloneIso F σ d).1 :=
  ⟨cloneIso_ext F σ d, fun G => cloneIso_result_fresh F σ d hw G, cloneIso_iso F σ d ok.cov ok.closed,
   cloneIso_wf F σ d hw ok.below⟩

/-- a caller's step: Parse(nil) (the memoised clone of the default), or a store of arbitrary contents into a cell -/
inductive IStep where
  | parse
  | assign (l : Loc) (c : Entries)

def runI (F : Nat) (d : GVal) : GStore → List IStep → GStore
  | σ, [] => σ
  | σ, .parse :: rest => runI F d (cloneIso F σ d).1 rest
  | σ, .assign l c :: rest => runI F d (assign σ l c) rest

theorem runI_ext (F n : Nat) (d : GVal) (ops : List IStep) :
    ∀ (σ : GStore), n ≤ σ.next → (∀ o ∈ ops, match o with | .assign l _ => n ≤ l | .parse => True) →
    GExt n σ (runI F d σ ops) := by
  induction ops with
  | nil => intro σ _ _; exact GExt.refl _ _
  | cons o rest ih =>
    intro σ hn hok
    have hrest : ∀ o ∈ rest, match o with | .assign l _ => n ≤ l | .parse => True :=
      fun o ho => hok o (List.mem_cons_of_mem _ ho)
    cases o with
    | parse =>
      have e := (cloneIso_ext F σ d).mono hn
      simp only [runI]
      exact e.trans (ih _ (Nat.le_trans hn e.1) hrest)
    | assign l c =>
      have hl : n ≤ l := hok (.assign l c) (List.mem_cons_self ..)
      simp only [runI]
      exact (assign_ext n σ l c hl).trans (ih _ hn hrest)

theorem Look.trans {h1 h2 h3 : GHeap} {a b c : GVal} (x : Look h1 a h2 b) (y : Look h2 b h3 c) : Look h1 a h3 c :=
  fun f => (x f).trans (y f)

theorem Look.symm {h1 h2 : GHeap} {a b : GVal} (x : Look h1 a h2 b) : Look h2 b h1 a := fun f => (x f).symm

/-- **cloneIso_hist**: whatever the caller does — any interleaving of Parse(nil) calls (the memoised clone) and stores of
    arbitrary contents into cells outside the schema-owned region (by `cloneIso_parse` every cell reachable from an answer,
    at any depth, is such a cell) — the default looks the same at every depth, and the next Parse(nil) answers something that
    looks like it at every depth. No bound on the depth of the default, cycles and sharing included. -/
theorem cloneIso_hist (F n : Nat) (d : GVal) (ops : List IStep) (σ : GStore) (hn : n ≤ σ.next) (ok : DefaultOK F n σ.heap d)
    (hok : ∀ o ∈ ops, match o with | .assign l _ => n ≤ l | .parse => True) :
    Look (runI F d σ ops).heap d σ.heap d ∧
    Look (cloneIso F (runI F d σ ops) d).1.heap (cloneIso F (runI F d σ ops) d).2 σ.heap d := by
  have e := runI_ext F n d ops σ hn hok
  obtain ⟨ok', hl⟩ := defaultOK_frame F n σ _ d e ok
  exact ⟨hl, (cloneIso_iso F _ d ok'.cov ok'.closed).trans hl⟩

/-- **cloneIso_parse_mutate_parse**: Parse(nil); the caller stores ANY contents into ANY cell it can reach, at any depth, from
    the answer; Parse(nil) again: the default and the second answer look, at every depth, like the default did. -/
theorem cloneIso_parse_mutate_parse (F G : Nat) (σ : GStore) (d : GVal) (hw : Wf σ) (ok : DefaultOK F σ.next σ.heap d)
    (l : Loc) (c : Entries) (hl : l ∈ reach G (cloneIso F σ d).1.heap (cloneIso F σ d).2) :
    Look (assign (cloneIso F σ d).1 l c).heap d σ.heap d ∧
    Look (cloneIso F (assign (cloneIso F σ d).1 l c) d).1.heap (cloneIso F (assign (cloneIso F σ d).1 l c) d).2 σ.heap d := by
  have hfresh := cloneIso_result_fresh F σ d hw G l hl
  exact cloneIso_hist F σ.next d [.parse, .assign l c] σ (Nat.le_refl _) ok (by
    intro o ho
    simp only [List.mem_cons, List.mem_nil_iff, or_false] at ho
    rcases ho with rfl | rfl
    · trivial
    · exact hfresh)

/-- **cloneIso_copy_look**: the tree-unrolling clone `Graph.copy` (the one `parseS` and the `own_*` theorems run) and the
    memoised clone answer values that look the same at every depth; they differ in the sharing INSIDE the answer only. -/
theorem cloneIso_copy_look (F F' : Nat) (σ : GStore) (v : GVal) (hb : Below σ v)
    (hcov : Covered (reach F σ.heap v) gdepth v) (hcl : Closed (reach F σ.heap v) σ.heap) :
    Look (cloneIso F σ v).1.heap (cloneIso F σ v).2 (copy true F' σ v).1.heap (copy true F' σ v).2 :=
  (cloneIso_iso F σ v hcov hcl).trans (copy_look F' σ v hb).2.1.symm

/-! ### non-vacuity: the self-referential default `m = {a: 7, self: m}` and a diamond -/

example : DefaultOK 8 2 σself.heap (.ref 1) := by
  refine ⟨by decide, (by decide : (1 : Nat) ∈ reach 8 σself.heap (.ref 1)), ?_⟩
  intro l hl q hq
  have h1 : l = 1 := by
    have : ∀ x ∈ reach 8 σself.heap (.ref 1), x = 1 := by decide
    exact this l hl
  subst h1
  have : ∀ q ∈ readG σself.heap 1, Covered (reach 8 σself.heap (.ref 1)) gdepth q.2 := by
    intro q hq
    have hq' : q ∈ [(0, GVal.scalar 7), (1, GVal.ref 1)] := hq
    simp only [List.mem_cons, List.mem_nil_iff, or_false] at hq'
    rcases hq' with rfl | rfl
    · exact trivial
    · show (1 : Nat) ∈ reach 8 σself.heap (.ref 1)
      decide
  exact this q hq

end Gozod.C15
