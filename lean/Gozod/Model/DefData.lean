/-
  Definition-held reference data and the converter's reads of it (C12, round 4).

  Besides `core.ZodTypeInternals` a schema's DEFINITION holds reference-typed data: `ZodLiteralDef.Values []T` (with
  `T = any` every member may itself be a slice), the entry map of an enum, the option / item lists of unions and tuples,
  the shape map of an object.  One `Def` pointer is shared by a schema and everything derived from it (Optional, Nilable,
  Describe, Refine, Default … copy the pointer), so the data is ONE cell of the store for the whole family.  It is a Go
  value graph: modelled with the `node` cells and `UVal`s of `Model/Store.lean` (a slice is a node keyed by index).

  Mirrors jsonschema/to.go `convertLiteral` (and the member loop of `convertEnum`):

    access     `reflect.ValueOf(schema).MethodByName("Values").Call(nil)` — what the accessor hands out: the
               definition's own slice (`ZodLiteral.Values`, `ZodTuple.Items`, `ZodStruct.Shape`) or a copy
               (`ZodEnum.Options`, `ZodObject.Shape`, `ZodUnion.Options`, …).  Which one is a fact about types/*.go that
               the harness decides behaviourally (storex.AccessorAliases) and `Gen/ConvAccess.lean` tabulates.
    box        `values = make([]any, n); values[i] = sliceValue.Index(i).Interface()` — a private list of the same members
    flatten    `if len(values) == 1 && values[0] is a slice/array { flat := make([]any, rv.Len()); … }`
    members    what the document's `enum` / `const` shows: the private list, serialised

  `convLiteralInPlace` is NOT the code: it is the shape the purity theorem excludes (a boxing fast path that returns a
  `[]any` as it is, followed by an in-place `slices.DeleteFunc`), kept for the witness in `Proofs/C12Def.lean`.
-/
import Gozod.Model.Store

namespace Gozod.DefData
open Gozod.Store

/-- what an accessor method hands out -/
inductive Acc
  | alias     -- the definition's own slice / map
  | copy      -- a fresh slice / map holding the same members
deriving DecidableEq, Repr

/-- `make` + element-wise copy: a fresh cell holding the same entries (members that are references stay shared) -/
def shallow (σ : Store) (l : Loc) : Store × Loc := alloc σ (.node (readNode σ.heap l))

def access : Acc → Store → Loc → Store × Loc
  | .alias, σ, l => (σ, l)
  | .copy, σ, l => shallow σ l

/-- the reflective boxing loop -/
def box (σ : Store) (l : Loc) : Store × Loc := shallow σ l

/-- a single member that is itself a slice/array is replaced by a private list of its elements -/
def flatten (σ : Store) (l : Loc) : Store × Loc :=
  match readNode σ.heap l with
  | [(_, .ref m)] => shallow σ m
  | _ => (σ, l)

/-- `convertLiteral`'s reading of the definition at `l`: the store afterwards and the private member list. -/
def convLiteral (a : Acc) (σ : Store) (l : Loc) : Store × Loc :=
  let r1 := access a σ l
  let r2 := box r1.1 r1.2
  flatten r2.1 r2.2

/-- the members the document shows -/
def members (r : Store × Loc) : List Nat := ser depth r.1.heap (.ref r.2)

/-- The small spec: what the document must show as a function of the definition alone (no store effect). -/
def membersSpec (h : Loc → Option Cell) (l : Loc) : List Nat :=
  match readNode h l with
  | [(_, .ref m)] => ser depth h (.ref m)
  | _ => ser depth h (.ref l)

/-- conversions of several schemas of a family, one after the other -/
def convAll (σ : Store) : List (Acc × Loc) → Store
  | [] => σ
  | (a, l) :: rest => convAll (convLiteral a σ l).1 rest

/-! ### the excluded shape -/

/-- first occurrences of the member values, in order -/
def dedupVals : List UVal → List UVal → List UVal
  | _, [] => []
  | seen, v :: vs => if seen.contains v then dedupVals seen vs else v :: dedupVals (v :: seen) vs

def reindex (vs : List UVal) : List (Nat × UVal) := (List.range vs.length).zip vs

/-- `slices.DeleteFunc(values, duplicate)` on the backing array of `l`: kept members compacted to the front, the tail
    zeroed (`nil`); returns the number of members kept (the new length of `values`). -/
def deleteDupsInPlace (σ : Store) (l : Loc) : Store × Nat :=
  let vs := (readNode σ.heap l).map (·.2)
  let ks := dedupVals [] vs
  (write σ l (.node (reindex (ks ++ List.replicate (vs.length - ks.length) (.scalar 0)))), ks.length)

/-- boxing with the fast path ("a value that already is a []any needs no boxing"), flattening with the same helper,
    then the in-place de-duplication: every step hands on the definition's own memory when it is `[]any`-typed. -/
def convLiteralInPlace (σ : Store) (l : Loc) : Store × Loc × Nat :=
  let tgt := match readNode σ.heap l with
    | [(_, .ref m)] => m
    | _ => l
  let r := deleteDupsInPlace σ tgt
  (r.1, tgt, r.2)

/-! ### building a definition from its code, rendering members (driver) -/

/-- slice of the given members: a node keyed by index -/
def mkSlice (σ : Store) (vs : List UVal) : Store × UVal :=
  let r := alloc σ (.node (reindex vs)); (r.1, .ref r.2)

structure PState where
  σ : Store
  stack : List (List UVal)     -- open brackets, innermost first; members in reverse
  num : Option Nat
  out : Option UVal

def pushVal (st : PState) (v : UVal) : PState :=
  match st.stack with
  | [] => { st with out := some v }
  | top :: rest => { st with stack := (v :: top) :: rest }

def flushNum (st : PState) : PState :=
  match st.num with
  | some n => pushVal { st with num := none } (.scalar n)
  | none => st

def pstep (st : PState) (c : Char) : PState :=
  if c.isDigit then { st with num := some (st.num.getD 0 * 10 + (c.toNat - '0'.toNat)) }
  else if c = '[' then { st with stack := [] :: st.stack }
  else if c = ',' then flushNum st
  else if c = ']' then
    let st := flushNum st
    match st.stack with
    | [] => st
    | top :: rest =>
      let r := mkSlice st.σ top.reverse
      pushVal { st with σ := r.1, stack := rest } r.2
  else st

/-- `[1,[2,3],1]` ↦ a value graph allocated in `σ` -/
def parseGraph (σ : Store) (s : String) : Store × Option UVal :=
  let st := flushNum (s.toList.foldl pstep { σ := σ, stack := [], num := none, out := none })
  (st.σ, st.out)

def showGraph : Nat → (Loc → Option Cell) → UVal → String
  | 0, _, _ => "…"
  | _ + 1, _, .scalar n => toString n
  | f + 1, h, .ref l => "[" ++ ",".intercalate ((readNode h l).map (fun p => showGraph f h p.2)) ++ "]"

end Gozod.DefData
