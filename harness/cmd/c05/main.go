package main

// C05 — every issue's path addresses the offending location inside the input.
//
// The C02 nestings (object, struct, slice, array, tuple, map, record, set, union, intersection, …
// to depth ≤ 4 quick / ≤ 6 thorough) with PLANTED SINGLE FAULTS: a valid instance is synthesised
// and checked to be accepted, then one location (at any depth) is replaced by a value its own
// sub-schema rejects.  Observation:
//     ok | err <set of issue paths> r=<every path resolves in the input, or reaches the parent of a
//     missing key> p=<every path is the planted location, a prefix of it, or a location inside the planted value>
// r and p are computed here, on the implementation's own output.  The Lean driver evaluates the
// model of the container code on the members' recorded answers (expected to equal the observation)
// and the ideal, complete paths (member location ++ member's own path); vlib/c05.py requires the
// reported paths to be among the ideal ones.

import (
	"fmt"
	"os"
	"strconv"
	"strings"

	"verifharness/cx"
	"verifharness/hx"
)

func main() {
	c := hx.ParseFlags()
	if err := run(c); err != nil {
		fmt.Fprintln(os.Stderr, "harness error:", err)
		os.Exit(3)
	}
}

var kinds = []string{"object", "struct", "slice", "array", "tuple", "map", "record", "set", "union", "inter", "du", "lazy", "xor"}

// comparable: a is a prefix of b or b a prefix of a (the issue is at the fault, above it, or inside
// the value planted there).
func isPrefix(a, b []string) bool {
	if len(a) > len(b) {
		a, b = b, a
	}
	for i := range a {
		if a[i] != b[i] {
			return false
		}
	}
	return true
}

func run(c hx.Config) error {
	o, err := hx.NewOut(c.OutDir)
	if err != nil {
		return err
	}
	r := hx.NewRng(c.Seed)
	cfg := cx.Probe()
	perKind, maxDepth := 60, 4
	if c.Thorough() {
		perKind, maxDepth = 500, 6
	}
	emit := func(s *cx.Sch, in any, loc []any, how string) {
		cs := cx.Build(cfg, s, in)
		if cs.Nondet {
			o.Count("skipped:member-answers-differ-between-calls")
			return
		}
		fault := "-"
		var locSegs []string
		if loc != nil {
			locSegs, _ = cx.WalkPath(in, loc)
			fault = strconv.Itoa(len(locSegs))
			if len(locSegs) > 0 {
				fault += " " + strings.Join(locSegs, " ")
			}
		}
		ob := cx.Observe(s, in)
		var impl string
		switch {
		case ob.Panic != "":
			impl = "panic:" + cx.PanicClass(ob.Panic)
		case ob.OK:
			impl = "ok"
		case ob.NonZod != "":
			impl = "err-not-a-ZodError:" + ob.NonZod
		default:
			var ps []string
			res, pre := true, true
			for _, is := range ob.Issues {
				segs, ok := cx.WalkPath(in, is.Path)
				ps = append(ps, cx.PathStr(segs))
				res = res && ok
				if loc != nil {
					pre = pre && isPrefix(segs, locSegs)
				}
			}
			impl = fmt.Sprintf("err %s r=%s p=%s", cx.PathSet(ps), hx.B01(res), hx.B01(pre))
		}
		o.Emit("c05 "+cs.Body+" "+fault+" # "+s.Kind+" "+how+" "+cx.Repro(s, in), impl)
		o.Count(s.Kind + ":" + how + ":" + strings.SplitN(impl, " ", 2)[0])
	}
	for _, kind := range kinds {
		for i := range perKind {
			depth := 1 + i%maxDepth
			s := cx.GenKind(r, depth, kind)
			for range 3 {
				v := s.Valid(r)
				if ob := cx.Observe(s, v); !ob.OK {
					o.Count(kind + ":synthesised-instance-not-accepted")
					continue
				}
				emit(s, v, nil, "valid")
				for range 6 {
					nv, loc, ok := s.Corrupt(r, v, "", depth)
					if !ok {
						o.Count(kind + ":no-corruption-available")
						continue
					}
					emit(s, nv, loc, "fault@"+strconv.Itoa(len(loc)))
				}
			}
		}
	}
	return o.Close(map[string]any{"cfg": cfg.Tok()})
}
