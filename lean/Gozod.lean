-- Root of the `Gozod` library: every model, proof and driver-handler module.
-- (Generated files under Gozod/Gen are imported by the proof modules that use them.)
import Gozod.Model.Num
import Gozod.Proofs.C16
import Gozod.Drv.Loop
import Gozod.Drv.C16
