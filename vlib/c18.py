"""C18 — issue messages come from the most specific configured source, for every kind."""
import json, os, shutil, collections
from . import common as C

MANIFEST = dict(
   technique="Lean 4 proof of the FinalizeIssue priority chain for arbitrary error maps + translator: the wiring of every issue site (which message sources reach FinalizeIssue) and the locale x issue-kind table are regenerated from the real code on every run by sentinel error maps (Gen/MsgWiring.lean, Gen/LocaleTable.lean), decided in Lean over the regenerated tables, and every one of the 2^k source subsets of every site is compared with the model's prediction",
   text="finalize_priority proves, for arbitrary error-map functions, that FinalizeIssue's message is the first non-empty of check message, schema message, per-parse map, global custom map, locale, built-in text. c18_wired_partial (decide over the regenerated wiring of 54 issue leaves x 8 nesting wrappers) and c18_all_sites_partial lift it to: at every site and for every configuration outside the listed gaps the message comes from the first configured source; c18_locales: every bundled locale returns a non-empty message for every issue kind of the regenerated catalogue, which covers the required kinds (c18_locales_cover). The gaps (site x missing source) are open known findings with witness theorems.",
   note="Trusted: Lean kernel; axioms propext/Classical.choice/Quot.sound only; the Go harness (site catalogue, sentinel maps), the generator of the Gen tables and the comparer. Sites are a finite catalogue (54 leaves x 8 wrappers, 2^k configurations each), not all schemas; a source is identified by a constant sentinel message. Locale non-emptiness is checked on one representative raw issue per kind.",
   design="DESIGN.md §5 C18; notes/C18.md")

MODULES = ["Gozod.Proofs.C18"]
THEOREMS = ["Gozod.C18." + t for t in [
    "finalize_priority", "finalize_check_first", "finalize_default_last", "finalize_silent_parse", "finalize_silent_custom", "site_winner",
    "c18_wired_partial", "c18_all_sites_partial", "c18_wired_full_false", "gap_breaks_priority",
    "c18_base_nonempty", "c18_locales", "c18_locales_cover",
    "setconfig_history", "setconfig_keeps_locale", "setconfig_keeps_custom", "crossed_setconfig_breaks_history",
]]

GEN = os.path.join(C.LEAN, "Gozod", "Gen")
PRI = "cspgl"

def write_if_changed(path, content):
    os.makedirs(os.path.dirname(path), exist_ok=True)
    old = open(path).read() if os.path.exists(path) else None
    if old != content:
        with open(path, "w") as f: f.write(content)
        return True
    return False

def lean_str(s):
    return '"' + s.replace("\\", "\\\\").replace('"', '\\"') + '"'

def srcset(letters):
    return "⟨" + ", ".join("true" if ch in letters else "false" for ch in PRI) + "⟩"

def read_wiring(path):
    """wiring.txt rows → ordered {site: {leaf, wrapper, kind, raiser, appl, cells{mask: winner}}}"""
    sites = collections.OrderedDict()
    for line in open(path):
        line = line.rstrip("\n")
        if not line: continue
        site, kind, raiser, wrapper, appl, mask, win = line.split("\t")
        d = sites.setdefault(site, dict(leaf=site.split("@")[0], wrapper=wrapper, kind=kind, raiser=raiser,
                                        appl="" if appl == "-" else appl, cells={}))
        if mask.startswith("!"):      # cell {c,x} configured as functions with the check's function answering ""
            d.setdefault("silentc", {})[mask[1:].replace("c", "")] = win
            continue
        d["cells"]["" if mask == "-" else mask] = win
    for d in sites.values():
        # a source is passed by the site iff, configured alone, its sentinel wins
        d["passes"] = "".join(ch for ch in d["appl"] if d["cells"].get(ch) == ch)
        # what reaches FinalizeIssue when the check has a message function that declines the issue
        sc = d.get("silentc", {})
        d["passes2"] = "".join(ch for ch in d["appl"] if ch != "c" and sc.get(ch) == ch) if sc else d["passes"].replace("c", "")
        d["base"] = d["cells"].get("", "n")
        d["missing"] = "".join(ch for ch in d["appl"] if ch not in d["passes"])
    return sites

def gen_wiring(sites):
    out = ["-- GENERATED on every run by vlib/c18.py from the behaviour of the library under sentinel error maps",
           "-- (harness/cmd/c18).  Do not edit.  One entry per issue site: leaf, wrapper, kind, applicable sources,",
           "-- sources that reach FinalizeIssue (a source passes iff, configured alone, its sentinel is the message), base,",
           "-- and the sources that reach it when the check carries a message function that answers \"\" (passesSilentCheck).",
           "import Gozod.Model.Msg", "namespace Gozod.Gen", "open Gozod.Msg", "", "def sites : List Site := ["]
    rows = []
    for d in sites.values():
        if ">" in d["wrapper"]: continue   # two-level sites (thorough tier) are predicted from the inner wrapper's entry
        rows.append("  ⟨%s, %s, %s, %s, %s, %s, %s⟩" % (lean_str(d["leaf"]), lean_str(d["wrapper"]), lean_str(d["kind"]),
                                                       srcset(d["appl"]), srcset(d["passes"]), lean_str(d["base"]), srcset(d["passes2"])))
    out.append(",\n".join(rows))
    out += ["]", "", "end Gozod.Gen", ""]
    return "\n".join(out)

def read_locales(path):
    table = collections.OrderedDict()
    for line in open(path):
        line = line.rstrip("\n")
        if not line: continue
        loc, kind, ok = line.split("\t")
        table.setdefault(loc, []).append((kind, ok == "1"))
    return table

def gen_locales(table):
    out = ["-- GENERATED on every run by vlib/c18.py: for every bundled locale (locales.DefaultLocales) and every issue kind",
           "-- of the catalogue (kinds raised by the site catalogue + every format / origin the locales name + every bare code),",
           "-- whether the locale's formatter returned a non-empty message.  Do not edit.",
           "namespace Gozod.Gen", "", "def localeTable : List (String × List (String × Bool)) := ["]
    rows = []
    for loc, cells in table.items():
        rows.append("  (%s, [%s])" % (lean_str(loc), ", ".join("(%s, %s)" % (lean_str(k), "true" if ok else "false") for k, ok in cells)))
    out.append(",\n".join(rows))
    out += ["]", "", "end Gozod.Gen", ""]
    return "\n".join(out)

SITES = {}

def key(op, impl, M, S):
    t = C.op_body(op).split(" ")
    if t[1] == "loc":
        return "locale:%s:%s:empty-message" % (t[2], t[3])
    site = t[2]
    d = SITES.get(site, {})
    if ">" in site:   # outer>inner: the model's entry is the inner wrapper's
        d = SITES.get(site.split("@")[0] + "@" + site.split(">")[-1], d)
    if t[1] == "hist" and impl != M:
        # the stored global configuration is not what the history of SetConfig calls denotes
        return "hist:%s:model-differs" % d.get("leaf", site)
    if t[1] == "silent" and impl != M:
        # message functions / a source answering "": the implementation leaves the priority chain the model proves
        return "silent:%s:model-differs" % d.get("leaf", site)
    if impl in ("panic", "n"):
        return "wire:%s:%s" % (site, {"panic": "panic", "n": "issue-not-reported"}[impl])
    k = "wire:%s:missing-%s" % (d.get("leaf", site), d.get("missing", "?") or "none")
    return k if impl == M else k + ":model-differs"

def describe(op):
    t = C.op_body(op).split(" ")
    if t[1] in ("loc", "hist"):
        return C.op_comment(op).strip()
    return ("%s; configured sources %s of applicable %s (c = check message \"CHK\", s = schema message \"SCH\", p = ParseContext{Error: →\"CTX\"}, "
            "g = SetConfig(CustomError: →\"CUS\"), l = SetConfig(LocaleError: →\"LOC\")); observed = which sentinel is ZodIssue.Message (d = built-in text)"
            % (C.op_comment(op).strip(), t[6], t[5]))

def run(res):
    global SITES
    # 1. behavioural extraction from the real code
    ok, out = C.build_harness("C18")
    if not ok:
        C.tie_broken(res, "translator C18/harness", "harness does not build against the current tree:\n" + out[-4000:])
        return res.finish()
    rundir = os.path.join(C.BUILD, "run", "C18-%s-%d" % (res.tier, os.getpid()))
    shutil.rmtree(rundir, ignore_errors=True); os.makedirs(rundir)
    rc, out = C.run([C.harness_bin("C18"), "-seed", str(res.seed), "-tier", res.tier, "-out", rundir], env=C.goenv(), timeout=3600)
    if rc != 0:
        C.tie_broken(res, "translator C18/harness", "harness failed (rc=%d):\n%s" % (rc, out[-4000:]))
        return res.finish()
    SITES = read_wiring(os.path.join(rundir, "wiring.txt"))
    loc = read_locales(os.path.join(rundir, "locales.txt"))
    if len(SITES) < 300 or len(loc) < 30:
        C.tie_broken(res, "translator C18/tables", "the extraction found only %d sites / %d locales" % (len(SITES), len(loc)))
        return res.finish()
    ch1 = write_if_changed(os.path.join(GEN, "MsgWiring.lean"), gen_wiring(SITES))
    ch2 = write_if_changed(os.path.join(GEN, "LocaleTable.lean"), gen_locales(loc))
    res.notes.append("Gen/MsgWiring.lean %s, Gen/LocaleTable.lean %s" % ("rewritten" if ch1 else "unchanged", "rewritten" if ch2 else "unchanged"))

    # 2. the driver (model + regenerated tables) decides every cell; failing cells carry their concrete input
    okd, outd = C.lake_build(["driver_c18"])
    if not okd:
        C.tie_broken(res, "translator C18/Gen tables do not compile", outd[-4000:])
        return res.finish()
    with open(os.path.join(rundir, "ops.txt")) as fin, open(os.path.join(rundir, "model.txt"), "w") as fout:
        rc, _ = C.run([C.driver_bin("C18")], stdin=fin, stdout=fout, timeout=3600)
    rd = lambda n: [l for l in open(os.path.join(rundir, n)).read().split("\n")]
    ops, impl, model = rd("ops.txt"), rd("impl.txt"), rd("model.txt")
    for l in (ops, impl, model):
        if l and l[-1] == "": l.pop()
    stats = json.load(open(os.path.join(rundir, "stats.json")))
    shutil.rmtree(rundir, ignore_errors=True)
    if rc != 0 or not (len(ops) == len(impl) == len(model)):
        C.tie_broken(res, "correspondence C18/cells", "driver rc=%d, streams %d/%d/%d" % (rc, len(ops), len(impl), len(model)))
        return res.finish()
    C.decide(res, "C18", (ops, impl, model, stats), key, "C18/site wiring + locale table", describe=describe)

    # 3. the theorems over the regenerated tables
    ok, detail = C.prove(res, MODULES, THEOREMS)
    if not ok and not res.violations:
        C.tie_broken(res, "proof Gozod.Proofs.C18 over the regenerated tables", detail)
    res.coverage.setdefault("trusted_base", list(C.TRUSTED_BASE))
    res.coverage["trusted_base"] = res.coverage["trusted_base"] + [
        "translator: harness/cmd/c18 (site catalogue, sentinel error maps) + vlib/c18.py (Gen/MsgWiring.lean, Gen/LocaleTable.lean writer)"]
    res.coverage["sites"] = len(SITES)
    res.coverage["gaps"] = {s: d["missing"] for s, d in SITES.items() if d["missing"] and d["wrapper"] == "top"}
    res.coverage["rule"] = ("54 issue leaves (invalid_type per raising schema, too_small/too_big per origin, invalid_format per format, not_multiple_of, "
        "unrecognized_keys, invalid_union, invalid_value, key/element, custom) x 8 wrappers (top, object field, slice element, array item, tuple item, "
        "record value, map value, object in slice) x every subset of the applicable sources (up to 32) with constant sentinel maps; "
        "every bundled locale x every issue kind of the catalogue. distinct = distinct cells.")
    res.assumptions += [
        "a message source is identified by a constant sentinel string; maps that inspect the issue are covered by finalize_priority (arbitrary maps) only",
        "a site passes a source iff that source, configured alone, determines the message; all other subsets are then predicted by the model and compared",
        "the global configuration is process-wide: the harness runs cells sequentially",
    ]
    return res.finish()
