/-
  Line handler for C02: `c02 CFG NODE V TABLE` → "<model verdict>\t<spec verdict>\t<reason>"
  (verdict = ok | err; reason = failure-class hint used when the two differ).
-/
import Gozod.Model.Containers
import Gozod.Model.ContainersSpec
import Gozod.Drv.ContParse
namespace Gozod.Drv.C02
open Gozod.Cont Gozod.Drv.ContParse

def verdict (b : Bool) : String := if b then "ok" else "err"

def handle (ts : List String) : String :=
  match parseCase ts with
  | none => "bad-op"
  | some c =>
    let m := (run c.cfg c.env c.node c.input).isOk
    let s := Spec.accepts c.env c.node c.input
    s!"{verdict m}\t{verdict s}\t{Spec.reason c.env c.node c.input}"

end Gozod.Drv.C02
