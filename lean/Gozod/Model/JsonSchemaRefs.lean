/-
  C07 — the reference bookkeeping of jsonschema/to.go: which `$ref`s a conversion emits and which `$defs` entries it
  creates.  Core-only.

  The schema is a GRAPH of live instances (cycles close through Lazy closures), so the model works on a node table and
  on exactly the state `converter` keeps for references:
    seen   map[core.ZodSchema]*lib.Schema   — here: the list of instances met (`convert` never removes one)
    counts map[core.ZodSchema]int           — visits per unwrapped instance (`unwrapSchema`)
    refs   map[core.ZodSchema]string        — unwrapped instance ↦ automatic `$defs` name (`def<auto>`)
    defs   map[string]*lib.Schema           — here: its key set (entries are overwritten, never deleted)
    auto   int
  and records every `$ref` written into the document or into a `$defs` entry (`out`).  What the nodes look like as JSON
  Schema is irrelevant to whether the references resolve; `toJSONSchemaSingle` attaches all of `c.defs` to the root.

  Transcribed: `(*converter).convert` (count, the `seen` hit with Cycles:"throw" / Reused:"ref", the placeholder, the
  registration of composite schemas under Reused:"ref", ID hoisting, automatic hoisting of reused schemas),
  `(*converter).convertLazy` / `lazyRef` (the four-way answer for an inner schema that is in `seen`), `toJSONSchemaSingle`.
  Not modelled: `Options.URI` (external references), `Override`.
-/
namespace Gozod.Jsc.Refs

structure Node where
  base : Nat                 -- `unwrapSchema(schema)`: the instance its Inner() chain ends in (itself for a non-wrapper)
  id : Option String := none -- `getID`: the registry ID ("" = none)
  optional : Bool := false
  nilable : Bool := false
  composite : Bool := false  -- `isCompositeType(internals.Type)`
  nilType : Bool := false    -- `internals.Type == ZodTypeNil` (a Nilable Nil schema gets no `anyOf`, hence no place for the `$ref`)
  isLazy : Bool := false
  kids : List Nat := []      -- the sub-schemas handed to `c.convert` by the type's converter (Lazy: the inner schema)

abbrev Graph := Nat → Node

structure Opts where
  reusedRef : Bool := false
  cyclesThrow : Bool := false

structure St where
  seen : List Nat := []
  counts : Nat → Nat := fun _ => 0
  refs : Nat → Option String := fun _ => none
  defs : List String := []
  auto : Nat := 0
  out : List String := []     -- names N of every `{"$ref": "#/$defs/N"}` emitted so far (`"#"` is the root: not recorded)

def autoName (n : Nat) : String := "def" ++ toString n

def St.emit (st : St) (name : String) : St := { st with out := name :: st.out }

/-- `c.auto++; name := def<auto>; c.refs[baseKey] = name; c.defs[name] = finalSchema` -/
def St.register (st : St) (base : Nat) : St :=
  let a := st.auto + 1
  { st with auto := a, refs := fun b => if b = base then some (autoName a) else st.refs b, defs := autoName a :: st.defs }

/-- run `f` over the sub-schemas in order, threading the state; an error aborts. -/
def foldKids (f : St → Nat → Option St) : St → List Nat → Option St
  | st, [] => some st
  | st, k :: ks => match f st k with
      | none => none
      | some st' => foldKids f st' ks

/-- `(*converter).lazyRef` (/repo 16f278d): a reference to a schema that is in `seen` — by ID, by automatic name, `#` when
    it is the root, and otherwise a NEW `$defs` entry (registered like the automatic names; its content is filled in when
    the target's conversion returns). -/
def lazyAnswer (g : Graph) (root : Nat) (st : St) (m : Nat) : St :=
  match (g m).id with
  | some i => st.emit i
  | none => match st.refs (g m).base with
      | some name => st.emit name
      | none =>
          if m = root then st                 -- {"$ref": "#"}
          else (st.register (g m).base).emit (autoName (st.register (g m).base).auto)

/-- `convertLazy` on the inner schema `m`: in `seen` ⇒ `lazyRef`; otherwise `c.convert(m)`. -/
def lazyKid (g : Graph) (root : Nat) (conv : St → Nat → Option St) (st : St) (m : Nat) : Option St :=
  if st.seen.contains m then some (lazyAnswer g root st m) else conv st m

/-- Reused:"ref": a composite, non-optional, non-nilable schema is registered (`refs` + `defs`) as soon as it is converted. -/
def stepRegister (o : Opts) (nd : Node) (st : St) : St :=
  if o.reusedRef && nd.composite && !nd.optional && !nd.nilable && (st.refs nd.base).isNone
  then st.register nd.base else st

/-- ID hoisting: the definition is stored under the ID (unless the key exists), the node becomes — or, Nilable, contains —
    `$ref: #/$defs/<id>`. -/
def stepId (nd : Node) (st : St) : St :=
  match nd.id with
  | some i =>
      let st' : St := { st with defs := if st.defs.contains i then st.defs else i :: st.defs }
      -- Nilable: `placeholder.AnyOf[0]` becomes the `$ref` — when there is an `anyOf` (not for a Nil schema)
      if nd.nilable && nd.nilType then st' else st'.emit i
  | none => st

/-- automatic hoisting of a schema met more than once under Reused:"ref". -/
def stepAuto (o : Opts) (nd : Node) (st : St) : St :=
  if st.counts nd.base > 1 && o.reusedRef then
    match st.refs nd.base with
    | some name => st.emit name
    | none => (st.register nd.base).emit (autoName (st.register nd.base).auto)
  else st

/-- `(*converter).convert`.  `stack` = the instances whose conversion is in progress (`c.converting`, /repo a8f8ff2: a hit
    on one of them is a cycle and is answered with `lazyRef`, not with the still empty placeholder);
    `none` = conversion error (`ErrCircularReference`) or fuel exhausted. -/
def convert (g : Graph) (o : Opts) (root : Nat) : Nat → List Nat → St → Nat → Option St
  | 0, _, _, _ => none
  | fuel + 1, stack, st, n =>
    let st := { st with counts := fun b => if b = (g n).base then st.counts b + 1 else st.counts b }
    if st.seen.contains n then
      if o.cyclesThrow then none
      else if o.reusedRef then
        match st.refs (g n).base with
        | some name => some (st.emit name)
        | none => some (if stack.contains n then lazyAnswer g root st n else st)   -- in progress: a reference; else the finished schema
      else some (if stack.contains n then lazyAnswer g root st n else st)
    else
      let st := { st with seen := n :: st.seen }
      let sub := if (g n).isLazy then foldKids (lazyKid g root (convert g o root fuel (n :: stack))) st (g n).kids
                 else foldKids (convert g o root fuel (n :: stack)) st (g n).kids
      match sub with
      | none => none
      | some st => some (stepAuto o (g n) (stepId (g n) (stepRegister o (g n) st)))

/-- `toJSONSchemaSingle`: a fresh converter, one `convert`, all of `c.defs` attached to the root. -/
def convertTop (g : Graph) (o : Opts) (fuel : Nat) (root : Nat) : Option St := convert g o root fuel [] {} root

end Gozod.Jsc.Refs
