package hx

// Probe values of the struct-tag rule matrix (C06, C13): a probe token names a boundary value
// of a field; SetProbe stores the concrete Go value into the (possibly pointer-typed) field.
//
//	nil            nil pointer            n:<t>        the number t/2      i:<v>  the integer v
//	s:<kind>:<n>   string of n bytes: plain (a…), other (z…), email, url, uuid
//	e:<n>          non-nil slice / map with n valid elements
//	b:<0|1>        bool                   in:<0|1>     nested struct whose tagged field A is valid / invalid

import (
	"fmt"
	"reflect"
	"strconv"
	"strings"
)

const UUIDSample = "123e4567-e89b-42d3-a456-426614174000"

func ProbeString(kind string, n int) (string, bool) {
	rep := func(ch string, k int) (string, bool) {
		if k < 0 {
			return "", false
		}
		return strings.Repeat(ch, k), true
	}
	switch kind {
	case "plain":
		return rep("a", n)
	case "other":
		return rep("z", n)
	case "email":
		s, ok := rep("a", n-5)
		return s + "@b.co", ok && n >= 6
	case "url":
		s, ok := rep("a", n-12)
		return "http://b.co/" + s, ok
	case "uuid":
		return UUIDSample, n == len(UUIDSample)
	}
	return "", false
}

func DefaultElem(t reflect.Type) reflect.Value {
	v := reflect.New(t).Elem()
	switch t.Kind() {
	case reflect.String:
		v.SetString("x")
	case reflect.Int, reflect.Int8, reflect.Int16, reflect.Int32, reflect.Int64:
		v.SetInt(1)
	case reflect.Uint, reflect.Uint8, reflect.Uint16, reflect.Uint32, reflect.Uint64:
		v.SetUint(1)
	case reflect.Float32, reflect.Float64:
		v.SetFloat(1.5)
	case reflect.Bool:
		v.SetBool(true)
	case reflect.Pointer:
		p := reflect.New(t.Elem())
		p.Elem().Set(DefaultElem(t.Elem()))
		v.Set(p)
	case reflect.Slice:
		s := reflect.MakeSlice(t, 1, 1)
		s.Index(0).Set(DefaultElem(t.Elem()))
		v.Set(s)
	case reflect.Struct:
		if f := v.FieldByName("A"); f.IsValid() {
			f.SetString("ok")
		}
	case reflect.Interface:
		v.Set(reflect.ValueOf("x"))
	}
	return v
}

// setProbe stores the probe value into field f (of type t, possibly a pointer type).
func SetProbe(f reflect.Value, probe string) error {
	t := f.Type()
	if probe == "nil" {
		if t.Kind() != reflect.Pointer {
			return fmt.Errorf("nil probe on non-pointer %s", t)
		}
		f.Set(reflect.Zero(t))
		return nil
	}
	target := f
	if t.Kind() == reflect.Pointer {
		p := reflect.New(t.Elem())
		f.Set(p)
		target = p.Elem()
		t = t.Elem()
	}
	parts := strings.Split(probe, ":")
	switch parts[0] {
	case "n":
		tw, err := strconv.ParseInt(parts[1], 10, 64)
		if err != nil {
			return err
		}
		switch t.Kind() {
		case reflect.Int, reflect.Int8, reflect.Int16, reflect.Int32, reflect.Int64:
			if tw%2 != 0 {
				return fmt.Errorf("half on int")
			}
			target.SetInt(tw / 2)
		case reflect.Uint, reflect.Uint8, reflect.Uint16, reflect.Uint32, reflect.Uint64:
			if tw%2 != 0 || tw < 0 {
				return fmt.Errorf("bad unsigned probe")
			}
			target.SetUint(uint64(tw / 2))
		case reflect.Float32, reflect.Float64:
			target.SetFloat(float64(tw) / 2)
		default:
			return fmt.Errorf("numeric probe on %s", t)
		}
	case "i": // exact integer value (large and type-boundary values)
		switch t.Kind() {
		case reflect.Int, reflect.Int8, reflect.Int16, reflect.Int32, reflect.Int64:
			v, err := strconv.ParseInt(parts[1], 10, t.Bits())
			if err != nil {
				return err
			}
			target.SetInt(v)
		case reflect.Uint, reflect.Uint8, reflect.Uint16, reflect.Uint32, reflect.Uint64:
			v, err := strconv.ParseUint(parts[1], 10, t.Bits())
			if err != nil {
				return err
			}
			target.SetUint(v)
		default:
			return fmt.Errorf("integer probe on %s", t)
		}
	case "s":
		n, _ := strconv.Atoi(parts[2])
		s, ok := ProbeString(parts[1], n)
		if !ok || len(s) != n {
			return fmt.Errorf("infeasible string probe %s", probe)
		}
		target.SetString(s)
	case "e":
		n, _ := strconv.Atoi(parts[1])
		switch t.Kind() {
		case reflect.Slice:
			s := reflect.MakeSlice(t, n, n)
			for i := 0; i < n; i++ {
				s.Index(i).Set(DefaultElem(t.Elem()))
			}
			target.Set(s)
		case reflect.Map:
			m := reflect.MakeMapWithSize(t, n)
			for i := 0; i < n; i++ {
				m.SetMapIndex(reflect.ValueOf("k"+strconv.Itoa(i)), DefaultElem(t.Elem()))
			}
			target.Set(m)
		default:
			return fmt.Errorf("elems probe on %s", t)
		}
	case "b":
		target.SetBool(parts[1] == "1")
	case "in":
		a := target.FieldByName("A")
		if parts[1] == "1" {
			a.SetString("ok")
		} else {
			a.SetString("toolong")
		}
	default:
		return fmt.Errorf("unknown probe %s", probe)
	}
	return nil
}
