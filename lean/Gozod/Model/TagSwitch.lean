/-
  C06 — the STATIC table of the rule-application code of types/struct.go.

  `harness/cmd/c06sw` (go/ast, source only) extracts, for every rule name, the type lists the rule can
  reach from the `switch rule.Name` of applyParsedTagRules: the `case` lists of the type switches and the
  type assertions of apply*Constraint / apply*Modifier / applyParameterizedRule (calls are followed; an
  interface case counts for the generic schema types whose method implements the interface AND handles the
  rule label).  It also extracts which schema constructor createSchemaFromTypeWithInfo / createSliceSchema /
  createSlicePtrSchema call for each reflect.Kind x pointer-ness, and the result type of that constructor.
  `vlib/c06.py` renders the facts as `Gozod.Gen.tagFacts` (names interned as indices into `names`).

  This file fixes the vocabulary and `reaches`: the (rule, field type) cell is reached iff some case of some
  reachable switch lists the concrete schema type the field starts with (or an interface it implements).
  A cell that is not reached is a rule that is silently dropped — the static table names the reason
  (function, line, case list) for what the behavioural table `Gen.tagTable` observes.
-/
import Gozod.Model.Tags
namespace Gozod.Tags.Sw

/-- the rule names looked up in the switches (every documented rule except `required`, which is not
    applied by a switch but by the pointer / optional handling) -/
inductive RName
  | min | max | length | email | url | uuid | regex
  | positive | negative | nonnegative | nonpositive | nonempty
  | gt | gte | lt | lte
  deriving DecidableEq, Repr

def RName.of : TRule → Option RName
  | .required => none
  | .min _ => some .min | .max _ => some .max | .length _ => some .length
  | .gt _ => some .gt | .gte _ => some .gte | .lt _ => some .lt | .lte _ => some .lte
  | .email => some .email | .url => some .url | .uuid => some .uuid | .regex => some .regex
  | .positive => some .positive | .negative => some .negative
  | .nonnegative => some .nonnegative | .nonpositive => some .nonpositive
  | .nonempty => some .nonempty

def RName.toString : RName → String
  | .min => "min" | .max => "max" | .length => "length" | .email => "email" | .url => "url" | .uuid => "uuid"
  | .regex => "regex" | .positive => "positive" | .negative => "negative" | .nonnegative => "nonnegative"
  | .nonpositive => "nonpositive" | .nonempty => "nonempty" | .gt => "gt" | .gte => "gte" | .lt => "lt" | .lte => "lte"

/-- one `case` type: a concrete instantiation `*Head[args]` (`args = some _`), or an interface (`args = none`,
    `head` = the interface) -/
structure CaseTy where
  head : Nat
  args : Option Nat
  deriving DecidableEq, Repr

/-- one type switch / type assertion reachable for `rule` -/
structure SwRow where
  rule : RName
  fn : Nat            -- the function holding it
  line : Nat
  cases : List CaseTy
  deriving Repr

structure Facts where
  names : List String
  /-- field type → (head, args) of the schema type the field starts with -/
  schemaTy : List (FTy × Nat × Nat)
  rows : List SwRow
  /-- interface → generic schema types implementing it for SOME rule (wrappers that embed one included) -/
  ifaces : List (Nat × List Nat)
  deriving Repr

def lookupTy (F : Facts) (t : FTy) : Option (Nat × Nat) :=
  (F.schemaTy.find? (fun e => e.1 == t)).map (·.2)

def implementors (F : Facts) (i : Nat) : List Nat :=
  match F.ifaces.find? (fun e => e.1 == i) with
  | some e => e.2
  | none => []

/-- does this `case` select a schema of type `*h[a]`? -/
def hits (F : Facts) (c : CaseTy) (h a : Nat) : Bool :=
  match c.args with
  | some x => c.head == h && x == a
  | none => (implementors F c.head).contains h

/-- the rule reaches the field type: some reachable switch has a case for the field's schema type -/
def reaches (F : Facts) (r : RName) (t : FTy) : Bool :=
  match lookupTy F t with
  | none => false
  | some (h, a) => F.rows.any fun row => row.rule == r && row.cases.any (hits F · h a)

/-- the rows that reach (for reports) -/
def reachedBy (F : Facts) (r : RName) (t : FTy) : List SwRow :=
  match lookupTy F t with
  | none => []
  | some (h, a) => F.rows.filter fun row => row.rule == r && row.cases.any (hits F · h a)

def name (F : Facts) (i : Nat) : String := F.names.getD i "?"

/-- `*Head[args]` as printed by the harness (`%T`, normalised) -/
def tyString (F : Facts) (t : FTy) : String :=
  match lookupTy F t with
  | none => "-"
  | some (h, a) => "*" ++ name F h ++ "[" ++ name F a ++ "]"

end Gozod.Tags.Sw
