/-
  C11 — FromJSONSchema: a fragment `J0` of JSON Schema documents over the documented keyword
  table (type string/number/integer/boolean/null/array, min/maxLength, minimum/maximum,
  items, min/maxItems, anyOf, oneOf, no type), their documents (`J0.doc`, validity by `jsValid`
  of Model/JsonSchema), and `fromJ0`, a transcription of /repo/jsonschema/from.go on them.
  Instances reach the produced schema through plain `encoding/json` decoding: every number is a
  float64, so an `Int()` schema rejects every instance (`plainify`).
-/
import Gozod.Model.JsonSchema
namespace Gozod.Jsc

inductive J0
  | str (mn mx : Option Nat)
  | num (mn mx : Option Int)      -- minimum / maximum, in quarters
  | int (mn mx : Option Int)      -- minimum / maximum, integers
  | bool | null | any
  | arr (items : J0) (mn mx : Option Nat)
  | anyOf2 (a b : J0)
  | oneOf2 (a b : J0)
  deriving Repr

def J0.doc : J0 → JS
  | .str mn mx => .node (.ofList ([.type .string] ++ optKw mn .minLength ++ optKw mx .maxLength))
  | .num mn mx => .node (.ofList ([.type .number] ++ optKw mn .minimum ++ optKw mx .maximum))
  | .int mn mx => .node (.ofList ([.type .integer] ++ optKw mn (fun v => .minimum (4 * v)) ++ optKw mx (fun v => .maximum (4 * v))))
  | .bool => .node (.ofList [.type .boolean])
  | .null => nullJS
  | .any => .node .nil
  | .arr it mn mx => .node (.ofList ([.type .array, .items it.doc] ++ optKw mn .minItems ++ optKw mx .maxItems))
  | .anyOf2 a b => .node (.ofList [.anyOf (.cons a.doc (.cons b.doc .nil))])
  | .oneOf2 a b => .node (.ofList [.oneOf (.cons a.doc (.cons b.doc .nil))])

def optL {α β : Type} (o : Option α) (f : α → β) : List β := match o with | some a => [f a] | none => []

/-- from.go: convertByType / convertString / convertNumber / convertInteger / convertArray /
    convertAnyOf / convertOneOf (Unknown() for a schema without `type`). -/
def fromJ0 : J0 → S
  | .str mn mx => .str (optL mn .min ++ optL mx .max)
  | .num mn mx => .flt (optL mn .gte ++ optL mx .lte)
  | .int mn mx => .int .int (optL mn .gte ++ optL mx .lte)
  | .bool => .bool
  | .null => .nil
  | .any => .any
  | .arr it mn mx => .slice (fromJ0 it) (optL mn .min ++ optL mx .max)
  | .anyOf2 a b => .union (.cons (fromJ0 a) (.cons (fromJ0 b) .nil))
  | .oneOf2 a b => .xor (.cons (fromJ0 a) (.cons (fromJ0 b) .nil))

/-- plain decoding: integer schemas (and integer literals) never see an integer-typed value. -/
def acceptsPlain : J0 → Json → Bool
  | .int _ _, _ => false
  | .arr it mn mx, x => match x with
      | .arr xs => szOk (optL mn .min ++ optL mx .max) xs.length && xs.all (acceptsPlain it)
      | _ => false
  | .anyOf2 a b, x => !x.isNull && (acceptsPlain a x || acceptsPlain b x)
  | .oneOf2 a b, x => !x.isNull && ((if acceptsPlain a x then 1 else 0) + (if acceptsPlain b x then 1 else 0) == 1)
  | j, x => accepts (fromJ0 j) x

/-- does the produced schema admit nil (Nil(), Unknown()) -/
def J0.admitsNull : J0 → Bool
  | .null => true
  | .any => true
  | _ => false

/-- the fragment on which FromJSONSchema is an equivalence: no `integer` (rejects every decoded
    number), no null-admitting member directly under anyOf/oneOf (the union rejects nil first). -/
def supported : J0 → Bool
  | .int _ _ => false
  | .arr it _ _ => supported it
  | .anyOf2 a b => !a.admitsNull && !b.admitsNull && supported a && supported b
  | .oneOf2 a b => !a.admitsNull && !b.admitsNull && supported a && supported b
  | _ => true

/-- keywords of the strict-mode table: (keyword, documented as supported, rejected in strict mode) -/
structure KwRow where
  kw : String
  documented : Bool
  strictRejects : Bool
  deriving Repr, DecidableEq

/-! ## the general converter: `fromJS`, a transcription of jsonschema/from.go over the keyword AST -/

inductive E
  | panic                      -- the conversion panics (Literal(nil))
  | unsupported (kw : Str)     -- strict mode: unsupported keyword
  deriving Repr, DecidableEq

abbrev R := Except E S

/-- what `convert` reads off one schema object; sub-schemas are kept as conversion RESULTS so
    that an error in a sibling the dispatch ignores is ignored as well. -/
structure Parts where
  ref : Option R := none
  others : List Str := []
  allOf : Option (List R) := none
  anyOf : Option (List R) := none
  oneOf : Option (List R) := none
  const : Option Prim := none
  enum : Option (List Prim) := none
  types : List TypeName := []
  format : Option (Str × List Str) := none
  minLength : Option Nat := none
  maxLength : Option Nat := none
  pattern : Option Pat := none
  minimum : Option Int := none
  maximum : Option Int := none
  exMin : Option Int := none
  exMax : Option Int := none
  mul : Option Int := none
  items : Option R := none
  prefixItems : Option (List R) := none
  minItems : Option Nat := none
  maxItems : Option Nat := none
  properties : Option (List (Str × R)) := none
  required : List Str := []
  addl : Option (Option Bool × R) := none      -- (boolean-schema value if boolean, conversion result)

def slistOf : List S → SList
  | [] => .nil
  | s :: ss => .cons s (slistOf ss)

def shapeOf : List (Str × S) → Shape
  | [] => .nil
  | (k, s) :: r => .cons k s (shapeOf r)

/-- `convertSchemaList`: the first error wins. -/
def seqR : List R → Except E (List S)
  | [] => .ok []
  | r :: rs => match r with
      | .error e => .error e
      | .ok s => match seqR rs with
          | .error e => .error e
          | .ok ss => .ok (s :: ss)

def patCk : Pat → StrCk
  | .pre s => .sw s
  | .suf s => .ew s
  | .has s => .inc s
  | .noUp => .lower
  | .noLow => .upper

def convString (p : Parts) : S :=
  match p.format with
  | some (name, good) =>
      if knownFormats.contains name then .enum good      -- dedicated schema; minLength/maxLength/pattern ignored
      else .str (optL p.minLength .min ++ optL p.maxLength .max ++ optL p.pattern patCk)
  | none => .str (optL p.minLength .min ++ optL p.maxLength .max ++ optL p.pattern patCk)

def convNumber (p : Parts) : S :=
  .flt (optL p.minimum .gte ++ optL p.maximum .lte ++ optL p.exMin .gt ++ optL p.exMax .lt ++ optL p.mul .mul)

/-- `int64(val)` of a bound given in quarters: truncation toward zero. -/
def truncQ (q : Int) : Int := Int.tdiv q 4

def convInteger (p : Parts) : S :=
  .int .int (optL p.minimum (fun q => .gte (truncQ q)) ++ optL p.maximum (fun q => .lte (truncQ q))
    ++ optL p.exMin (fun q => .gt (truncQ q)) ++ optL p.exMax (fun q => .lt (truncQ q))
    ++ optL p.mul (fun q => .mul (truncQ q)))

def convArray (p : Parts) : R :=
  match p.prefixItems with
  | some (r :: rs) =>                    -- convertTuple: minItems / maxItems are not read
      match seqR (r :: rs) with
      | .error e => .error e
      | .ok items =>
          match p.items with
          | some (.error e) => .error e
          | some (.ok rest) => .ok (.tup (.some rest) [] (slistOf items))
          | none => .ok (.tup .none [] (slistOf items))
  | _ =>
      match (match p.items with | some r => r | none => .ok .any) with
      | .error e => .error e
      | .ok it => .ok (.slice it (optL p.minItems .min ++ optL p.maxItems .max))

/-- `makeOptional`: only these concrete schema types are wrapped. -/
def makeOptional : S → S
  | .str cks => .opt (.str cks)
  | .int .int cks => .opt (.int .int cks)
  | .flt cks => .opt (.flt cks)
  | .bool => .opt .bool
  | .slice e cks => .opt (.slice e cks)
  | .obj m c pt cks sh => .opt (.obj m c pt cks sh)
  | s => s

/-- properties whose conversion returns an error are skipped; a panic is not an error. -/
def convProps (req : List Str) : List (Str × R) → Except E (List (Str × S))
  | [] => .ok []
  | (k, .ok s) :: r =>
      match convProps req r with
      | .ok rest => .ok ((k, if req.contains k then s else makeOptional s) :: rest)
      | .error e => .error e
  | (_, .error .panic) :: _ => .error .panic
  | (_, .error (.unsupported _)) :: r => convProps req r

def convObject (p : Parts) : R :=
  match p.properties with
  | some (kv :: kvs) =>
      match convProps p.required (kv :: kvs) with
      | .error e => .error e
      | .ok fields =>
      let shape := shapeOf fields
      match p.addl with
      | some (some false, _) => .ok (.obj .strict .none false [] shape)
      | some (none, .ok c) => .ok (.obj .strip (.some c) false [] shape)     -- catch-all on a strip-mode object
      | some (none, .error .panic) => .error .panic
      | _ => .ok (.obj .strip .none false [] shape)
  | _ =>
      match p.addl with
      | some (_, .error e) => .error e
      | some (_, .ok v) => .ok (.record (.str []) v [])
      | none => .ok (.obj .strip .none false [] .nil)

def convOneType (p : Parts) : TypeName → R
  | .string => .ok (convString p)
  | .number => .ok (convNumber p)
  | .integer => .ok (convInteger p)
  | .boolean => .ok .bool
  | .null => .ok .nil
  | .array => convArray p
  | .object => convObject p

def typeOrder : List TypeName := [.string, .number, .integer, .boolean, .null, .array, .object]

def convByType (p : Parts) : R :=
  match p.types with
  | [] => .ok .any
  | [t] => convOneType p t
  | ts =>
      match seqR ((typeOrder.filter (fun t => ts.contains t)).map (convOneType p)) with
      | .error e => .error e
      | .ok [] => .ok .any
      | .ok [s] => .ok s
      | .ok ss => .ok (.union (slistOf ss))

def chainAnd : S → List S → S
  | a, [] => a
  | a, b :: rest => chainAnd (.and a b) rest

def litOf (v : Prim) : R := match v with | .null => .error .panic | v => .ok (.lit [v])

def allStrs : List Prim → Option (List Str)
  | [] => some []
  | .str s :: r => (allStrs r).map (s :: ·)
  | _ => none

/-- `convert` after the sub-schemas have been converted.  `rejects` = the strict-mode table. -/
def assemble (rejects : Str → Bool) (strict : Bool) (p : Parts) : R :=
  match p.ref with
  | some r => r                                   -- `$ref` first: siblings are not looked at
  | none =>
  match (if strict then p.others.find? rejects else none) with
  | some kw => .error (.unsupported kw)
  | none =>
  match p.allOf, p.anyOf, p.oneOf with
  | some (r :: rs), _, _ =>
      match seqR (r :: rs) with
      | .error e => .error e
      | .ok [] => .ok .any
      | .ok (a :: rest) => .ok (chainAnd a rest)
  | _, some (r :: rs), _ =>
      match seqR (r :: rs) with
      | .error e => .error e
      | .ok [] => .ok .any
      | .ok [a] => .ok a
      | .ok ss => .ok (.union (slistOf ss))
  | _, _, some (r :: rs) =>
      match seqR (r :: rs) with
      | .error e => .error e
      | .ok [] => .ok .any
      | .ok [a] => .ok a
      | .ok ss => .ok (.xor (slistOf ss))
  | _, _, _ =>
  match p.const with
  | some v => litOf v
  | none =>
  match p.enum with
  | some (v :: vs) =>
      match allStrs (v :: vs) with
      | some strs => .ok (.enum strs)
      | none =>
          match seqR ((v :: vs).map litOf) with
          | .error e => .error e
          | .ok ss => .ok (.union (slistOf ss))
  | _ => convByType p

mutual
def fromJS (rejects : Str → Bool) (strict : Bool) : JS → R
  | .bool true => .ok .any
  | .bool false => .ok .never
  | .node kws => assemble rejects strict (collect rejects strict kws {})

def collect (rejects : Str → Bool) (strict : Bool) : KwList → Parts → Parts
  | .nil, p => p
  | .cons k ks, p => collect rejects strict ks (addKw rejects strict k p)

def addKw (rejects : Str → Bool) (strict : Bool) : Kw → Parts → Parts
  | .type t, p => { p with types := [t] }
  | .types ts, p => { p with types := ts }
  | .minLength n, p => { p with minLength := some n }
  | .maxLength n, p => { p with maxLength := some n }
  | .pattern q, p => { p with pattern := some q }
  | .minimum q, p => { p with minimum := some q }
  | .maximum q, p => { p with maximum := some q }
  | .exclusiveMinimum q, p => { p with exMin := some q }
  | .exclusiveMaximum q, p => { p with exMax := some q }
  | .multipleOf q, p => { p with mul := some q }
  | .enum vs, p => { p with enum := some vs }
  | .const v, p => { p with const := some v }
  | .items j, p => { p with items := some (fromJS rejects strict j) }
  | .prefixItems js, p => { p with prefixItems := some (fromList rejects strict js) }
  | .minItems n, p => { p with minItems := some n }
  | .maxItems n, p => { p with maxItems := some n }
  | .properties ps, p => { p with properties := some (fromProps rejects strict ps) }
  | .required ks, p => { p with required := ks }
  | .additionalProperties j, p =>
      { p with addl := some ((match j with | .bool b => some b | _ => none), fromJS rejects strict j) }
  | .propertyNames _, p => { p with others := p.others ++ ["propertyNames".toList.map Char.toNat] }
  | .minProperties _, p => { p with others := p.others ++ ["minProperties".toList.map Char.toNat] }
  | .maxProperties _, p => { p with others := p.others ++ ["maxProperties".toList.map Char.toNat] }
  | .anyOf js, p => { p with anyOf := some (fromList rejects strict js) }
  | .oneOf js, p => { p with oneOf := some (fromList rejects strict js) }
  | .allOf js, p => { p with allOf := some (fromList rejects strict js) }
  | .not _, p => { p with others := p.others ++ ["not".toList.map Char.toNat] }
  | .format n g, p => { p with format := some (n, g) }
  | .ref j, p => { p with ref := some (fromJS rejects strict j) }
  | .other n, p => { p with others := p.others ++ [n] }

def fromList (rejects : Str → Bool) (strict : Bool) : JSList → List R
  | .nil => []
  | .cons j js => fromJS rejects strict j :: fromList rejects strict js

def fromProps (rejects : Str → Bool) (strict : Bool) : JSProps → List (Str × R)
  | .nil => []
  | .cons k j ps => (k, fromJS rejects strict j) :: fromProps rejects strict ps
end

/-! ## plain decoding: every JSON number reaches the schema as a float64 -/

mutual
def plainify : S → S
  | .int _ _ => .never
  | .opt s => .opt (plainify s)
  | .nul s => .nul (plainify s)
  | .obj m ca pt cks sh => .obj m (plainifyO ca) pt cks (plainifySh sh)
  | .slice e cks => .slice (plainify e) cks
  | .arr r cks it => .arr (plainifyO r) cks (plainifyL it)
  | .tup r cks it => .tup (plainifyO r) cks (plainifyL it)
  | .record k v cks => .record (plainify k) (plainify v) cks
  | .union ms => .union (plainifyL ms)
  | .xor ms => .xor (plainifyL ms)
  | .and l r => .and (plainify l) (plainify r)
  | s => s
def plainifyO : SOpt → SOpt
  | .none => .none
  | .some s => .some (plainify s)
def plainifyL : SList → SList
  | .nil => .nil
  | .cons s ss => .cons (plainify s) (plainifyL ss)
def plainifySh : Shape → Shape
  | .nil => .nil
  | .cons k s r => .cons k (plainify s) (plainifySh r)
end

/-- Parse verdict of the produced schema on an `encoding/json`-decoded instance. -/
def acceptsDecoded (s : S) (x : Json) : Bool := accepts (plainify s) x

end Gozod.Jsc
