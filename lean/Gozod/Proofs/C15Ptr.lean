/-
  C15 — Parse through a caller's pointer (`Gozod.Graph.parsePtrS`, the model of validatePointer after /repo e584c0e).

    own_ptr_input_unchanged   Parse through a pointer — any schema of the `own` language, accepted or refused — writes nothing
                              that existed: the caller's variable, the pointee's graph and every schema-held cell hold what
                              they held (the first clause of the property, for pointers)
    own_ptr_same_pointer      when the validated value is the value the pointer refers to, the caller's own pointer comes back
    own_ptr_own_pointer       otherwise (the schema built a new value) the answer is a pointer allocated by this call whose
                              pointee is the validated value
    legacy_ptr_pointee_replaced   witness for the code before e584c0e (`*ptr = v`): an object schema in strip mode, a map with
                              an unknown key passed by pointer: the caller's variable refers to another map afterwards
-/
import Gozod.Proofs.C15Own

namespace Gozod.C15
open Gozod.Graph

/-- **own_ptr_input_unchanged**: without an overwrite, Parse through a caller's pointer only allocates. -/
theorem own_ptr_input_unchanged (s : GSchema) (σ : GStore) (p : Loc) (n : Nat) (hn : n ≤ σ.next) (ho : OwnedS n σ.heap s) :
    GExt σ.next σ (parsePtrS false s σ p).1 := by
  unfold parsePtrS
  split
  · next v _ =>
    have e := own_parse_ext s σ v n hn ho
    split
    · exact e
    · simp only [Bool.false_eq_true, ↓reduceIte]
      split
      · exact e
      · exact e.trans (galloc_ext _ _ _ e.1)
  · exact GExt.refl _ _

/-- **own_ptr_same_pointer**: the validated value is the pointee itself → the caller's pointer is the answer. -/
theorem own_ptr_same_pointer (s : GSchema) (σ : GStore) (p : Loc) (v w : GVal) (hp : readG σ.heap p = [(0, v)])
    (hw : (parseS s σ v).2 = some w) (hsame : sameV gdepth w v = true) :
    (parsePtrS false s σ p).2 = some (.ref p) := by
  unfold parsePtrS
  rw [hp]
  simp only [hw, hsame, Bool.false_eq_true, ↓reduceIte]

/-- **own_ptr_own_pointer**: the schema built a new value → a pointer allocated by this call, holding that value. -/
theorem own_ptr_own_pointer (s : GSchema) (σ : GStore) (p : Loc) (v w : GVal) (hp : readG σ.heap p = [(0, v)])
    (hw : (parseS s σ v).2 = some w) (hdiff : sameV gdepth w v = false) :
    (parsePtrS false s σ p).2 = some (.ref (parseS s σ v).1.next) ∧
    readG (parsePtrS false s σ p).1.heap (parseS s σ v).1.next = [(0, w)] := by
  unfold parsePtrS
  rw [hp]
  simp only [hw, hdiff, Bool.false_eq_true, ↓reduceIte]
  exact ⟨rfl, by simp [galloc, readG, gupd]⟩

/-- cell 1 = the caller's map `{9: 7, 10: 7}` (key 10 unknown to the schema), cell 2 = the caller's variable holding it -/
def σp : GStore :=
  { heap := gupd (gupd (fun _ => none) 1 [(9, .scalar 7), (10, .scalar 7)]) 2 [(0, .ref 1)], next := 3 }

/-- **Witness (the code before e584c0e)**: `Object({9: any}).Parse(&m)` stored the stripped result map through the pointer:
    the caller's variable (cell 2) refers to another map afterwards; the fixed code leaves it alone and answers with a
    pointer of its own. -/
theorem legacy_ptr_pointee_replaced :
    let s := GSchema.obj .strip [9] (fun _ => .any)
    reach gdepth (parsePtrS true s σp 2).1.heap (.ref 2) ≠ reach gdepth σp.heap (.ref 2) ∧
    ser gdepth (parsePtrS true s σp 2).1.heap (.ref 2) ≠ ser gdepth σp.heap (.ref 2) ∧
    reach gdepth (parsePtrS false s σp 2).1.heap (.ref 2) = reach gdepth σp.heap (.ref 2) ∧
    ser gdepth (parsePtrS false s σp 2).1.heap (.ref 2) = ser gdepth σp.heap (.ref 2) ∧
    isRef (parsePtrS false s σp 2).2 4 = true ∧ isRef (parsePtrS true s σp 2).2 2 = true := by decide

/-- a slice schema hands back the caller's slice itself: the caller's pointer comes back (hypotheses of `own_ptr_same_pointer`) -/
example :
    let σ : GStore := { heap := gupd (gupd (fun _ => none) 1 [(0, .scalar 7)]) 2 [(0, .ref 1)], next := 3 }
    isRef (parsePtrS false (.slice .any) σ 2).2 2 = true := by decide

/-! ### the pointer clause over every variant of every schema (`parsePtrP`, round 4c)

    ptrP_input_unchanged       value-typed, optional, nilable or pointer-typed, any schema of the language, accepted or refused:
                               Parse(&v) only allocates — the caller's variable, the pointee's graph, every schema cell hold
                               what they held ("input value graph unchanged", the pointer half)
    ptr_same_pointer_full      the clause as the reading states it: pointer-typed / optional / nilable, accepted, documented
                               answer looks like the pointee (`wantSame = some true`, written without the model) → the SAME pointer
    ptr_same_pointer_obj_witness   … false for the code as it is: an Object builds a new map even when nothing is stripped
                               (`ObjectPtr({a}).Parse(&{a:x})` answers with a pointer of its own) — open: ptr:parse:different-pointer:ZodObject
    ptr_same_pointer_partial   … true for every schema whose root is not an object (explicit decidable exclusion `rootObj`)
    ptrP_obj_own_pointer       root object: the answer is a pointer allocated by the call (never the caller's)
    ptr_clauses_exclusive      why `wantSame = some false` demands a pointer of its own: a store that left the input graph
                               unchanged shows, through the caller's pointer, what it showed before — so the same pointer can
                               never carry an answer that looks different from the pointee
    ptr_letter_conflict        witness: `Object({9}).Parse(&{9:7, 10:7})` — documented answer `{9:7}` ≠ pointee: the letter of
                               the two clauses cannot hold together there -/

/-- the root (below defaults) is an object -/
def rootObj : GSchema → Bool
  | .obj _ _ _ => true
  | .dflt _ t => rootObj t
  | _ => false

theorem ownedS_underDflt (n : Nat) (h : GHeap) : ∀ s, OwnedS n h s → OwnedS n h (underDflt s) := by
  intro s
  induction s with
  | dflt d t ih => intro ho; exact ih ho.2
  | any => exact id
  | str ss => exact id
  | lit rm ms => exact id
  | obj m f k _ => exact id
  | slice t _ => exact id
  | record t _ => exact id
  | union a b _ _ => exact id

/-- **ptrP_input_unchanged**: Parse through a caller's pointer, every variant, every schema, accepted or refused, only allocates. -/
theorem ptrP_input_unchanged (ps : PSchema) (σ : GStore) (p : Loc) (n : Nat) (hn : n ≤ σ.next) (ho : OwnedS n σ.heap ps.s) :
    GExt σ.next σ (parsePtrP ps σ p).1 := by
  have ho' := ownedS_underDflt n σ.heap ps.s ho
  unfold parsePtrP
  split
  · split
    · exact own_ptr_input_unchanged _ σ p n hn ho'
    · split
      · exact GExt.refl _ _
      · split
        · exact own_parse_ext _ σ _ n hn ho'
        · exact GExt.refl _ _
  · exact GExt.refl _ _

/-- … hence what the caller sees through its pointer — cells and look — is what it saw (first clause, pointer half) -/
theorem ptrP_pointee_unchanged (ps : PSchema) (σ : GStore) (p : Loc) (n : Nat) (hn : n ≤ σ.next) (ho : OwnedS n σ.heap ps.s)
    (hb : ∀ x ∈ reach gdepth σ.heap (.ref p), x < σ.next) :
    reach gdepth (parsePtrP ps σ p).1.heap (.ref p) = reach gdepth σ.heap (.ref p) ∧
    ser gdepth (parsePtrP ps σ p).1.heap (.ref p) = ser gdepth σ.heap (.ref p) :=
  g_graph_frame gdepth σ.next σ _ _ (ptrP_input_unchanged ps σ p n hn ho) hb

/-- every type of the language that takes a pointer and is not an object hands back the value it was given -/
theorem parse_keeps : ∀ (s : GSchema), takesPtr s = true → rootObj s = false → ∀ (σ : GStore) (v w : GVal),
    (parseS (underDflt s) σ v).2 = some w → w = v := by
  intro s
  induction s with
  | any => intro _ _ σ v w h; simp only [underDflt, parseS, Option.some.injEq] at h; exact h.symm
  | str ss =>
    intro _ _ σ v w h
    simp only [underDflt] at h
    unfold parseS at h
    split at h
    · simp only at h
      split at h
      · exact (Option.some.inj h).symm
      · cases h
    · cases h
  | lit rm ms => intro ht; cases ht
  | union a b _ _ => intro ht; cases ht
  | dflt d t ih => intro ht hr σ v w h; exact ih ht hr σ v w h
  | obj m f k _ => intro _ hr; cases hr
  | slice t _ =>
    intro _ _ σ v w h
    simp only [underDflt] at h
    unfold parseS at h
    split at h
    · split at h
      · unfold validated at h
        split at h
        · exact (Option.some.inj h).symm
        · cases h
      · cases h
    all_goals cases h
  | record t _ =>
    intro _ _ σ v w h
    simp only [underDflt] at h
    unfold parseS at h
    split at h
    · split at h
      · unfold validated at h
        split at h
        · exact (Option.some.inj h).symm
        · cases h
      · cases h
    all_goals cases h

theorem sameV_flat (v : GVal) (hf : ∀ fs, v ≠ .agg fs) : sameV gdepth v v = true := by
  cases v with
  | scalar n => simp [gdepth, sameV]
  | nil => simp [gdepth, sameV]
  | ref l => simp [gdepth, sameV]
  | agg fs => exact absurd rfl (hf fs)

/-- **The clause, full strength** (reading of notes/C15.md): pointer-typed / optional / nilable schema, accepted, the documented
    answer looks like what the pointer refers to → the caller's own pointer comes back. -/
def ptr_same_pointer_full : Prop :=
  ∀ (ps : PSchema) (σ : GStore) (p : Loc) (v : GVal),
    readG σ.heap p = [(0, v)] → (∀ fs, v ≠ .agg fs) → (parsePtrP ps σ p).2.isSome = true →
    wantSame ps σ p = some true → (parsePtrP ps σ p).2 = some (.ref p)

/-- **ptr_same_pointer_partial**: the clause holds for every schema whose root is not an object. -/
theorem ptr_same_pointer_partial (ps : PSchema) (hno : rootObj ps.s = false) (σ : GStore) (p : Loc) (v : GVal)
    (hp : readG σ.heap p = [(0, v)]) (hf : ∀ fs, v ≠ .agg fs) (hacc : (parsePtrP ps σ p).2.isSome = true)
    (hw : wantSame ps σ p = some true) : (parsePtrP ps σ p).2 = some (.ref p) := by
  have hk : ps.kind.ptrTyped = true := by
    unfold wantSame at hw
    split at hw
    · assumption
    · cases hw
  by_cases ht : takesPtr ps.s = true
  · unfold parsePtrP at hacc ⊢
    simp only [ht, hk, ↓reduceIte] at hacc ⊢
    cases hq : (parseS (underDflt ps.s) σ v).2 with
    | none =>
      unfold parsePtrS at hacc
      rw [hp] at hacc
      simp only [hq] at hacc
      cases hacc
    | some w =>
      have hwv := parse_keeps ps.s ht hno σ v w hq
      subst hwv
      exact own_ptr_same_pointer _ σ p w w hp hq (sameV_flat w hf)
  · unfold parsePtrP at hacc
    simp only [ht] at hacc
    cases hacc

/-- cell 1 = the caller's map `{9: 7}` (nothing the schema does not know), cell 2 = the caller's variable holding it -/
def σq : GStore :=
  { heap := gupd (gupd (fun _ => none) 1 [(9, .scalar 7)]) 2 [(0, .ref 1)], next := 3 }

/-- **Witness (the code as it is)**: `ObjectPtr({9: any}).Parse(&m)`, `m = {9: 7}` — nothing to strip, the answer looks exactly
    like `m`, the clause demands the caller's pointer — and the answer is a pointer of its own (cell 4) to a new map (cell 3). -/
theorem ptr_same_pointer_obj_witness : ¬ ptr_same_pointer_full := by
  intro h
  have h1 := h ⟨.pointer, .obj .strip [9] (fun _ => .any)⟩ σq 2 (.ref 1) rfl (by intro fs hh; cases hh) (by decide) (by decide)
  have h2 : isRef (parsePtrP ⟨.pointer, .obj .strip [9] (fun _ => .any)⟩ σq 2).2 4 = true := by decide
  rw [h1] at h2
  exact absurd h2 (by decide)

/-- the same for the optional and the nilable variant, strip / loose / strict — and the slice, record, string and any roots
    answer with the caller's pointer (hypotheses of `ptr_same_pointer_partial` met by realistic values) -/
example :
    isRef (parsePtrP ⟨.optional, .obj .loose [9] (fun _ => .any)⟩ σq 2).2 4 = true ∧
    isRef (parsePtrP ⟨.nilable, .obj .strict [9] (fun _ => .any)⟩ σq 2).2 4 = true ∧
    isRef (parsePtrP ⟨.optional, .record (.str [7])⟩ σq 2).2 2 = true ∧
    isRef (parsePtrP ⟨.nilable, .dflt (.scalar 1) (.record .any)⟩ σq 2).2 2 = true ∧
    isRef (parsePtrP ⟨.pointer, .any⟩ σq 2).2 2 = true ∧
    isRef (parsePtrP ⟨.value, .any⟩ σq 2).2 2 = true ∧
    isRef (parsePtrP ⟨.value, .record .any⟩ σq 2).2 1 = true ∧
    (parsePtrP ⟨.pointer, .union .any .any⟩ σq 2).2.isSome = false ∧
    wantSame ⟨.optional, .record (.str [7])⟩ σq 2 = some true ∧ rootObj (.record (.str [7])) = false := by decide

/-- the pass over a container's entries never lowers the allocation mark -/
theorem fold_next (n : Nat) (σ : GStore) (step : GStore → Nat × GVal → StepRes)
    (hs : ∀ (σ' : GStore) (p : Nat × GVal), GExt n σ σ' → n ≤ σ'.next → GExt σ'.next σ' (step σ' p).1) (es : Entries)
    (hn : n ≤ σ.next) : σ.next ≤ (foldEntries step es σ).1.next :=
  (fold_ext n σ step hs es σ (GExt.refl _ _) hn).1

/-- an object's answer is a cell allocated by the call -/
theorem obj_builds_new : ∀ (s : GSchema), rootObj s = true → ∀ (σ : GStore) (v w : GVal) (n : Nat), n ≤ σ.next →
    OwnedS n σ.heap (underDflt s) → (parseS (underDflt s) σ v).2 = some w → ∃ x, w = .ref x ∧ σ.next ≤ x := by
  intro s
  induction s with
  | any => intro hr; cases hr
  | str ss => intro hr; cases hr
  | lit rm ms => intro hr; cases hr
  | union a b _ _ => intro hr; cases hr
  | slice t _ => intro hr; cases hr
  | record t _ => intro hr; cases hr
  | dflt d t ih => intro hr σ v w n hn ho h; exact ih hr σ v w n hn ho h
  | obj mode fields kids _ =>
    intro _ σ v w n hn ho h
    simp only [underDflt] at h ho
    unfold parseS at h
    split at h
    · next l =>
      split at h
      · have e := fold_next n σ (objStep mode fields (fun k => parseS (kids k))) (fun σ' p he hn' => by
          unfold objStep
          split
          · exact own_parse_ext (kids p.1) σ' p.2 n hn' (owned_ext n σ σ' he _ (ho p.1))
          · unfold unknownStep
            split <;> exact GExt.refl _ _) (readG σ.heap l) hn
        unfold finish at h
        split at h
        · cases h
        · simp only [Option.some.injEq] at h
          exact ⟨_, h.symm, e⟩
      · cases h
    all_goals cases h

/-- **ptrP_obj_own_pointer**: a pointer-typed / optional / nilable object schema answers an accepted pointee with a pointer
    allocated by the call — never the caller's. -/
theorem ptrP_obj_own_pointer (ps : PSchema) (hk : ps.kind.ptrTyped = true) (hr : rootObj ps.s = true) (ht : takesPtr ps.s = true)
    (σ : GStore) (p l : Loc) (n : Nat) (hn : n ≤ σ.next) (ho : OwnedS n σ.heap ps.s)
    (hp : readG σ.heap p = [(0, .ref l)]) (hl : l < σ.next) (hacc : (parsePtrP ps σ p).2.isSome = true) :
    ∃ q, (parsePtrP ps σ p).2 = some (.ref q) ∧ σ.next ≤ q := by
  unfold parsePtrP at hacc ⊢
  simp only [ht, hk, ↓reduceIte] at hacc ⊢
  cases hq : (parseS (underDflt ps.s) σ (.ref l)).2 with
  | none =>
    unfold parsePtrS at hacc
    rw [hp] at hacc
    simp only [hq] at hacc
    cases hacc
  | some w =>
    obtain ⟨x, rfl, hx⟩ := obj_builds_new ps.s hr σ (.ref l) w n hn (ownedS_underDflt n σ.heap ps.s ho) hq
    have hd : sameV gdepth (.ref x) (.ref l) = false := by
      have : x ≠ l := Nat.ne_of_gt (Nat.lt_of_lt_of_le hl hx)
      simp [gdepth, sameV, this]
    have := own_ptr_own_pointer _ σ p (.ref l) (.ref x) hp hq hd
    refine ⟨_, this.1, ?_⟩
    exact (own_parse_ext (underDflt ps.s) σ (.ref l) n hn (ownedS_underDflt n σ.heap ps.s ho)).1

/-- **ptr_clauses_exclusive**: whatever a Parse that left the input graph unchanged did, the caller's pointer shows afterwards
    what it showed before. So where the documented answer does not look like the pointee (`wantSame = some false`), "the same
    pointer comes back" and "the input graph is unchanged" cannot both hold: a pointer of its own is the only answer. -/
theorem ptr_clauses_exclusive (σ τ : GStore) (p : Loc) (he : GExt σ.next σ τ)
    (hb : ∀ x ∈ reach gdepth σ.heap (.ref p), x < σ.next) :
    ser gdepth τ.heap (.ref p) = ser gdepth σ.heap (.ref p) :=
  (g_graph_frame gdepth σ.next σ τ (.ref p) he hb).2

/-- **Witness (the letter of the two clauses)**: `Object({9: any}).Optional().Parse(&m)`, `m = {9: 7, 10: 7}`: the documented
    answer drops key 10 (`wantSame = some false`); the code answers with its own pointer (cell 4), the answer looks like
    `&{9: 7}`, not like what the caller's pointer shows, and the caller's pointer shows what it showed. -/
theorem ptr_letter_conflict :
    let ps : PSchema := ⟨.optional, .obj .strip [9] (fun _ => .any)⟩
    wantSame ps σp 2 = some false ∧
    isRef (parsePtrP ps σp 2).2 4 = true ∧
    ser gdepth (parsePtrP ps σp 2).1.heap (.ref 4) ≠ ser gdepth σp.heap (.ref 2) ∧
    ser gdepth (parsePtrP ps σp 2).1.heap (.ref 2) = ser gdepth σp.heap (.ref 2) := by decide

end Gozod.C15
