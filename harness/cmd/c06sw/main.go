// c06sw — go/ast extraction (source only, nothing is compiled or run) of the facts that decide which
// (struct-tag rule, field type) cells the rule-application code of types/struct.go can reach:
//
//	kinds     createSchemaFromTypeWithInfo: reflect.Kind x pointer-ness -> the constructor called (non-coerce branch)
//	elems     createSliceSchema / createSlicePtrSchema / createMapSchema / createMapPtrSchema: element Kind -> constructor expression
//	ctors     every constructor function of package types: type parameters and result type text
//	rules     for every rule name asked for: the type lists (type-switch cases, type assertions) reached from the
//	          `switch rule.Name` of applyParsedTagRules, following calls into the functions of struct.go and, through an
//	          interface assertion, into the methods that implement the interface (filtered by the rule label)
//	ifaces    interface name -> generic schema types (receiver heads) implementing its single method
//	embeds    wrapper struct type -> embedded schema type (ZodEmail -> ZodString)
//
// Output: JSON on stdout. vlib/c06.py renders lean/Gozod/Gen/TagSwitches.lean from it.
package main

import (
	"bytes"
	"encoding/json"
	"flag"
	"fmt"
	"go/ast"
	"go/parser"
	"go/printer"
	"go/token"
	"os"
	"path/filepath"
	"sort"
	"strconv"
	"strings"
)

type Ctor struct {
	TParams []string `json:"tparams"`
	Result  string   `json:"result"`
}

type KindRow struct {
	Kind   string `json:"kind"`
	Ptr    bool   `json:"ptr"`
	Coerce bool   `json:"coerce"`
	Expr   string `json:"expr"` // constructor call expression, e.g. Int8Ptr() or createSliceSchema(elemSchema, elemType)
}

type ElemRow struct {
	Func string `json:"func"`
	Kind string `json:"kind"` // reflect.Kind name, or "default"
	Expr string `json:"expr"` // e.g. Slice[string](elemSchema)
}

type TypeList struct {
	Func  string   `json:"func"`  // function (or Recv.method) holding the switch / assertion
	Via   string   `json:"via"`   // chain of calls from applyParsedTagRules
	Form  string   `json:"form"`  // typeswitch | assert
	Types []string `json:"types"` // case type texts, in source order
	Line  int      `json:"line"`
}

type Out struct {
	Kinds  []KindRow             `json:"kinds"`
	Elems  []ElemRow             `json:"elems"`
	Ctors  map[string]Ctor       `json:"ctors"`
	Rules  map[string][]TypeList `json:"rules"`
	Ifaces map[string][]string   `json:"ifaces"`
	Embeds map[string]string     `json:"embeds"`
	Labels []string              `json:"labels"` // case labels of the `switch rule.Name` of applyParsedTagRules
}

var fset = token.NewFileSet()

func text(n ast.Node) string {
	var b bytes.Buffer
	_ = printer.Fprint(&b, fset, n)
	return strings.Join(strings.Fields(b.String()), " ")
}

func recvHead(fd *ast.FuncDecl) string {
	if fd.Recv == nil || len(fd.Recv.List) == 0 {
		return ""
	}
	t := fd.Recv.List[0].Type
	if s, ok := t.(*ast.StarExpr); ok {
		t = s.X
	}
	switch x := t.(type) {
	case *ast.IndexExpr:
		t = x.X
	case *ast.IndexListExpr:
		t = x.X
	}
	if id, ok := t.(*ast.Ident); ok {
		return id.Name
	}
	return ""
}

type world struct {
	funcs   map[string]*ast.FuncDecl   // plain functions of package types
	methods map[string][]*ast.FuncDecl // method name -> declarations
	ifaces  map[string]string          // interface type name -> its single method name
}

// strLabels returns the string literals of a case clause ("" list = default).
func strLabels(cc *ast.CaseClause) ([]string, bool) {
	var out []string
	for _, e := range cc.List {
		bl, ok := e.(*ast.BasicLit)
		if !ok || bl.Kind != token.STRING {
			return nil, false
		}
		s, err := strconv.Unquote(bl.Value)
		if err != nil {
			return nil, false
		}
		out = append(out, s)
	}
	return out, true
}

// isRuleSwitch: a `switch x {` whose clauses are all string literals (a switch over the rule name).
func isRuleSwitch(sw *ast.SwitchStmt) bool {
	if sw.Tag == nil {
		return false
	}
	n := 0
	for _, st := range sw.Body.List {
		cc := st.(*ast.CaseClause)
		if cc.List == nil {
			continue
		}
		if _, ok := strLabels(cc); !ok {
			return false
		}
		n++
	}
	return n > 0
}

type collector struct {
	w     *world
	rule  string
	out   []TypeList
	depth int
	seen  map[string]bool
}

func (c *collector) walkFunc(name string, fd *ast.FuncDecl, via string) {
	key := name + "|" + via
	if c.seen[key] || c.depth > 6 || fd.Body == nil {
		return
	}
	c.seen[key] = true
	c.depth++
	c.walk(name, fd.Body, via)
	c.depth--
}

// handlesRule: does the function (transitively, through plain calls) mention the rule as a case label,
// or hold no rule switch at all (then it applies whatever it is given)?
func (c *collector) handlesRule(fd *ast.FuncDecl, depth int) bool {
	if fd.Body == nil || depth > 4 {
		return false
	}
	hasSwitch, found := false, false
	ast.Inspect(fd.Body, func(n ast.Node) bool {
		switch x := n.(type) {
		case *ast.SwitchStmt:
			if isRuleSwitch(x) {
				hasSwitch = true
				for _, st := range x.Body.List {
					ls, _ := strLabels(st.(*ast.CaseClause))
					for _, l := range ls {
						if l == c.rule {
							found = true
						}
					}
				}
			}
		case *ast.CallExpr:
			if id, ok := x.Fun.(*ast.Ident); ok {
				if callee := c.w.funcs[id.Name]; callee != nil && callee != fd {
					if c.calleeHasRuleSwitch(callee) {
						hasSwitch = true
						if c.handlesRule(callee, depth+1) {
							found = true
						}
					}
				}
			}
		}
		return true
	})
	return found || !hasSwitch
}

func (c *collector) calleeHasRuleSwitch(fd *ast.FuncDecl) bool {
	has := false
	if fd.Body == nil {
		return false
	}
	ast.Inspect(fd.Body, func(n ast.Node) bool {
		if sw, ok := n.(*ast.SwitchStmt); ok && isRuleSwitch(sw) {
			has = true
		}
		return true
	})
	return has
}

func (c *collector) record(fn, via, form string, types []ast.Expr, pos token.Pos) {
	tl := TypeList{Func: fn, Via: via, Form: form, Line: fset.Position(pos).Line, Types: []string{}}
	for _, t := range types {
		name := text(t)
		// an interface case reaches the implementing types only if their method handles this rule
		if m, ok := c.w.ifaces[name]; ok {
			ok2 := false
			for _, md := range c.w.methods[m] {
				if c.handlesRule(md, 0) {
					ok2 = true
				}
			}
			if !ok2 {
				continue
			}
		}
		tl.Types = append(tl.Types, name)
	}
	c.out = append(c.out, tl)
}

func (c *collector) walk(fn string, n ast.Node, via string) {
	ast.Inspect(n, func(n ast.Node) bool {
		switch x := n.(type) {
		case *ast.SwitchStmt:
			if !isRuleSwitch(x) {
				return true
			}
			// descend only into the clause of this rule (default when no clause names it)
			var def, hit *ast.CaseClause
			for _, st := range x.Body.List {
				cc := st.(*ast.CaseClause)
				if cc.List == nil {
					def = cc
					continue
				}
				ls, _ := strLabels(cc)
				for _, l := range ls {
					if l == c.rule {
						hit = cc
					}
				}
			}
			if x.Init != nil {
				c.walk(fn, x.Init, via)
			}
			if hit == nil {
				hit = def
			}
			if hit != nil {
				for _, st := range hit.Body {
					c.walk(fn, st, via)
				}
			}
			return false
		case *ast.TypeSwitchStmt:
			var types []ast.Expr
			for _, st := range x.Body.List {
				cc := st.(*ast.CaseClause)
				types = append(types, cc.List...)
			}
			c.record(fn, via, "typeswitch", types, x.Pos())
			return true
		case *ast.TypeAssertExpr:
			if x.Type != nil {
				if _, isIface := x.Type.(*ast.InterfaceType); !isIface {
					c.record(fn, via, "assert", []ast.Expr{x.Type}, x.Pos())
				}
			}
			return true
		case *ast.CallExpr:
			if id, ok := x.Fun.(*ast.Ident); ok {
				if callee := c.w.funcs[id.Name]; callee != nil && strings.HasPrefix(id.Name, "apply") {
					c.walkFunc(id.Name, callee, via+">"+id.Name)
				}
			}
			return true
		}
		return true
	})
}

func main() {
	repo := flag.String("repo", "/repo", "library checkout")
	rules := flag.String("rules", "", "comma separated rule names")
	flag.Parse()
	dir := filepath.Join(*repo, "types")
	pkgs, err := parser.ParseDir(fset, dir, func(fi os.FileInfo) bool { return !strings.HasSuffix(fi.Name(), "_test.go") }, parser.SkipObjectResolution)
	if err != nil {
		fmt.Fprintln(os.Stderr, "parse:", err)
		os.Exit(2)
	}
	w := &world{funcs: map[string]*ast.FuncDecl{}, methods: map[string][]*ast.FuncDecl{}, ifaces: map[string]string{}}
	out := Out{Ctors: map[string]Ctor{}, Rules: map[string][]TypeList{}, Ifaces: map[string][]string{}, Embeds: map[string]string{}}
	for _, pkg := range pkgs {
		for fname, f := range pkg.Files {
			for _, d := range f.Decls {
				switch x := d.(type) {
				case *ast.FuncDecl:
					if x.Recv == nil {
						w.funcs[x.Name.Name] = x
						if x.Type.Results != nil && len(x.Type.Results.List) == 1 && ast.IsExported(x.Name.Name) {
							c := Ctor{Result: text(x.Type.Results.List[0].Type)}
							if x.Type.TypeParams != nil {
								for _, tp := range x.Type.TypeParams.List {
									for _, n := range tp.Names {
										c.TParams = append(c.TParams, n.Name)
									}
								}
							}
							out.Ctors[x.Name.Name] = c
						}
					} else {
						w.methods[x.Name.Name] = append(w.methods[x.Name.Name], x)
					}
				case *ast.GenDecl:
					for _, sp := range x.Specs {
						ts, ok := sp.(*ast.TypeSpec)
						if !ok {
							continue
						}
						switch t := ts.Type.(type) {
						case *ast.InterfaceType:
							// unexported single-method interfaces declared in struct.go: the dispatch interfaces of the tag code
							if filepath.Base(fname) == "struct.go" && t.Methods != nil && len(t.Methods.List) == 1 && len(t.Methods.List[0].Names) == 1 {
								w.ifaces[ts.Name.Name] = t.Methods.List[0].Names[0].Name
							}
						case *ast.StructType:
							if t.Fields != nil && len(t.Fields.List) >= 1 && len(t.Fields.List[0].Names) == 0 {
								e := t.Fields.List[0].Type
								if s, ok := e.(*ast.StarExpr); ok {
									e = s.X
								}
								if ix, ok := e.(*ast.IndexExpr); ok {
									e = ix.X
								}
								if ix, ok := e.(*ast.IndexListExpr); ok {
									e = ix.X
								}
								if id, ok := e.(*ast.Ident); ok && strings.HasPrefix(id.Name, "Zod") {
									out.Embeds[ts.Name.Name] = id.Name
								}
							}
						}
					}
				}
			}
		}
	}
	for iface, m := range w.ifaces {
		var heads []string
		for _, md := range w.methods[m] {
			if h := recvHead(md); h != "" {
				heads = append(heads, h)
			}
		}
		sort.Strings(heads)
		out.Ifaces[iface] = heads
	}

	// kinds: createSchemaFromTypeWithInfo
	fd := w.funcs["createSchemaFromTypeWithInfo"]
	if fd == nil {
		fmt.Fprintln(os.Stderr, "createSchemaFromTypeWithInfo not found")
		os.Exit(3)
	}
	ast.Inspect(fd.Body, func(n ast.Node) bool {
		sw, ok := n.(*ast.SwitchStmt)
		if !ok || sw.Tag == nil || !strings.HasSuffix(text(sw.Tag), ".Kind()") {
			return true
		}
		for _, st := range sw.Body.List {
			cc := st.(*ast.CaseClause)
			var kinds []string
			for _, e := range cc.List {
				kinds = append(kinds, strings.TrimPrefix(text(e), "reflect."))
			}
			if cc.List == nil {
				kinds = []string{"default"}
			}
			var rows []KindRow
			var visit func(stmts []ast.Stmt, ptr, coerce int) // -1 unknown, 0 false, 1 true
			visit = func(stmts []ast.Stmt, ptr, coerce int) {
				for _, s := range stmts {
					switch y := s.(type) {
					case *ast.AssignStmt:
						if len(y.Lhs) == 1 && text(y.Lhs[0]) == "schema" && len(y.Rhs) == 1 {
							if _, isCall := y.Rhs[0].(*ast.CallExpr); isCall {
								for _, p := range []int{0, 1} {
									for _, c := range []int{0, 1} {
										if (ptr == -1 || ptr == p) && (coerce == -1 || coerce == c) {
											rows = append(rows, KindRow{Ptr: p == 1, Coerce: c == 1, Expr: text(y.Rhs[0])})
										}
									}
								}
							}
						}
					case *ast.IfStmt:
						cond := text(y.Cond)
						p1, c1, p0, c0 := ptr, coerce, ptr, coerce
						switch cond {
						case "isPointer":
							p1, p0 = 1, 0
						case "hasCoerce":
							c1, c0 = 1, 0
						default:
							// other conditions (elemSchema != nil, fieldInfo.Required, …): both branches keep the flags
						}
						visit(y.Body.List, p1, c1)
						if y.Else != nil {
							switch e := y.Else.(type) {
							case *ast.BlockStmt:
								visit(e.List, p0, c0)
							case *ast.IfStmt:
								visit([]ast.Stmt{e}, p0, c0)
							}
						}
					case *ast.BlockStmt:
						visit(y.List, ptr, coerce)
					}
				}
			}
			visit(cc.Body, -1, -1)
			for _, k := range kinds {
				for _, r := range rows {
					r.Kind = k
					out.Kinds = append(out.Kinds, r)
				}
			}
		}
		return false
	})

	// elems: the element-kind switches of the slice / map helpers
	for _, name := range []string{"createSliceSchema", "createSlicePtrSchema", "createMapSchema", "createMapPtrSchema"} {
		fd := w.funcs[name]
		if fd == nil {
			fmt.Fprintln(os.Stderr, name, "not found")
			os.Exit(3)
		}
		for _, st := range fd.Body.List {
			switch x := st.(type) {
			case *ast.SwitchStmt:
				for _, cst := range x.Body.List {
					cc := cst.(*ast.CaseClause)
					expr := ""
					for _, s := range cc.Body {
						if r, ok := s.(*ast.ReturnStmt); ok && len(r.Results) == 1 {
							expr = text(r.Results[0])
						}
					}
					for _, e := range cc.List {
						out.Elems = append(out.Elems, ElemRow{Func: name, Kind: strings.TrimPrefix(text(e), "reflect."), Expr: expr})
					}
				}
			case *ast.ReturnStmt:
				if len(x.Results) == 1 {
					out.Elems = append(out.Elems, ElemRow{Func: name, Kind: "default", Expr: text(x.Results[0])})
				}
			}
		}
	}

	// rules
	root := w.funcs["applyParsedTagRules"]
	if root == nil {
		fmt.Fprintln(os.Stderr, "applyParsedTagRules not found")
		os.Exit(3)
	}
	ast.Inspect(root.Body, func(n ast.Node) bool {
		if sw, ok := n.(*ast.SwitchStmt); ok && isRuleSwitch(sw) && len(out.Labels) == 0 {
			for _, st := range sw.Body.List {
				ls, _ := strLabels(st.(*ast.CaseClause))
				out.Labels = append(out.Labels, ls...)
			}
			return false
		}
		return true
	})
	for _, r := range strings.Split(*rules, ",") {
		if r == "" {
			continue
		}
		c := &collector{w: w, rule: r, seen: map[string]bool{}}
		// the rule loop only: the statements of the `for _, rule := range fieldInfo.Rules` body
		ast.Inspect(root.Body, func(n ast.Node) bool {
			if rs, ok := n.(*ast.RangeStmt); ok && strings.HasSuffix(text(rs.X), ".Rules") {
				c.walk("applyParsedTagRules", rs.Body, "applyParsedTagRules")
				return false
			}
			return true
		})
		if c.out == nil {
			c.out = []TypeList{}
		}
		out.Rules[r] = c.out
	}
	enc := json.NewEncoder(os.Stdout)
	enc.SetIndent("", " ")
	_ = enc.Encode(out)
}
