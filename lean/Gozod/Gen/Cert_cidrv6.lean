/- GENERATED: no certificate exists for cidrv6: the pattern and the specification differ on the byte string (hex) 666538303a25302f30 (pattern true, specification false). -/
