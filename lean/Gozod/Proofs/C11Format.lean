/-
  C11 — `format` documents (AUDIT-B H6): the schema FromJSONSchema builds for `{"type":"string","format":F}` accepts
  exactly the strings of the format's DEFINITION, and the pattern ToJSONSchema writes back matches the same strings —
  stated against C20's spec automata (Model/FormatSpec*.lean: written from the RFCs, independently of the library's
  regexes and parsers), by IMPORTING C20's theorems (bisimulation certificates over the regenerated regexes).
  Where the code falsifies the statement: `_partial` + witness.
-/
import Gozod.Model.FromJsonFormat
import Gozod.Proofs.C20
import Gozod.Proofs.C20Parsers
import Gozod.Proofs.C20Rfc3339
import Gozod.Proofs.C20IsoTime
import Gozod.Proofs.C20Netip6
import Gozod.Proofs.C20V6Dot
import Gozod.Proofs.C20DateTime
namespace Gozod.C11
open Gozod Gozod.Jsc Gozod.Re Gozod.Fmt Gozod.C20

/-! ### the rows of C20's regenerated table the model reads (an edit of the table changes these obligations) -/

theorem entry_ipv4 : FId.ipv4.entry = some ⟨Gen.kind_ipv4, [Gen.val_ipv4], [Gen.pat_ipv4]⟩ := rfl
theorem entry_uuid : FId.uuid.entry = some ⟨Gen.kind_uuid, [Gen.val_uuid], [Gen.pat_uuid]⟩ := rfl
theorem entry_date : FId.date.entry = some ⟨Gen.kind_isodate, [], [Gen.pat_isodate]⟩ := rfl
theorem entry_dateTime : FId.dateTime.entry = some ⟨Gen.kind_isodatetime, [Gen.val_isodatetime], [Gen.pat_isodatetime]⟩ := rfl
theorem entry_time : FId.time.entry = some ⟨Gen.kind_isotime, [Gen.val_isotime], [Gen.pat_isotime]⟩ := rfl
theorem entry_ipv6 : FId.ipv6.entry = some ⟨Gen.kind_ipv6, [], [Gen.pat_ipv6]⟩ := rfl

/-! ### Parse: the dedicated schema's validator against the format's definition -/

theorem parses_ipv4 (s : List Nat) : FId.ipv4.parses s = some (Fmt.ipv4.run s) := by
  simp [FId.parses, entry_ipv4, FId.parser, c20_ipv4 s]

theorem parses_uuid (s : List Nat) : FId.uuid.parses s = some ((Fmt.uuid none).run s) := by
  simp [FId.parses, entry_uuid, FId.parser, c20_uuid s]

theorem parses_date (s : List Nat) : FId.date.parses s = some (Fmt.isoDate.run s) := by
  simp [FId.parses, entry_date, FId.parser, c20_isodate s]

theorem parses_dateTime (s : List Nat) : FId.dateTime.parses s = some ((Fmt.isoDateTime false).run s) := by
  simp [FId.parses, entry_dateTime, FId.parser, c20_isodatetime s]

theorem parses_time (s : List Nat) : FId.time.parses s = some ((Fmt.isoTimeOpt .any).run s) := by
  simp [FId.parses, entry_time, FId.parser, c20_isotime s]

theorem parses_ipv6 (s : List Nat) : FId.ipv6.parses s = some (Fmt.ipv6.run s) := by
  simp [FId.parses, entry_ipv6, FId.parser, c20_ipv6_netip s]

/-- the DEFINITION of the JSON Schema format (Draft 2020-12 §7.3), where C20 has a spec automaton for it: ipv4 (RFC 2673
    dotted quad), ipv6 (RFC 4291 §2.2), date (RFC 3339 full-date), date-time (RFC 3339 date-time, upper-case `T`/`Z`, no
    leap second), uuid (RFC 4122 §3: the 8-4-4-4-12 hexadecimal layout — `Fmt.guid`).  `time` (RFC 3339 full-time, WITH
    an offset), `email`, `uri`: no automaton — decided by the run against the independent validator. -/
def _root_.Gozod.Jsc.FId.spec : FId → Option Spec
  | .ipv4 => some Fmt.ipv4
  | .ipv6 => some Fmt.ipv6
  | .date => some Fmt.isoDate
  | .dateTime => some (Fmt.isoDateTime false)
  | .uuid => some Fmt.guid
  | .time => none | .email => none | .url => none

/-- C11 for format documents at full strength: the produced schema accepts exactly the strings of the format. -/
def c11_format_full : Prop := ∀ (f : FId) (S : Spec), f.spec = some S → ∀ s, f.parses s = some (S.run s)

/-- the formats whose dedicated schema IS the JSON Schema format. -/
def fmtGood : FId → Bool
  | .ipv4 => true | .ipv6 => true | .date => true | .dateTime => true | _ => false

theorem c11_format_equiv_partial (f : FId) (h : fmtGood f = true) (s : List Nat) :
    ∃ S, f.spec = some S ∧ f.parses s = some (S.run s) := by
  cases f <;> simp [fmtGood] at h
  · exact ⟨_, rfl, parses_dateTime s⟩
  · exact ⟨_, rfl, parses_date s⟩
  · exact ⟨_, rfl, parses_ipv4 s⟩
  · exact ⟨_, rfl, parses_ipv6 s⟩

example : fmtGood .dateTime = true ∧ FId.dateTime.parses (b! "2024-02-29T12:30:00+08:00") = some true := by
  refine ⟨rfl, ?_⟩; rw [parses_dateTime]; decide +kernel

/-- `{format: uuid}` becomes UUID(), which also demands a version nibble 1–8 and an RFC 4122 variant (or the nil UUID):
    narrower than the format (finding parse:format-uuid). -/
theorem witness_format_uuid_narrower :
    FId.uuid.parses (b! "ffffffff-ffff-ffff-ffff-ffffffffffff") = some false
    ∧ Fmt.guid.run (b! "ffffffff-ffff-ffff-ffff-ffffffffffff") = true
    ∧ FId.uuid.parses (b! "123e4567-e89b-92d3-a456-426614174000") = some false
    ∧ Fmt.guid.run (b! "123e4567-e89b-92d3-a456-426614174000") = true := by
  simp only [parses_uuid]; decide +kernel

theorem c11_format_full_false : ¬ c11_format_full := fun h => by
  have := h .uuid Fmt.guid rfl (b! "ffffffff-ffff-ffff-ffff-ffffffffffff")
  rw [witness_format_uuid_narrower.1, witness_format_uuid_narrower.2.1] at this
  exact absurd this (by decide)

/-- `{format: time}` becomes IsoTime(): hh:mm[:ss[.fff]] WITHOUT an offset, whereas the format (RFC 3339 full-time)
    REQUIRES one: "12:30:00Z" is rejected, "12:30:00" and "12:30" are accepted (finding parse:format-time). -/
theorem witness_format_time_no_offset :
    FId.time.parses (b! "12:30:00Z") = some false ∧ FId.time.parses (b! "12:30:00+08:00") = some false
    ∧ FId.time.parses (b! "12:30:00") = some true ∧ FId.time.parses (b! "12:30") = some true := by
  simp only [parses_time]; decide +kernel

/-! ### Round trip: `{type:string, format:<bag name>, pattern:<exported pattern>}` -/

theorem patOK_ipv4 (s : List Nat) : FId.ipv4.patOK s = some (Fmt.ipv4.run s) := by
  simp [FId.patOK, entry_ipv4, c20_ipv4_pattern s]

theorem patOK_uuid (s : List Nat) : FId.uuid.patOK s = some ((Fmt.uuid none).run s) := by
  simp [FId.patOK, entry_uuid, c20_uuid_pattern s]

theorem patOK_date (s : List Nat) : FId.date.patOK s = some (Fmt.isoDate.run s) := by
  simp [FId.patOK, entry_date, c20_isodate_pattern s]

theorem patOK_time (s : List Nat) : FId.time.patOK s = some ((Fmt.isoTimeOpt .any).run s) := by
  simp [FId.patOK, entry_time, c20_isotime_pattern s]

/-- the exported date-time pattern is RFC 3339 with OPTIONAL seconds (C20's finding). -/
theorem patOK_dateTime (s : List Nat) : FId.dateTime.patOK s = some ((Fmt.isoDateTime true).run s) := by
  simp [FId.patOK, entry_dateTime, c20_isodatetime_pattern_optsec_full s]

theorem patOK_ipv6_partial (s : List Nat) (h : avoids [46, 37] s = true) : FId.ipv6.patOK s = some (Fmt.ipv6.run s) := by
  simp [FId.patOK, entry_ipv6, c20_ipv6_pattern_partial s h]

/-- the round trip at full strength: the document ToJSONSchema writes validates exactly the strings of the format
    (`S.run s` is also the validator's verdict on the original format keyword). -/
def c11_format_roundtrip_full : Prop :=
  ∀ (f : FId) (S : Spec), f.spec = some S → ∀ s, rtFmtValid f (S.run s) s = some (S.run s)

/-- it holds for ipv4 … -/
theorem c11_format_roundtrip_ipv4 (s : List Nat) : rtFmtValid .ipv4 (Fmt.ipv4.run s) s = some (Fmt.ipv4.run s) := by
  simp [rtFmtValid, patOK_ipv4, FId.nameKept, FId.emitName, FId.jsonName]

/-- … and for ipv6 on the strings without a dotted quad and without a zone (C20's excluded region of `regex.IPv6`). -/
theorem c11_format_roundtrip_ipv6_partial (s : List Nat) (h : avoids [46, 37] s = true) :
    rtFmtValid .ipv6 (Fmt.ipv6.run s) s = some (Fmt.ipv6.run s) := by
  simp [rtFmtValid, patOK_ipv6_partial s h, FId.nameKept, FId.emitName, FId.jsonName]

example : avoids [46, 37] (b! "2001:db8::8a2e:370:7334") = true ∧ Fmt.ipv6.run (b! "2001:db8::8a2e:370:7334") = true := by
  decide +kernel

/-- IsoDate() / IsoDateTime() / IsoTime() come back with the INTERNAL check name as `format` ("iso_date", "iso_datetime",
    "iso_time"): no JSON Schema format, so under format assertion the round-trip document validates nothing — although
    the pattern next to it is the definition (finding roundtrip:format-name-internal; to_test.go pins the names). -/
theorem witness_format_name_internal (v : Bool) (s : List Nat) :
    rtFmtValid .date v s = some false ∧ rtFmtValid .dateTime v s = some false ∧ rtFmtValid .time v s = some false
    ∧ FId.date.patOK s = some (Fmt.isoDate.run s) := by
  refine ⟨?_, ?_, ?_, patOK_date s⟩ <;>
    simp [rtFmtValid, patOK_date, patOK_dateTime, patOK_time, FId.nameKept, FId.emitName, FId.jsonName]

/-- six groups followed by a dotted quad: a valid IPv6 address the exported pattern refuses (C20's `c20_ipv6_witnesses`). -/
theorem witness_format_ipv6_roundtrip :
    Fmt.ipv6.run (b! "1:2:3:4:5:6:1.2.3.4") = true ∧ rtFmtValid .ipv6 true (b! "1:2:3:4:5:6:1.2.3.4") = some false := by
  refine ⟨c20_ipv6_witnesses.2.2.2.2.2, ?_⟩
  simp [rtFmtValid, FId.patOK, entry_ipv6, c20_ipv6_witnesses.2.2.2.2.1]

theorem c11_format_roundtrip_full_false : ¬ c11_format_roundtrip_full := fun h => by
  have := h .date Fmt.isoDate rfl (b! "2024-02-29")
  rw [(witness_format_name_internal _ _).1] at this
  exact absurd this (by decide +kernel)

/-- `getFormatSchema` on the names the docs list, and the fall-back. -/
theorem getFormatSchema_table :
    ["email", "uuid", "uri", "url", "date-time", "date", "time", "ipv4", "ipv6", "hostname", "duration"].map getFormatSchema
      = [some .email, some .uuid, some .url, some .url, some .dateTime, some .date, some .time, some .ipv4, some .ipv6, none, none] := by
  decide

end Gozod.C11
