-- REGENERATED on every `./check C06|C13` run by vlib/c06.py from the behaviour of gozod.FromStruct. DO NOT EDIT.
import Gozod.Model.Tags
namespace Gozod.Gen
open Gozod.Tags

def tagBlock0 : Block where
  fty := ⟨false, .string⟩
  probes := [.str .plain 19, .str .plain 20, .str .plain 21, .str .plain 25, .str .plain 26, .str .plain 30, .str .plain 31, .str .plain 36, .str .plain 37, .str .other 19, .str .other 20, .str .other 21, .str .other 25, .str .other 26, .str .other 30, .str .other 31, .str .other 36, .str .other 37, .str .email 19, .str .email 20, .str .email 21, .str .email 25, .str .email 26, .str .email 30, .str .email 31, .str .email 36, .str .email 37, .str .url 19, .str .url 20, .str .url 21, .str .url 25, .str .url 26, .str .url 30, .str .url 31, .str .url 36, .str .url 37, .str .uuid 36]
  singles := [
    (.required, [true, true, true, true, true, true, true, true, true, true, true, true, true, true, true, true, true, true, true, true, true, true, true, true, true, true, true, true, true, true, true, true, true, true, true, true, true]),
    (.min 20, [false, true, true, true, true, true, true, true, true, false, true, true, true, true, true, true, true, true, false, true, true, true, true, true, true, true, true, false, true, true, true, true, true, true, true, true, true]),
    (.max 30, [true, true, true, true, true, true, false, false, false, true, true, true, true, true, true, false, false, false, true, true, true, true, true, true, false, false, false, true, true, true, true, true, true, false, false, false, false]),
    (.length 25, [false, false, false, true, false, false, false, false, false, false, false, false, true, false, false, false, false, false, false, false, false, true, false, false, false, false, false, false, false, false, true, false, false, false, false, false, false]),
    (.email, [false, false, false, false, false, false, false, false, false, false, false, false, false, false, false, false, false, false, true, true, true, true, true, true, true, true, true, false, false, false, false, false, false, false, false, false, false]),
    (.url, [false, false, false, false, false, false, false, false, false, false, false, false, false, false, false, false, false, false, false, false, false, false, false, false, false, false, false, true, true, true, true, true, true, true, true, true, false]),
    (.uuid, [false, false, false, false, false, false, false, false, false, false, false, false, false, false, false, false, false, false, false, false, false, false, false, false, false, false, false, false, false, false, false, false, false, false, false, false, true]),
    (.regex, [true, true, true, true, true, true, true, true, true, false, false, false, false, false, false, false, false, false, false, false, false, false, false, false, false, false, false, false, false, false, false, false, false, false, false, false, false]),
    (.min 37, [false, false, false, false, false, false, false, false, true, false, false, false, false, false, false, false, false, true, false, false, false, false, false, false, false, false, true, false, false, false, false, false, false, false, false, true, false])
  ]
  pairs := [
    (.required, .min 20, [false, true, true, true, true, true, true, true, true, false, true, true, true, true, true, true, true, true, false, true, true, true, true, true, true, true, true, false, true, true, true, true, true, true, true, true, true], [false, true, true, true, true, true, true, true, true, false, true, true, true, true, true, true, true, true, false, true, true, true, true, true, true, true, true, false, true, true, true, true, true, true, true, true, true]),
    (.required, .max 30, [true, true, true, true, true, true, false, false, false, true, true, true, true, true, true, false, false, false, true, true, true, true, true, true, false, false, false, true, true, true, true, true, true, false, false, false, false], [true, true, true, true, true, true, false, false, false, true, true, true, true, true, true, false, false, false, true, true, true, true, true, true, false, false, false, true, true, true, true, true, true, false, false, false, false]),
    (.required, .length 25, [false, false, false, true, false, false, false, false, false, false, false, false, true, false, false, false, false, false, false, false, false, true, false, false, false, false, false, false, false, false, true, false, false, false, false, false, false], [false, false, false, true, false, false, false, false, false, false, false, false, true, false, false, false, false, false, false, false, false, true, false, false, false, false, false, false, false, false, true, false, false, false, false, false, false]),
    (.required, .email, [false, false, false, false, false, false, false, false, false, false, false, false, false, false, false, false, false, false, true, true, true, true, true, true, true, true, true, false, false, false, false, false, false, false, false, false, false], [false, false, false, false, false, false, false, false, false, false, false, false, false, false, false, false, false, false, true, true, true, true, true, true, true, true, true, false, false, false, false, false, false, false, false, false, false]),
    (.required, .url, [false, false, false, false, false, false, false, false, false, false, false, false, false, false, false, false, false, false, false, false, false, false, false, false, false, false, false, true, true, true, true, true, true, true, true, true, false], [false, false, false, false, false, false, false, false, false, false, false, false, false, false, false, false, false, false, false, false, false, false, false, false, false, false, false, true, true, true, true, true, true, true, true, true, false]),
    (.required, .uuid, [false, false, false, false, false, false, false, false, false, false, false, false, false, false, false, false, false, false, false, false, false, false, false, false, false, false, false, false, false, false, false, false, false, false, false, false, true], [false, false, false, false, false, false, false, false, false, false, false, false, false, false, false, false, false, false, false, false, false, false, false, false, false, false, false, false, false, false, false, false, false, false, false, false, true]),
    (.required, .regex, [true, true, true, true, true, true, true, true, true, false, false, false, false, false, false, false, false, false, false, false, false, false, false, false, false, false, false, false, false, false, false, false, false, false, false, false, false], [true, true, true, true, true, true, true, true, true, false, false, false, false, false, false, false, false, false, false, false, false, false, false, false, false, false, false, false, false, false, false, false, false, false, false, false, false]),
    (.min 20, .max 30, [false, true, true, true, true, true, false, false, false, false, true, true, true, true, true, false, false, false, false, true, true, true, true, true, false, false, false, false, true, true, true, true, true, false, false, false, false], [false, true, true, true, true, true, false, false, false, false, true, true, true, true, true, false, false, false, false, true, true, true, true, true, false, false, false, false, true, true, true, true, true, false, false, false, false]),
    (.min 20, .length 25, [false, false, false, true, false, false, false, false, false, false, false, false, true, false, false, false, false, false, false, false, false, true, false, false, false, false, false, false, false, false, true, false, false, false, false, false, false], [false, false, false, true, false, false, false, false, false, false, false, false, true, false, false, false, false, false, false, false, false, true, false, false, false, false, false, false, false, false, true, false, false, false, false, false, false]),
    (.min 20, .email, [false, false, false, false, false, false, false, false, false, false, false, false, false, false, false, false, false, false, false, true, true, true, true, true, true, true, true, false, false, false, false, false, false, false, false, false, false], [false, false, false, false, false, false, false, false, false, false, false, false, false, false, false, false, false, false, false, true, true, true, true, true, true, true, true, false, false, false, false, false, false, false, false, false, false]),
    (.min 20, .url, [false, false, false, false, false, false, false, false, false, false, false, false, false, false, false, false, false, false, false, false, false, false, false, false, false, false, false, false, true, true, true, true, true, true, true, true, false], [false, false, false, false, false, false, false, false, false, false, false, false, false, false, false, false, false, false, false, false, false, false, false, false, false, false, false, false, true, true, true, true, true, true, true, true, false]),
    (.min 20, .uuid, [false, false, false, false, false, false, false, false, false, false, false, false, false, false, false, false, false, false, false, false, false, false, false, false, false, false, false, false, false, false, false, false, false, false, false, false, true], [false, false, false, false, false, false, false, false, false, false, false, false, false, false, false, false, false, false, false, false, false, false, false, false, false, false, false, false, false, false, false, false, false, false, false, false, true]),
    (.min 20, .regex, [false, true, true, true, true, true, true, true, true, false, false, false, false, false, false, false, false, false, false, false, false, false, false, false, false, false, false, false, false, false, false, false, false, false, false, false, false], [false, true, true, true, true, true, true, true, true, false, false, false, false, false, false, false, false, false, false, false, false, false, false, false, false, false, false, false, false, false, false, false, false, false, false, false, false]),
    (.max 30, .length 25, [false, false, false, true, false, false, false, false, false, false, false, false, true, false, false, false, false, false, false, false, false, true, false, false, false, false, false, false, false, false, true, false, false, false, false, false, false], [false, false, false, true, false, false, false, false, false, false, false, false, true, false, false, false, false, false, false, false, false, true, false, false, false, false, false, false, false, false, true, false, false, false, false, false, false]),
    (.max 30, .email, [false, false, false, false, false, false, false, false, false, false, false, false, false, false, false, false, false, false, true, true, true, true, true, true, false, false, false, false, false, false, false, false, false, false, false, false, false], [false, false, false, false, false, false, false, false, false, false, false, false, false, false, false, false, false, false, true, true, true, true, true, true, false, false, false, false, false, false, false, false, false, false, false, false, false]),
    (.max 30, .url, [false, false, false, false, false, false, false, false, false, false, false, false, false, false, false, false, false, false, false, false, false, false, false, false, false, false, false, true, true, true, true, true, true, false, false, false, false], [false, false, false, false, false, false, false, false, false, false, false, false, false, false, false, false, false, false, false, false, false, false, false, false, false, false, false, true, true, true, true, true, true, false, false, false, false]),
    (.max 30, .uuid, [false, false, false, false, false, false, false, false, false, false, false, false, false, false, false, false, false, false, false, false, false, false, false, false, false, false, false, false, false, false, false, false, false, false, false, false, false], [false, false, false, false, false, false, false, false, false, false, false, false, false, false, false, false, false, false, false, false, false, false, false, false, false, false, false, false, false, false, false, false, false, false, false, false, false]),
    (.max 30, .regex, [true, true, true, true, true, true, false, false, false, false, false, false, false, false, false, false, false, false, false, false, false, false, false, false, false, false, false, false, false, false, false, false, false, false, false, false, false], [true, true, true, true, true, true, false, false, false, false, false, false, false, false, false, false, false, false, false, false, false, false, false, false, false, false, false, false, false, false, false, false, false, false, false, false, false]),
    (.length 25, .email, [false, false, false, false, false, false, false, false, false, false, false, false, false, false, false, false, false, false, false, false, false, true, false, false, false, false, false, false, false, false, false, false, false, false, false, false, false], [false, false, false, false, false, false, false, false, false, false, false, false, false, false, false, false, false, false, false, false, false, true, false, false, false, false, false, false, false, false, false, false, false, false, false, false, false]),
    (.length 25, .url, [false, false, false, false, false, false, false, false, false, false, false, false, false, false, false, false, false, false, false, false, false, false, false, false, false, false, false, false, false, false, true, false, false, false, false, false, false], [false, false, false, false, false, false, false, false, false, false, false, false, false, false, false, false, false, false, false, false, false, false, false, false, false, false, false, false, false, false, true, false, false, false, false, false, false]),
    (.length 25, .uuid, [false, false, false, false, false, false, false, false, false, false, false, false, false, false, false, false, false, false, false, false, false, false, false, false, false, false, false, false, false, false, false, false, false, false, false, false, false], [false, false, false, false, false, false, false, false, false, false, false, false, false, false, false, false, false, false, false, false, false, false, false, false, false, false, false, false, false, false, false, false, false, false, false, false, false]),
    (.length 25, .regex, [false, false, false, true, false, false, false, false, false, false, false, false, false, false, false, false, false, false, false, false, false, false, false, false, false, false, false, false, false, false, false, false, false, false, false, false, false], [false, false, false, true, false, false, false, false, false, false, false, false, false, false, false, false, false, false, false, false, false, false, false, false, false, false, false, false, false, false, false, false, false, false, false, false, false]),
    (.email, .url, [false, false, false, false, false, false, false, false, false, false, false, false, false, false, false, false, false, false, false, false, false, false, false, false, false, false, false, false, false, false, false, false, false, false, false, false, false], [false, false, false, false, false, false, false, false, false, false, false, false, false, false, false, false, false, false, false, false, false, false, false, false, false, false, false, false, false, false, false, false, false, false, false, false, false]),
    (.email, .uuid, [false, false, false, false, false, false, false, false, false, false, false, false, false, false, false, false, false, false, false, false, false, false, false, false, false, false, false, false, false, false, false, false, false, false, false, false, false], [false, false, false, false, false, false, false, false, false, false, false, false, false, false, false, false, false, false, false, false, false, false, false, false, false, false, false, false, false, false, false, false, false, false, false, false, false]),
    (.email, .regex, [false, false, false, false, false, false, false, false, false, false, false, false, false, false, false, false, false, false, false, false, false, false, false, false, false, false, false, false, false, false, false, false, false, false, false, false, false], [false, false, false, false, false, false, false, false, false, false, false, false, false, false, false, false, false, false, false, false, false, false, false, false, false, false, false, false, false, false, false, false, false, false, false, false, false]),
    (.url, .uuid, [false, false, false, false, false, false, false, false, false, false, false, false, false, false, false, false, false, false, false, false, false, false, false, false, false, false, false, false, false, false, false, false, false, false, false, false, false], [false, false, false, false, false, false, false, false, false, false, false, false, false, false, false, false, false, false, false, false, false, false, false, false, false, false, false, false, false, false, false, false, false, false, false, false, false]),
    (.url, .regex, [false, false, false, false, false, false, false, false, false, false, false, false, false, false, false, false, false, false, false, false, false, false, false, false, false, false, false, false, false, false, false, false, false, false, false, false, false], [false, false, false, false, false, false, false, false, false, false, false, false, false, false, false, false, false, false, false, false, false, false, false, false, false, false, false, false, false, false, false, false, false, false, false, false, false]),
    (.uuid, .regex, [false, false, false, false, false, false, false, false, false, false, false, false, false, false, false, false, false, false, false, false, false, false, false, false, false, false, false, false, false, false, false, false, false, false, false, false, false], [false, false, false, false, false, false, false, false, false, false, false, false, false, false, false, false, false, false, false, false, false, false, false, false, false, false, false, false, false, false, false, false, false, false, false, false, false]),
    (.min 37, .uuid, [false, false, false, false, false, false, false, false, false, false, false, false, false, false, false, false, false, false, false, false, false, false, false, false, false, false, false, false, false, false, false, false, false, false, false, false, false], [false, false, false, false, false, false, false, false, false, false, false, false, false, false, false, false, false, false, false, false, false, false, false, false, false, false, false, false, false, false, false, false, false, false, false, false, false])
  ]

def tagBlock1 : Block where
  fty := ⟨false, .int⟩
  probes := [.num (-4), .num (-2), .num 0, .num 2, .num 4, .num 6, .num 8, .num 10, .num 12, .num 18014398509481984, .num 18014398509481986, .num 18014398509481988, .num 18446744073709551612, .num 18446744073709551614, .num (-18446744073709551616), .num (-18446744073709551614)]
  singles := [
    (.required, [true, true, true, true, true, true, true, true, true, true, true, true, true, true, true, true]),
    (.min 3, [false, false, false, false, false, true, true, true, true, true, true, true, true, true, false, false]),
    (.max 5, [true, true, true, true, true, true, true, true, false, false, false, false, false, false, true, true]),
    (.positive, [false, false, false, true, true, true, true, true, true, true, true, true, true, true, false, false]),
    (.negative, [true, true, false, false, false, false, false, false, false, false, false, false, false, false, true, true]),
    (.nonnegative, [false, false, true, true, true, true, true, true, true, true, true, true, true, true, false, false]),
    (.nonpositive, [true, true, true, false, false, false, false, false, false, false, false, false, false, false, true, true]),
    (.min 9007199254740993, [false, false, false, false, false, false, false, false, false, false, true, true, true, true, false, false]),
    (.max 9007199254740993, [true, true, true, true, true, true, true, true, true, true, true, false, false, false, true, true]),
    (.min 9223372036854775807, [false, false, false, false, false, false, false, false, false, false, false, false, false, true, false, false]),
    (.max 9223372036854775807, [true, true, true, true, true, true, true, true, true, true, true, true, true, true, true, true]),
    (.min (-9223372036854775808), [true, true, true, true, true, true, true, true, true, true, true, true, true, true, true, true]),
    (.max (-9223372036854775808), [false, false, false, false, false, false, false, false, false, false, false, false, false, false, true, false]),
    (.gt 9007199254740993, [false, false, false, false, false, false, false, false, false, false, false, true, true, true, false, false]),
    (.gte 9007199254740993, [false, false, false, false, false, false, false, false, false, false, true, true, true, true, false, false]),
    (.lt 9007199254740993, [true, true, true, true, true, true, true, true, true, true, false, false, false, false, true, true]),
    (.lte 9007199254740993, [true, true, true, true, true, true, true, true, true, true, true, false, false, false, true, true]),
    (.gt 3, [false, false, false, false, false, false, true, true, true, true, true, true, true, true, false, false]),
    (.gte 3, [false, false, false, false, false, true, true, true, true, true, true, true, true, true, false, false]),
    (.lt 5, [true, true, true, true, true, true, true, false, false, false, false, false, false, false, true, true]),
    (.lte 5, [true, true, true, true, true, true, true, true, false, false, false, false, false, false, true, true])
  ]
  pairs := [
    (.required, .min 3, [false, false, false, false, false, true, true, true, true, true, true, true, true, true, false, false], [false, false, false, false, false, true, true, true, true, true, true, true, true, true, false, false]),
    (.required, .max 5, [true, true, true, true, true, true, true, true, false, false, false, false, false, false, true, true], [true, true, true, true, true, true, true, true, false, false, false, false, false, false, true, true]),
    (.required, .positive, [false, false, false, true, true, true, true, true, true, true, true, true, true, true, false, false], [false, false, false, true, true, true, true, true, true, true, true, true, true, true, false, false]),
    (.required, .negative, [true, true, false, false, false, false, false, false, false, false, false, false, false, false, true, true], [true, true, false, false, false, false, false, false, false, false, false, false, false, false, true, true]),
    (.required, .nonnegative, [false, false, true, true, true, true, true, true, true, true, true, true, true, true, false, false], [false, false, true, true, true, true, true, true, true, true, true, true, true, true, false, false]),
    (.required, .nonpositive, [true, true, true, false, false, false, false, false, false, false, false, false, false, false, true, true], [true, true, true, false, false, false, false, false, false, false, false, false, false, false, true, true]),
    (.min 3, .max 5, [false, false, false, false, false, true, true, true, false, false, false, false, false, false, false, false], [false, false, false, false, false, true, true, true, false, false, false, false, false, false, false, false]),
    (.min 3, .positive, [false, false, false, false, false, true, true, true, true, true, true, true, true, true, false, false], [false, false, false, false, false, true, true, true, true, true, true, true, true, true, false, false]),
    (.min 3, .negative, [false, false, false, false, false, false, false, false, false, false, false, false, false, false, false, false], [false, false, false, false, false, false, false, false, false, false, false, false, false, false, false, false]),
    (.min 3, .nonnegative, [false, false, false, false, false, true, true, true, true, true, true, true, true, true, false, false], [false, false, false, false, false, true, true, true, true, true, true, true, true, true, false, false]),
    (.min 3, .nonpositive, [false, false, false, false, false, false, false, false, false, false, false, false, false, false, false, false], [false, false, false, false, false, false, false, false, false, false, false, false, false, false, false, false]),
    (.max 5, .positive, [false, false, false, true, true, true, true, true, false, false, false, false, false, false, false, false], [false, false, false, true, true, true, true, true, false, false, false, false, false, false, false, false]),
    (.max 5, .negative, [true, true, false, false, false, false, false, false, false, false, false, false, false, false, true, true], [true, true, false, false, false, false, false, false, false, false, false, false, false, false, true, true]),
    (.max 5, .nonnegative, [false, false, true, true, true, true, true, true, false, false, false, false, false, false, false, false], [false, false, true, true, true, true, true, true, false, false, false, false, false, false, false, false]),
    (.max 5, .nonpositive, [true, true, true, false, false, false, false, false, false, false, false, false, false, false, true, true], [true, true, true, false, false, false, false, false, false, false, false, false, false, false, true, true]),
    (.positive, .negative, [false, false, false, false, false, false, false, false, false, false, false, false, false, false, false, false], [false, false, false, false, false, false, false, false, false, false, false, false, false, false, false, false]),
    (.positive, .nonnegative, [false, false, false, true, true, true, true, true, true, true, true, true, true, true, false, false], [false, false, false, true, true, true, true, true, true, true, true, true, true, true, false, false]),
    (.positive, .nonpositive, [false, false, false, false, false, false, false, false, false, false, false, false, false, false, false, false], [false, false, false, false, false, false, false, false, false, false, false, false, false, false, false, false]),
    (.negative, .nonnegative, [false, false, false, false, false, false, false, false, false, false, false, false, false, false, false, false], [false, false, false, false, false, false, false, false, false, false, false, false, false, false, false, false]),
    (.negative, .nonpositive, [true, true, false, false, false, false, false, false, false, false, false, false, false, false, true, true], [true, true, false, false, false, false, false, false, false, false, false, false, false, false, true, true]),
    (.nonnegative, .nonpositive, [false, false, true, false, false, false, false, false, false, false, false, false, false, false, false, false], [false, false, true, false, false, false, false, false, false, false, false, false, false, false, false, false])
  ]

def tagBlock2 : Block where
  fty := ⟨false, .int8⟩
  probes := [.num (-4), .num (-2), .num 0, .num 2, .num 4, .num 6, .num 8, .num 10, .num 12, .num 252, .num 254, .num (-256), .num (-254)]
  singles := [
    (.required, [true, true, true, true, true, true, true, true, true, true, true, true, true]),
    (.min 3, [false, false, false, false, false, true, true, true, true, true, true, false, false]),
    (.max 5, [true, true, true, true, true, true, true, true, false, false, false, true, true]),
    (.positive, [false, false, false, true, true, true, true, true, true, true, true, false, false]),
    (.negative, [true, true, false, false, false, false, false, false, false, false, false, true, true]),
    (.nonnegative, [false, false, true, true, true, true, true, true, true, true, true, false, false]),
    (.nonpositive, [true, true, true, false, false, false, false, false, false, false, false, true, true]),
    (.min 127, [false, false, false, false, false, false, false, false, false, false, true, false, false]),
    (.max 127, [true, true, true, true, true, true, true, true, true, true, true, true, true]),
    (.min (-128), [true, true, true, true, true, true, true, true, true, true, true, true, true]),
    (.max (-128), [false, false, false, false, false, false, false, false, false, false, false, true, false]),
    (.gt 3, [false, false, false, false, false, false, true, true, true, true, true, false, false]),
    (.gte 3, [false, false, false, false, false, true, true, true, true, true, true, false, false]),
    (.lt 5, [true, true, true, true, true, true, true, false, false, false, false, true, true]),
    (.lte 5, [true, true, true, true, true, true, true, true, false, false, false, true, true])
  ]
  pairs := [
    (.required, .min 3, [false, false, false, false, false, true, true, true, true, true, true, false, false], [false, false, false, false, false, true, true, true, true, true, true, false, false]),
    (.required, .max 5, [true, true, true, true, true, true, true, true, false, false, false, true, true], [true, true, true, true, true, true, true, true, false, false, false, true, true]),
    (.required, .positive, [false, false, false, true, true, true, true, true, true, true, true, false, false], [false, false, false, true, true, true, true, true, true, true, true, false, false]),
    (.required, .negative, [true, true, false, false, false, false, false, false, false, false, false, true, true], [true, true, false, false, false, false, false, false, false, false, false, true, true]),
    (.required, .nonnegative, [false, false, true, true, true, true, true, true, true, true, true, false, false], [false, false, true, true, true, true, true, true, true, true, true, false, false]),
    (.required, .nonpositive, [true, true, true, false, false, false, false, false, false, false, false, true, true], [true, true, true, false, false, false, false, false, false, false, false, true, true]),
    (.min 3, .max 5, [false, false, false, false, false, true, true, true, false, false, false, false, false], [false, false, false, false, false, true, true, true, false, false, false, false, false]),
    (.min 3, .positive, [false, false, false, false, false, true, true, true, true, true, true, false, false], [false, false, false, false, false, true, true, true, true, true, true, false, false]),
    (.min 3, .negative, [false, false, false, false, false, false, false, false, false, false, false, false, false], [false, false, false, false, false, false, false, false, false, false, false, false, false]),
    (.min 3, .nonnegative, [false, false, false, false, false, true, true, true, true, true, true, false, false], [false, false, false, false, false, true, true, true, true, true, true, false, false]),
    (.min 3, .nonpositive, [false, false, false, false, false, false, false, false, false, false, false, false, false], [false, false, false, false, false, false, false, false, false, false, false, false, false]),
    (.max 5, .positive, [false, false, false, true, true, true, true, true, false, false, false, false, false], [false, false, false, true, true, true, true, true, false, false, false, false, false]),
    (.max 5, .negative, [true, true, false, false, false, false, false, false, false, false, false, true, true], [true, true, false, false, false, false, false, false, false, false, false, true, true]),
    (.max 5, .nonnegative, [false, false, true, true, true, true, true, true, false, false, false, false, false], [false, false, true, true, true, true, true, true, false, false, false, false, false]),
    (.max 5, .nonpositive, [true, true, true, false, false, false, false, false, false, false, false, true, true], [true, true, true, false, false, false, false, false, false, false, false, true, true]),
    (.positive, .negative, [false, false, false, false, false, false, false, false, false, false, false, false, false], [false, false, false, false, false, false, false, false, false, false, false, false, false]),
    (.positive, .nonnegative, [false, false, false, true, true, true, true, true, true, true, true, false, false], [false, false, false, true, true, true, true, true, true, true, true, false, false]),
    (.positive, .nonpositive, [false, false, false, false, false, false, false, false, false, false, false, false, false], [false, false, false, false, false, false, false, false, false, false, false, false, false]),
    (.negative, .nonnegative, [false, false, false, false, false, false, false, false, false, false, false, false, false], [false, false, false, false, false, false, false, false, false, false, false, false, false]),
    (.negative, .nonpositive, [true, true, false, false, false, false, false, false, false, false, false, true, true], [true, true, false, false, false, false, false, false, false, false, false, true, true]),
    (.nonnegative, .nonpositive, [false, false, true, false, false, false, false, false, false, false, false, false, false], [false, false, true, false, false, false, false, false, false, false, false, false, false])
  ]

def tagBlock3 : Block where
  fty := ⟨false, .int16⟩
  probes := [.num (-4), .num (-2), .num 0, .num 2, .num 4, .num 6, .num 8, .num 10, .num 12, .num 65532, .num 65534, .num (-65536), .num (-65534)]
  singles := [
    (.required, [true, true, true, true, true, true, true, true, true, true, true, true, true]),
    (.min 3, [false, false, false, false, false, true, true, true, true, true, true, false, false]),
    (.max 5, [true, true, true, true, true, true, true, true, false, false, false, true, true]),
    (.positive, [false, false, false, true, true, true, true, true, true, true, true, false, false]),
    (.negative, [true, true, false, false, false, false, false, false, false, false, false, true, true]),
    (.nonnegative, [false, false, true, true, true, true, true, true, true, true, true, false, false]),
    (.nonpositive, [true, true, true, false, false, false, false, false, false, false, false, true, true]),
    (.min 32767, [false, false, false, false, false, false, false, false, false, false, true, false, false]),
    (.max 32767, [true, true, true, true, true, true, true, true, true, true, true, true, true]),
    (.min (-32768), [true, true, true, true, true, true, true, true, true, true, true, true, true]),
    (.max (-32768), [false, false, false, false, false, false, false, false, false, false, false, true, false]),
    (.gt 3, [false, false, false, false, false, false, true, true, true, true, true, false, false]),
    (.gte 3, [false, false, false, false, false, true, true, true, true, true, true, false, false]),
    (.lt 5, [true, true, true, true, true, true, true, false, false, false, false, true, true]),
    (.lte 5, [true, true, true, true, true, true, true, true, false, false, false, true, true])
  ]
  pairs := [
    (.required, .min 3, [false, false, false, false, false, true, true, true, true, true, true, false, false], [false, false, false, false, false, true, true, true, true, true, true, false, false]),
    (.required, .max 5, [true, true, true, true, true, true, true, true, false, false, false, true, true], [true, true, true, true, true, true, true, true, false, false, false, true, true]),
    (.required, .positive, [false, false, false, true, true, true, true, true, true, true, true, false, false], [false, false, false, true, true, true, true, true, true, true, true, false, false]),
    (.required, .negative, [true, true, false, false, false, false, false, false, false, false, false, true, true], [true, true, false, false, false, false, false, false, false, false, false, true, true]),
    (.required, .nonnegative, [false, false, true, true, true, true, true, true, true, true, true, false, false], [false, false, true, true, true, true, true, true, true, true, true, false, false]),
    (.required, .nonpositive, [true, true, true, false, false, false, false, false, false, false, false, true, true], [true, true, true, false, false, false, false, false, false, false, false, true, true]),
    (.min 3, .max 5, [false, false, false, false, false, true, true, true, false, false, false, false, false], [false, false, false, false, false, true, true, true, false, false, false, false, false]),
    (.min 3, .positive, [false, false, false, false, false, true, true, true, true, true, true, false, false], [false, false, false, false, false, true, true, true, true, true, true, false, false]),
    (.min 3, .negative, [false, false, false, false, false, false, false, false, false, false, false, false, false], [false, false, false, false, false, false, false, false, false, false, false, false, false]),
    (.min 3, .nonnegative, [false, false, false, false, false, true, true, true, true, true, true, false, false], [false, false, false, false, false, true, true, true, true, true, true, false, false]),
    (.min 3, .nonpositive, [false, false, false, false, false, false, false, false, false, false, false, false, false], [false, false, false, false, false, false, false, false, false, false, false, false, false]),
    (.max 5, .positive, [false, false, false, true, true, true, true, true, false, false, false, false, false], [false, false, false, true, true, true, true, true, false, false, false, false, false]),
    (.max 5, .negative, [true, true, false, false, false, false, false, false, false, false, false, true, true], [true, true, false, false, false, false, false, false, false, false, false, true, true]),
    (.max 5, .nonnegative, [false, false, true, true, true, true, true, true, false, false, false, false, false], [false, false, true, true, true, true, true, true, false, false, false, false, false]),
    (.max 5, .nonpositive, [true, true, true, false, false, false, false, false, false, false, false, true, true], [true, true, true, false, false, false, false, false, false, false, false, true, true]),
    (.positive, .negative, [false, false, false, false, false, false, false, false, false, false, false, false, false], [false, false, false, false, false, false, false, false, false, false, false, false, false]),
    (.positive, .nonnegative, [false, false, false, true, true, true, true, true, true, true, true, false, false], [false, false, false, true, true, true, true, true, true, true, true, false, false]),
    (.positive, .nonpositive, [false, false, false, false, false, false, false, false, false, false, false, false, false], [false, false, false, false, false, false, false, false, false, false, false, false, false]),
    (.negative, .nonnegative, [false, false, false, false, false, false, false, false, false, false, false, false, false], [false, false, false, false, false, false, false, false, false, false, false, false, false]),
    (.negative, .nonpositive, [true, true, false, false, false, false, false, false, false, false, false, true, true], [true, true, false, false, false, false, false, false, false, false, false, true, true]),
    (.nonnegative, .nonpositive, [false, false, true, false, false, false, false, false, false, false, false, false, false], [false, false, true, false, false, false, false, false, false, false, false, false, false])
  ]

def tagBlock4 : Block where
  fty := ⟨false, .int32⟩
  probes := [.num (-4), .num (-2), .num 0, .num 2, .num 4, .num 6, .num 8, .num 10, .num 12, .num 4294967292, .num 4294967294, .num (-4294967296), .num (-4294967294)]
  singles := [
    (.required, [true, true, true, true, true, true, true, true, true, true, true, true, true]),
    (.min 3, [false, false, false, false, false, true, true, true, true, true, true, false, false]),
    (.max 5, [true, true, true, true, true, true, true, true, false, false, false, true, true]),
    (.positive, [false, false, false, true, true, true, true, true, true, true, true, false, false]),
    (.negative, [true, true, false, false, false, false, false, false, false, false, false, true, true]),
    (.nonnegative, [false, false, true, true, true, true, true, true, true, true, true, false, false]),
    (.nonpositive, [true, true, true, false, false, false, false, false, false, false, false, true, true]),
    (.min 2147483647, [false, false, false, false, false, false, false, false, false, false, true, false, false]),
    (.max 2147483647, [true, true, true, true, true, true, true, true, true, true, true, true, true]),
    (.min (-2147483648), [true, true, true, true, true, true, true, true, true, true, true, true, true]),
    (.max (-2147483648), [false, false, false, false, false, false, false, false, false, false, false, true, false]),
    (.gt 3, [false, false, false, false, false, false, true, true, true, true, true, false, false]),
    (.gte 3, [false, false, false, false, false, true, true, true, true, true, true, false, false]),
    (.lt 5, [true, true, true, true, true, true, true, false, false, false, false, true, true]),
    (.lte 5, [true, true, true, true, true, true, true, true, false, false, false, true, true])
  ]
  pairs := [
    (.required, .min 3, [false, false, false, false, false, true, true, true, true, true, true, false, false], [false, false, false, false, false, true, true, true, true, true, true, false, false]),
    (.required, .max 5, [true, true, true, true, true, true, true, true, false, false, false, true, true], [true, true, true, true, true, true, true, true, false, false, false, true, true]),
    (.required, .positive, [false, false, false, true, true, true, true, true, true, true, true, false, false], [false, false, false, true, true, true, true, true, true, true, true, false, false]),
    (.required, .negative, [true, true, false, false, false, false, false, false, false, false, false, true, true], [true, true, false, false, false, false, false, false, false, false, false, true, true]),
    (.required, .nonnegative, [false, false, true, true, true, true, true, true, true, true, true, false, false], [false, false, true, true, true, true, true, true, true, true, true, false, false]),
    (.required, .nonpositive, [true, true, true, false, false, false, false, false, false, false, false, true, true], [true, true, true, false, false, false, false, false, false, false, false, true, true]),
    (.min 3, .max 5, [false, false, false, false, false, true, true, true, false, false, false, false, false], [false, false, false, false, false, true, true, true, false, false, false, false, false]),
    (.min 3, .positive, [false, false, false, false, false, true, true, true, true, true, true, false, false], [false, false, false, false, false, true, true, true, true, true, true, false, false]),
    (.min 3, .negative, [false, false, false, false, false, false, false, false, false, false, false, false, false], [false, false, false, false, false, false, false, false, false, false, false, false, false]),
    (.min 3, .nonnegative, [false, false, false, false, false, true, true, true, true, true, true, false, false], [false, false, false, false, false, true, true, true, true, true, true, false, false]),
    (.min 3, .nonpositive, [false, false, false, false, false, false, false, false, false, false, false, false, false], [false, false, false, false, false, false, false, false, false, false, false, false, false]),
    (.max 5, .positive, [false, false, false, true, true, true, true, true, false, false, false, false, false], [false, false, false, true, true, true, true, true, false, false, false, false, false]),
    (.max 5, .negative, [true, true, false, false, false, false, false, false, false, false, false, true, true], [true, true, false, false, false, false, false, false, false, false, false, true, true]),
    (.max 5, .nonnegative, [false, false, true, true, true, true, true, true, false, false, false, false, false], [false, false, true, true, true, true, true, true, false, false, false, false, false]),
    (.max 5, .nonpositive, [true, true, true, false, false, false, false, false, false, false, false, true, true], [true, true, true, false, false, false, false, false, false, false, false, true, true]),
    (.positive, .negative, [false, false, false, false, false, false, false, false, false, false, false, false, false], [false, false, false, false, false, false, false, false, false, false, false, false, false]),
    (.positive, .nonnegative, [false, false, false, true, true, true, true, true, true, true, true, false, false], [false, false, false, true, true, true, true, true, true, true, true, false, false]),
    (.positive, .nonpositive, [false, false, false, false, false, false, false, false, false, false, false, false, false], [false, false, false, false, false, false, false, false, false, false, false, false, false]),
    (.negative, .nonnegative, [false, false, false, false, false, false, false, false, false, false, false, false, false], [false, false, false, false, false, false, false, false, false, false, false, false, false]),
    (.negative, .nonpositive, [true, true, false, false, false, false, false, false, false, false, false, true, true], [true, true, false, false, false, false, false, false, false, false, false, true, true]),
    (.nonnegative, .nonpositive, [false, false, true, false, false, false, false, false, false, false, false, false, false], [false, false, true, false, false, false, false, false, false, false, false, false, false])
  ]

def tagBlock5 : Block where
  fty := ⟨false, .int64⟩
  probes := [.num (-4), .num (-2), .num 0, .num 2, .num 4, .num 6, .num 8, .num 10, .num 12, .num 18014398509481984, .num 18014398509481986, .num 18014398509481988, .num 18446744073709551612, .num 18446744073709551614, .num (-18446744073709551616), .num (-18446744073709551614)]
  singles := [
    (.required, [true, true, true, true, true, true, true, true, true, true, true, true, true, true, true, true]),
    (.min 3, [false, false, false, false, false, true, true, true, true, true, true, true, true, true, false, false]),
    (.max 5, [true, true, true, true, true, true, true, true, false, false, false, false, false, false, true, true]),
    (.positive, [false, false, false, true, true, true, true, true, true, true, true, true, true, true, false, false]),
    (.negative, [true, true, false, false, false, false, false, false, false, false, false, false, false, false, true, true]),
    (.nonnegative, [false, false, true, true, true, true, true, true, true, true, true, true, true, true, false, false]),
    (.nonpositive, [true, true, true, false, false, false, false, false, false, false, false, false, false, false, true, true]),
    (.min 9007199254740993, [false, false, false, false, false, false, false, false, false, false, true, true, true, true, false, false]),
    (.max 9007199254740993, [true, true, true, true, true, true, true, true, true, true, true, false, false, false, true, true]),
    (.min 9223372036854775807, [false, false, false, false, false, false, false, false, false, false, false, false, false, true, false, false]),
    (.max 9223372036854775807, [true, true, true, true, true, true, true, true, true, true, true, true, true, true, true, true]),
    (.min (-9223372036854775808), [true, true, true, true, true, true, true, true, true, true, true, true, true, true, true, true]),
    (.max (-9223372036854775808), [false, false, false, false, false, false, false, false, false, false, false, false, false, false, true, false]),
    (.gt 9007199254740993, [false, false, false, false, false, false, false, false, false, false, false, true, true, true, false, false]),
    (.gte 9007199254740993, [false, false, false, false, false, false, false, false, false, false, true, true, true, true, false, false]),
    (.lt 9007199254740993, [true, true, true, true, true, true, true, true, true, true, false, false, false, false, true, true]),
    (.lte 9007199254740993, [true, true, true, true, true, true, true, true, true, true, true, false, false, false, true, true]),
    (.gt 3, [false, false, false, false, false, false, true, true, true, true, true, true, true, true, false, false]),
    (.gte 3, [false, false, false, false, false, true, true, true, true, true, true, true, true, true, false, false]),
    (.lt 5, [true, true, true, true, true, true, true, false, false, false, false, false, false, false, true, true]),
    (.lte 5, [true, true, true, true, true, true, true, true, false, false, false, false, false, false, true, true])
  ]
  pairs := [
    (.required, .min 3, [false, false, false, false, false, true, true, true, true, true, true, true, true, true, false, false], [false, false, false, false, false, true, true, true, true, true, true, true, true, true, false, false]),
    (.required, .max 5, [true, true, true, true, true, true, true, true, false, false, false, false, false, false, true, true], [true, true, true, true, true, true, true, true, false, false, false, false, false, false, true, true]),
    (.required, .positive, [false, false, false, true, true, true, true, true, true, true, true, true, true, true, false, false], [false, false, false, true, true, true, true, true, true, true, true, true, true, true, false, false]),
    (.required, .negative, [true, true, false, false, false, false, false, false, false, false, false, false, false, false, true, true], [true, true, false, false, false, false, false, false, false, false, false, false, false, false, true, true]),
    (.required, .nonnegative, [false, false, true, true, true, true, true, true, true, true, true, true, true, true, false, false], [false, false, true, true, true, true, true, true, true, true, true, true, true, true, false, false]),
    (.required, .nonpositive, [true, true, true, false, false, false, false, false, false, false, false, false, false, false, true, true], [true, true, true, false, false, false, false, false, false, false, false, false, false, false, true, true]),
    (.min 3, .max 5, [false, false, false, false, false, true, true, true, false, false, false, false, false, false, false, false], [false, false, false, false, false, true, true, true, false, false, false, false, false, false, false, false]),
    (.min 3, .positive, [false, false, false, false, false, true, true, true, true, true, true, true, true, true, false, false], [false, false, false, false, false, true, true, true, true, true, true, true, true, true, false, false]),
    (.min 3, .negative, [false, false, false, false, false, false, false, false, false, false, false, false, false, false, false, false], [false, false, false, false, false, false, false, false, false, false, false, false, false, false, false, false]),
    (.min 3, .nonnegative, [false, false, false, false, false, true, true, true, true, true, true, true, true, true, false, false], [false, false, false, false, false, true, true, true, true, true, true, true, true, true, false, false]),
    (.min 3, .nonpositive, [false, false, false, false, false, false, false, false, false, false, false, false, false, false, false, false], [false, false, false, false, false, false, false, false, false, false, false, false, false, false, false, false]),
    (.max 5, .positive, [false, false, false, true, true, true, true, true, false, false, false, false, false, false, false, false], [false, false, false, true, true, true, true, true, false, false, false, false, false, false, false, false]),
    (.max 5, .negative, [true, true, false, false, false, false, false, false, false, false, false, false, false, false, true, true], [true, true, false, false, false, false, false, false, false, false, false, false, false, false, true, true]),
    (.max 5, .nonnegative, [false, false, true, true, true, true, true, true, false, false, false, false, false, false, false, false], [false, false, true, true, true, true, true, true, false, false, false, false, false, false, false, false]),
    (.max 5, .nonpositive, [true, true, true, false, false, false, false, false, false, false, false, false, false, false, true, true], [true, true, true, false, false, false, false, false, false, false, false, false, false, false, true, true]),
    (.positive, .negative, [false, false, false, false, false, false, false, false, false, false, false, false, false, false, false, false], [false, false, false, false, false, false, false, false, false, false, false, false, false, false, false, false]),
    (.positive, .nonnegative, [false, false, false, true, true, true, true, true, true, true, true, true, true, true, false, false], [false, false, false, true, true, true, true, true, true, true, true, true, true, true, false, false]),
    (.positive, .nonpositive, [false, false, false, false, false, false, false, false, false, false, false, false, false, false, false, false], [false, false, false, false, false, false, false, false, false, false, false, false, false, false, false, false]),
    (.negative, .nonnegative, [false, false, false, false, false, false, false, false, false, false, false, false, false, false, false, false], [false, false, false, false, false, false, false, false, false, false, false, false, false, false, false, false]),
    (.negative, .nonpositive, [true, true, false, false, false, false, false, false, false, false, false, false, false, false, true, true], [true, true, false, false, false, false, false, false, false, false, false, false, false, false, true, true]),
    (.nonnegative, .nonpositive, [false, false, true, false, false, false, false, false, false, false, false, false, false, false, false, false], [false, false, true, false, false, false, false, false, false, false, false, false, false, false, false, false])
  ]

def tagBlock6 : Block where
  fty := ⟨false, .uint⟩
  probes := [.num 0, .num 2, .num 4, .num 6, .num 8, .num 10, .num 12, .num 18014398509481984, .num 18014398509481986, .num 18014398509481988, .num 18446744073709551612, .num 18446744073709551614, .num 18446744073709551616, .num 36893488147419103228, .num 36893488147419103230]
  singles := [
    (.required, [true, true, true, true, true, true, true, true, true, true, true, true, true, true, true]),
    (.min 3, [false, false, false, true, true, true, true, true, true, true, true, true, true, true, true]),
    (.max 5, [true, true, true, true, true, true, false, false, false, false, false, false, false, false, false]),
    (.positive, [false, true, true, true, true, true, true, true, true, true, true, true, true, true, true]),
    (.negative, [false, false, false, false, false, false, false, false, false, false, false, false, false, false, false]),
    (.nonnegative, [true, true, true, true, true, true, true, true, true, true, true, true, true, true, true]),
    (.nonpositive, [true, false, false, false, false, false, false, false, false, false, false, false, false, false, false]),
    (.min 9007199254740993, [false, false, false, false, false, false, false, false, true, true, true, true, true, true, true]),
    (.max 9007199254740993, [true, true, true, true, true, true, true, true, true, false, false, false, false, false, false]),
    (.min 9223372036854775807, [false, false, false, false, false, false, false, false, false, false, false, true, true, true, true]),
    (.max 9223372036854775807, [true, true, true, true, true, true, true, true, true, true, true, true, false, false, false]),
    (.min 18446744073709551615, [false, false, false, false, false, false, false, false, false, false, false, false, false, false, true]),
    (.max 18446744073709551615, [true, true, true, true, true, true, true, true, true, true, true, true, true, true, true]),
    (.gt 9007199254740993, [false, false, false, false, false, false, false, false, false, true, true, true, true, true, true]),
    (.gte 9007199254740993, [false, false, false, false, false, false, false, false, true, true, true, true, true, true, true]),
    (.lt 9007199254740993, [true, true, true, true, true, true, true, true, false, false, false, false, false, false, false]),
    (.lte 9007199254740993, [true, true, true, true, true, true, true, true, true, false, false, false, false, false, false]),
    (.gt 3, [false, false, false, false, true, true, true, true, true, true, true, true, true, true, true]),
    (.gte 3, [false, false, false, true, true, true, true, true, true, true, true, true, true, true, true]),
    (.lt 5, [true, true, true, true, true, false, false, false, false, false, false, false, false, false, false]),
    (.lte 5, [true, true, true, true, true, true, false, false, false, false, false, false, false, false, false])
  ]
  pairs := [
    (.required, .min 3, [false, false, false, true, true, true, true, true, true, true, true, true, true, true, true], [false, false, false, true, true, true, true, true, true, true, true, true, true, true, true]),
    (.required, .max 5, [true, true, true, true, true, true, false, false, false, false, false, false, false, false, false], [true, true, true, true, true, true, false, false, false, false, false, false, false, false, false]),
    (.required, .positive, [false, true, true, true, true, true, true, true, true, true, true, true, true, true, true], [false, true, true, true, true, true, true, true, true, true, true, true, true, true, true]),
    (.required, .negative, [false, false, false, false, false, false, false, false, false, false, false, false, false, false, false], [false, false, false, false, false, false, false, false, false, false, false, false, false, false, false]),
    (.required, .nonnegative, [true, true, true, true, true, true, true, true, true, true, true, true, true, true, true], [true, true, true, true, true, true, true, true, true, true, true, true, true, true, true]),
    (.required, .nonpositive, [true, false, false, false, false, false, false, false, false, false, false, false, false, false, false], [true, false, false, false, false, false, false, false, false, false, false, false, false, false, false]),
    (.min 3, .max 5, [false, false, false, true, true, true, false, false, false, false, false, false, false, false, false], [false, false, false, true, true, true, false, false, false, false, false, false, false, false, false]),
    (.min 3, .positive, [false, false, false, true, true, true, true, true, true, true, true, true, true, true, true], [false, false, false, true, true, true, true, true, true, true, true, true, true, true, true]),
    (.min 3, .negative, [false, false, false, false, false, false, false, false, false, false, false, false, false, false, false], [false, false, false, false, false, false, false, false, false, false, false, false, false, false, false]),
    (.min 3, .nonnegative, [false, false, false, true, true, true, true, true, true, true, true, true, true, true, true], [false, false, false, true, true, true, true, true, true, true, true, true, true, true, true]),
    (.min 3, .nonpositive, [false, false, false, false, false, false, false, false, false, false, false, false, false, false, false], [false, false, false, false, false, false, false, false, false, false, false, false, false, false, false]),
    (.max 5, .positive, [false, true, true, true, true, true, false, false, false, false, false, false, false, false, false], [false, true, true, true, true, true, false, false, false, false, false, false, false, false, false]),
    (.max 5, .negative, [false, false, false, false, false, false, false, false, false, false, false, false, false, false, false], [false, false, false, false, false, false, false, false, false, false, false, false, false, false, false]),
    (.max 5, .nonnegative, [true, true, true, true, true, true, false, false, false, false, false, false, false, false, false], [true, true, true, true, true, true, false, false, false, false, false, false, false, false, false]),
    (.max 5, .nonpositive, [true, false, false, false, false, false, false, false, false, false, false, false, false, false, false], [true, false, false, false, false, false, false, false, false, false, false, false, false, false, false]),
    (.positive, .negative, [false, false, false, false, false, false, false, false, false, false, false, false, false, false, false], [false, false, false, false, false, false, false, false, false, false, false, false, false, false, false]),
    (.positive, .nonnegative, [false, true, true, true, true, true, true, true, true, true, true, true, true, true, true], [false, true, true, true, true, true, true, true, true, true, true, true, true, true, true]),
    (.positive, .nonpositive, [false, false, false, false, false, false, false, false, false, false, false, false, false, false, false], [false, false, false, false, false, false, false, false, false, false, false, false, false, false, false]),
    (.negative, .nonnegative, [false, false, false, false, false, false, false, false, false, false, false, false, false, false, false], [false, false, false, false, false, false, false, false, false, false, false, false, false, false, false]),
    (.negative, .nonpositive, [false, false, false, false, false, false, false, false, false, false, false, false, false, false, false], [false, false, false, false, false, false, false, false, false, false, false, false, false, false, false]),
    (.nonnegative, .nonpositive, [true, false, false, false, false, false, false, false, false, false, false, false, false, false, false], [true, false, false, false, false, false, false, false, false, false, false, false, false, false, false])
  ]

def tagBlock7 : Block where
  fty := ⟨false, .uint8⟩
  probes := [.num 0, .num 2, .num 4, .num 6, .num 8, .num 10, .num 12, .num 508, .num 510]
  singles := [
    (.required, [true, true, true, true, true, true, true, true, true]),
    (.min 3, [false, false, false, true, true, true, true, true, true]),
    (.max 5, [true, true, true, true, true, true, false, false, false]),
    (.positive, [false, true, true, true, true, true, true, true, true]),
    (.negative, [false, false, false, false, false, false, false, false, false]),
    (.nonnegative, [true, true, true, true, true, true, true, true, true]),
    (.nonpositive, [true, false, false, false, false, false, false, false, false]),
    (.min 255, [false, false, false, false, false, false, false, false, true]),
    (.max 255, [true, true, true, true, true, true, true, true, true]),
    (.gt 3, [false, false, false, false, true, true, true, true, true]),
    (.gte 3, [false, false, false, true, true, true, true, true, true]),
    (.lt 5, [true, true, true, true, true, false, false, false, false]),
    (.lte 5, [true, true, true, true, true, true, false, false, false])
  ]
  pairs := [
    (.required, .min 3, [false, false, false, true, true, true, true, true, true], [false, false, false, true, true, true, true, true, true]),
    (.required, .max 5, [true, true, true, true, true, true, false, false, false], [true, true, true, true, true, true, false, false, false]),
    (.required, .positive, [false, true, true, true, true, true, true, true, true], [false, true, true, true, true, true, true, true, true]),
    (.required, .negative, [false, false, false, false, false, false, false, false, false], [false, false, false, false, false, false, false, false, false]),
    (.required, .nonnegative, [true, true, true, true, true, true, true, true, true], [true, true, true, true, true, true, true, true, true]),
    (.required, .nonpositive, [true, false, false, false, false, false, false, false, false], [true, false, false, false, false, false, false, false, false]),
    (.min 3, .max 5, [false, false, false, true, true, true, false, false, false], [false, false, false, true, true, true, false, false, false]),
    (.min 3, .positive, [false, false, false, true, true, true, true, true, true], [false, false, false, true, true, true, true, true, true]),
    (.min 3, .negative, [false, false, false, false, false, false, false, false, false], [false, false, false, false, false, false, false, false, false]),
    (.min 3, .nonnegative, [false, false, false, true, true, true, true, true, true], [false, false, false, true, true, true, true, true, true]),
    (.min 3, .nonpositive, [false, false, false, false, false, false, false, false, false], [false, false, false, false, false, false, false, false, false]),
    (.max 5, .positive, [false, true, true, true, true, true, false, false, false], [false, true, true, true, true, true, false, false, false]),
    (.max 5, .negative, [false, false, false, false, false, false, false, false, false], [false, false, false, false, false, false, false, false, false]),
    (.max 5, .nonnegative, [true, true, true, true, true, true, false, false, false], [true, true, true, true, true, true, false, false, false]),
    (.max 5, .nonpositive, [true, false, false, false, false, false, false, false, false], [true, false, false, false, false, false, false, false, false]),
    (.positive, .negative, [false, false, false, false, false, false, false, false, false], [false, false, false, false, false, false, false, false, false]),
    (.positive, .nonnegative, [false, true, true, true, true, true, true, true, true], [false, true, true, true, true, true, true, true, true]),
    (.positive, .nonpositive, [false, false, false, false, false, false, false, false, false], [false, false, false, false, false, false, false, false, false]),
    (.negative, .nonnegative, [false, false, false, false, false, false, false, false, false], [false, false, false, false, false, false, false, false, false]),
    (.negative, .nonpositive, [false, false, false, false, false, false, false, false, false], [false, false, false, false, false, false, false, false, false]),
    (.nonnegative, .nonpositive, [true, false, false, false, false, false, false, false, false], [true, false, false, false, false, false, false, false, false])
  ]

def tagBlock8 : Block where
  fty := ⟨false, .uint16⟩
  probes := [.num 0, .num 2, .num 4, .num 6, .num 8, .num 10, .num 12, .num 131068, .num 131070]
  singles := [
    (.required, [true, true, true, true, true, true, true, true, true]),
    (.min 3, [false, false, false, true, true, true, true, true, true]),
    (.max 5, [true, true, true, true, true, true, false, false, false]),
    (.positive, [false, true, true, true, true, true, true, true, true]),
    (.negative, [false, false, false, false, false, false, false, false, false]),
    (.nonnegative, [true, true, true, true, true, true, true, true, true]),
    (.nonpositive, [true, false, false, false, false, false, false, false, false]),
    (.min 65535, [false, false, false, false, false, false, false, false, true]),
    (.max 65535, [true, true, true, true, true, true, true, true, true]),
    (.gt 3, [false, false, false, false, true, true, true, true, true]),
    (.gte 3, [false, false, false, true, true, true, true, true, true]),
    (.lt 5, [true, true, true, true, true, false, false, false, false]),
    (.lte 5, [true, true, true, true, true, true, false, false, false])
  ]
  pairs := [
    (.required, .min 3, [false, false, false, true, true, true, true, true, true], [false, false, false, true, true, true, true, true, true]),
    (.required, .max 5, [true, true, true, true, true, true, false, false, false], [true, true, true, true, true, true, false, false, false]),
    (.required, .positive, [false, true, true, true, true, true, true, true, true], [false, true, true, true, true, true, true, true, true]),
    (.required, .negative, [false, false, false, false, false, false, false, false, false], [false, false, false, false, false, false, false, false, false]),
    (.required, .nonnegative, [true, true, true, true, true, true, true, true, true], [true, true, true, true, true, true, true, true, true]),
    (.required, .nonpositive, [true, false, false, false, false, false, false, false, false], [true, false, false, false, false, false, false, false, false]),
    (.min 3, .max 5, [false, false, false, true, true, true, false, false, false], [false, false, false, true, true, true, false, false, false]),
    (.min 3, .positive, [false, false, false, true, true, true, true, true, true], [false, false, false, true, true, true, true, true, true]),
    (.min 3, .negative, [false, false, false, false, false, false, false, false, false], [false, false, false, false, false, false, false, false, false]),
    (.min 3, .nonnegative, [false, false, false, true, true, true, true, true, true], [false, false, false, true, true, true, true, true, true]),
    (.min 3, .nonpositive, [false, false, false, false, false, false, false, false, false], [false, false, false, false, false, false, false, false, false]),
    (.max 5, .positive, [false, true, true, true, true, true, false, false, false], [false, true, true, true, true, true, false, false, false]),
    (.max 5, .negative, [false, false, false, false, false, false, false, false, false], [false, false, false, false, false, false, false, false, false]),
    (.max 5, .nonnegative, [true, true, true, true, true, true, false, false, false], [true, true, true, true, true, true, false, false, false]),
    (.max 5, .nonpositive, [true, false, false, false, false, false, false, false, false], [true, false, false, false, false, false, false, false, false]),
    (.positive, .negative, [false, false, false, false, false, false, false, false, false], [false, false, false, false, false, false, false, false, false]),
    (.positive, .nonnegative, [false, true, true, true, true, true, true, true, true], [false, true, true, true, true, true, true, true, true]),
    (.positive, .nonpositive, [false, false, false, false, false, false, false, false, false], [false, false, false, false, false, false, false, false, false]),
    (.negative, .nonnegative, [false, false, false, false, false, false, false, false, false], [false, false, false, false, false, false, false, false, false]),
    (.negative, .nonpositive, [false, false, false, false, false, false, false, false, false], [false, false, false, false, false, false, false, false, false]),
    (.nonnegative, .nonpositive, [true, false, false, false, false, false, false, false, false], [true, false, false, false, false, false, false, false, false])
  ]

def tagBlock9 : Block where
  fty := ⟨false, .uint32⟩
  probes := [.num 0, .num 2, .num 4, .num 6, .num 8, .num 10, .num 12, .num 8589934588, .num 8589934590]
  singles := [
    (.required, [true, true, true, true, true, true, true, true, true]),
    (.min 3, [false, false, false, true, true, true, true, true, true]),
    (.max 5, [true, true, true, true, true, true, false, false, false]),
    (.positive, [false, true, true, true, true, true, true, true, true]),
    (.negative, [false, false, false, false, false, false, false, false, false]),
    (.nonnegative, [true, true, true, true, true, true, true, true, true]),
    (.nonpositive, [true, false, false, false, false, false, false, false, false]),
    (.min 4294967295, [false, false, false, false, false, false, false, false, true]),
    (.max 4294967295, [true, true, true, true, true, true, true, true, true]),
    (.gt 3, [false, false, false, false, true, true, true, true, true]),
    (.gte 3, [false, false, false, true, true, true, true, true, true]),
    (.lt 5, [true, true, true, true, true, false, false, false, false]),
    (.lte 5, [true, true, true, true, true, true, false, false, false])
  ]
  pairs := [
    (.required, .min 3, [false, false, false, true, true, true, true, true, true], [false, false, false, true, true, true, true, true, true]),
    (.required, .max 5, [true, true, true, true, true, true, false, false, false], [true, true, true, true, true, true, false, false, false]),
    (.required, .positive, [false, true, true, true, true, true, true, true, true], [false, true, true, true, true, true, true, true, true]),
    (.required, .negative, [false, false, false, false, false, false, false, false, false], [false, false, false, false, false, false, false, false, false]),
    (.required, .nonnegative, [true, true, true, true, true, true, true, true, true], [true, true, true, true, true, true, true, true, true]),
    (.required, .nonpositive, [true, false, false, false, false, false, false, false, false], [true, false, false, false, false, false, false, false, false]),
    (.min 3, .max 5, [false, false, false, true, true, true, false, false, false], [false, false, false, true, true, true, false, false, false]),
    (.min 3, .positive, [false, false, false, true, true, true, true, true, true], [false, false, false, true, true, true, true, true, true]),
    (.min 3, .negative, [false, false, false, false, false, false, false, false, false], [false, false, false, false, false, false, false, false, false]),
    (.min 3, .nonnegative, [false, false, false, true, true, true, true, true, true], [false, false, false, true, true, true, true, true, true]),
    (.min 3, .nonpositive, [false, false, false, false, false, false, false, false, false], [false, false, false, false, false, false, false, false, false]),
    (.max 5, .positive, [false, true, true, true, true, true, false, false, false], [false, true, true, true, true, true, false, false, false]),
    (.max 5, .negative, [false, false, false, false, false, false, false, false, false], [false, false, false, false, false, false, false, false, false]),
    (.max 5, .nonnegative, [true, true, true, true, true, true, false, false, false], [true, true, true, true, true, true, false, false, false]),
    (.max 5, .nonpositive, [true, false, false, false, false, false, false, false, false], [true, false, false, false, false, false, false, false, false]),
    (.positive, .negative, [false, false, false, false, false, false, false, false, false], [false, false, false, false, false, false, false, false, false]),
    (.positive, .nonnegative, [false, true, true, true, true, true, true, true, true], [false, true, true, true, true, true, true, true, true]),
    (.positive, .nonpositive, [false, false, false, false, false, false, false, false, false], [false, false, false, false, false, false, false, false, false]),
    (.negative, .nonnegative, [false, false, false, false, false, false, false, false, false], [false, false, false, false, false, false, false, false, false]),
    (.negative, .nonpositive, [false, false, false, false, false, false, false, false, false], [false, false, false, false, false, false, false, false, false]),
    (.nonnegative, .nonpositive, [true, false, false, false, false, false, false, false, false], [true, false, false, false, false, false, false, false, false])
  ]

def tagBlock10 : Block where
  fty := ⟨false, .uint64⟩
  probes := [.num 0, .num 2, .num 4, .num 6, .num 8, .num 10, .num 12, .num 18014398509481984, .num 18014398509481986, .num 18014398509481988, .num 18446744073709551612, .num 18446744073709551614, .num 18446744073709551616, .num 36893488147419103228, .num 36893488147419103230]
  singles := [
    (.required, [true, true, true, true, true, true, true, true, true, true, true, true, true, true, true]),
    (.min 3, [false, false, false, true, true, true, true, true, true, true, true, true, true, true, true]),
    (.max 5, [true, true, true, true, true, true, false, false, false, false, false, false, false, false, false]),
    (.positive, [false, true, true, true, true, true, true, true, true, true, true, true, true, true, true]),
    (.negative, [false, false, false, false, false, false, false, false, false, false, false, false, false, false, false]),
    (.nonnegative, [true, true, true, true, true, true, true, true, true, true, true, true, true, true, true]),
    (.nonpositive, [true, false, false, false, false, false, false, false, false, false, false, false, false, false, false]),
    (.min 9007199254740993, [false, false, false, false, false, false, false, false, true, true, true, true, true, true, true]),
    (.max 9007199254740993, [true, true, true, true, true, true, true, true, true, false, false, false, false, false, false]),
    (.min 9223372036854775807, [false, false, false, false, false, false, false, false, false, false, false, true, true, true, true]),
    (.max 9223372036854775807, [true, true, true, true, true, true, true, true, true, true, true, true, false, false, false]),
    (.min 18446744073709551615, [false, false, false, false, false, false, false, false, false, false, false, false, false, false, true]),
    (.max 18446744073709551615, [true, true, true, true, true, true, true, true, true, true, true, true, true, true, true]),
    (.gt 9007199254740993, [false, false, false, false, false, false, false, false, false, true, true, true, true, true, true]),
    (.gte 9007199254740993, [false, false, false, false, false, false, false, false, true, true, true, true, true, true, true]),
    (.lt 9007199254740993, [true, true, true, true, true, true, true, true, false, false, false, false, false, false, false]),
    (.lte 9007199254740993, [true, true, true, true, true, true, true, true, true, false, false, false, false, false, false]),
    (.gt 3, [false, false, false, false, true, true, true, true, true, true, true, true, true, true, true]),
    (.gte 3, [false, false, false, true, true, true, true, true, true, true, true, true, true, true, true]),
    (.lt 5, [true, true, true, true, true, false, false, false, false, false, false, false, false, false, false]),
    (.lte 5, [true, true, true, true, true, true, false, false, false, false, false, false, false, false, false])
  ]
  pairs := [
    (.required, .min 3, [false, false, false, true, true, true, true, true, true, true, true, true, true, true, true], [false, false, false, true, true, true, true, true, true, true, true, true, true, true, true]),
    (.required, .max 5, [true, true, true, true, true, true, false, false, false, false, false, false, false, false, false], [true, true, true, true, true, true, false, false, false, false, false, false, false, false, false]),
    (.required, .positive, [false, true, true, true, true, true, true, true, true, true, true, true, true, true, true], [false, true, true, true, true, true, true, true, true, true, true, true, true, true, true]),
    (.required, .negative, [false, false, false, false, false, false, false, false, false, false, false, false, false, false, false], [false, false, false, false, false, false, false, false, false, false, false, false, false, false, false]),
    (.required, .nonnegative, [true, true, true, true, true, true, true, true, true, true, true, true, true, true, true], [true, true, true, true, true, true, true, true, true, true, true, true, true, true, true]),
    (.required, .nonpositive, [true, false, false, false, false, false, false, false, false, false, false, false, false, false, false], [true, false, false, false, false, false, false, false, false, false, false, false, false, false, false]),
    (.min 3, .max 5, [false, false, false, true, true, true, false, false, false, false, false, false, false, false, false], [false, false, false, true, true, true, false, false, false, false, false, false, false, false, false]),
    (.min 3, .positive, [false, false, false, true, true, true, true, true, true, true, true, true, true, true, true], [false, false, false, true, true, true, true, true, true, true, true, true, true, true, true]),
    (.min 3, .negative, [false, false, false, false, false, false, false, false, false, false, false, false, false, false, false], [false, false, false, false, false, false, false, false, false, false, false, false, false, false, false]),
    (.min 3, .nonnegative, [false, false, false, true, true, true, true, true, true, true, true, true, true, true, true], [false, false, false, true, true, true, true, true, true, true, true, true, true, true, true]),
    (.min 3, .nonpositive, [false, false, false, false, false, false, false, false, false, false, false, false, false, false, false], [false, false, false, false, false, false, false, false, false, false, false, false, false, false, false]),
    (.max 5, .positive, [false, true, true, true, true, true, false, false, false, false, false, false, false, false, false], [false, true, true, true, true, true, false, false, false, false, false, false, false, false, false]),
    (.max 5, .negative, [false, false, false, false, false, false, false, false, false, false, false, false, false, false, false], [false, false, false, false, false, false, false, false, false, false, false, false, false, false, false]),
    (.max 5, .nonnegative, [true, true, true, true, true, true, false, false, false, false, false, false, false, false, false], [true, true, true, true, true, true, false, false, false, false, false, false, false, false, false]),
    (.max 5, .nonpositive, [true, false, false, false, false, false, false, false, false, false, false, false, false, false, false], [true, false, false, false, false, false, false, false, false, false, false, false, false, false, false]),
    (.positive, .negative, [false, false, false, false, false, false, false, false, false, false, false, false, false, false, false], [false, false, false, false, false, false, false, false, false, false, false, false, false, false, false]),
    (.positive, .nonnegative, [false, true, true, true, true, true, true, true, true, true, true, true, true, true, true], [false, true, true, true, true, true, true, true, true, true, true, true, true, true, true]),
    (.positive, .nonpositive, [false, false, false, false, false, false, false, false, false, false, false, false, false, false, false], [false, false, false, false, false, false, false, false, false, false, false, false, false, false, false]),
    (.negative, .nonnegative, [false, false, false, false, false, false, false, false, false, false, false, false, false, false, false], [false, false, false, false, false, false, false, false, false, false, false, false, false, false, false]),
    (.negative, .nonpositive, [false, false, false, false, false, false, false, false, false, false, false, false, false, false, false], [false, false, false, false, false, false, false, false, false, false, false, false, false, false, false]),
    (.nonnegative, .nonpositive, [true, false, false, false, false, false, false, false, false, false, false, false, false, false, false], [true, false, false, false, false, false, false, false, false, false, false, false, false, false, false])
  ]

def tagBlock11 : Block where
  fty := ⟨false, .float32⟩
  probes := [.num (-4), .num (-2), .num (-1), .num 0, .num 1, .num 2, .num 4, .num 5, .num 6, .num 7, .num 8, .num 10, .num 11, .num 12]
  singles := [
    (.required, [true, true, true, true, true, true, true, true, true, true, true, true, true, true]),
    (.min 3, [false, false, false, false, false, false, false, false, true, true, true, true, true, true]),
    (.max 5, [true, true, true, true, true, true, true, true, true, true, true, true, false, false]),
    (.positive, [false, false, false, false, true, true, true, true, true, true, true, true, true, true]),
    (.negative, [true, true, true, false, false, false, false, false, false, false, false, false, false, false]),
    (.nonnegative, [false, false, false, true, true, true, true, true, true, true, true, true, true, true]),
    (.nonpositive, [true, true, true, true, false, false, false, false, false, false, false, false, false, false]),
    (.gt 3, [false, false, false, false, false, false, false, false, false, true, true, true, true, true]),
    (.gte 3, [false, false, false, false, false, false, false, false, true, true, true, true, true, true]),
    (.lt 5, [true, true, true, true, true, true, true, true, true, true, true, false, false, false]),
    (.lte 5, [true, true, true, true, true, true, true, true, true, true, true, true, false, false])
  ]
  pairs := [
    (.required, .min 3, [false, false, false, false, false, false, false, false, true, true, true, true, true, true], [false, false, false, false, false, false, false, false, true, true, true, true, true, true]),
    (.required, .max 5, [true, true, true, true, true, true, true, true, true, true, true, true, false, false], [true, true, true, true, true, true, true, true, true, true, true, true, false, false]),
    (.required, .positive, [false, false, false, false, true, true, true, true, true, true, true, true, true, true], [false, false, false, false, true, true, true, true, true, true, true, true, true, true]),
    (.required, .negative, [true, true, true, false, false, false, false, false, false, false, false, false, false, false], [true, true, true, false, false, false, false, false, false, false, false, false, false, false]),
    (.required, .nonnegative, [false, false, false, true, true, true, true, true, true, true, true, true, true, true], [false, false, false, true, true, true, true, true, true, true, true, true, true, true]),
    (.required, .nonpositive, [true, true, true, true, false, false, false, false, false, false, false, false, false, false], [true, true, true, true, false, false, false, false, false, false, false, false, false, false]),
    (.min 3, .max 5, [false, false, false, false, false, false, false, false, true, true, true, true, false, false], [false, false, false, false, false, false, false, false, true, true, true, true, false, false]),
    (.min 3, .positive, [false, false, false, false, false, false, false, false, true, true, true, true, true, true], [false, false, false, false, false, false, false, false, true, true, true, true, true, true]),
    (.min 3, .negative, [false, false, false, false, false, false, false, false, false, false, false, false, false, false], [false, false, false, false, false, false, false, false, false, false, false, false, false, false]),
    (.min 3, .nonnegative, [false, false, false, false, false, false, false, false, true, true, true, true, true, true], [false, false, false, false, false, false, false, false, true, true, true, true, true, true]),
    (.min 3, .nonpositive, [false, false, false, false, false, false, false, false, false, false, false, false, false, false], [false, false, false, false, false, false, false, false, false, false, false, false, false, false]),
    (.max 5, .positive, [false, false, false, false, true, true, true, true, true, true, true, true, false, false], [false, false, false, false, true, true, true, true, true, true, true, true, false, false]),
    (.max 5, .negative, [true, true, true, false, false, false, false, false, false, false, false, false, false, false], [true, true, true, false, false, false, false, false, false, false, false, false, false, false]),
    (.max 5, .nonnegative, [false, false, false, true, true, true, true, true, true, true, true, true, false, false], [false, false, false, true, true, true, true, true, true, true, true, true, false, false]),
    (.max 5, .nonpositive, [true, true, true, true, false, false, false, false, false, false, false, false, false, false], [true, true, true, true, false, false, false, false, false, false, false, false, false, false]),
    (.positive, .negative, [false, false, false, false, false, false, false, false, false, false, false, false, false, false], [false, false, false, false, false, false, false, false, false, false, false, false, false, false]),
    (.positive, .nonnegative, [false, false, false, false, true, true, true, true, true, true, true, true, true, true], [false, false, false, false, true, true, true, true, true, true, true, true, true, true]),
    (.positive, .nonpositive, [false, false, false, false, false, false, false, false, false, false, false, false, false, false], [false, false, false, false, false, false, false, false, false, false, false, false, false, false]),
    (.negative, .nonnegative, [false, false, false, false, false, false, false, false, false, false, false, false, false, false], [false, false, false, false, false, false, false, false, false, false, false, false, false, false]),
    (.negative, .nonpositive, [true, true, true, false, false, false, false, false, false, false, false, false, false, false], [true, true, true, false, false, false, false, false, false, false, false, false, false, false]),
    (.nonnegative, .nonpositive, [false, false, false, true, false, false, false, false, false, false, false, false, false, false], [false, false, false, true, false, false, false, false, false, false, false, false, false, false])
  ]

def tagBlock12 : Block where
  fty := ⟨false, .float64⟩
  probes := [.num (-4), .num (-2), .num (-1), .num 0, .num 1, .num 2, .num 4, .num 5, .num 6, .num 7, .num 8, .num 10, .num 11, .num 12]
  singles := [
    (.required, [true, true, true, true, true, true, true, true, true, true, true, true, true, true]),
    (.min 3, [false, false, false, false, false, false, false, false, true, true, true, true, true, true]),
    (.max 5, [true, true, true, true, true, true, true, true, true, true, true, true, false, false]),
    (.positive, [false, false, false, false, true, true, true, true, true, true, true, true, true, true]),
    (.negative, [true, true, true, false, false, false, false, false, false, false, false, false, false, false]),
    (.nonnegative, [false, false, false, true, true, true, true, true, true, true, true, true, true, true]),
    (.nonpositive, [true, true, true, true, false, false, false, false, false, false, false, false, false, false]),
    (.gt 3, [false, false, false, false, false, false, false, false, false, true, true, true, true, true]),
    (.gte 3, [false, false, false, false, false, false, false, false, true, true, true, true, true, true]),
    (.lt 5, [true, true, true, true, true, true, true, true, true, true, true, false, false, false]),
    (.lte 5, [true, true, true, true, true, true, true, true, true, true, true, true, false, false])
  ]
  pairs := [
    (.required, .min 3, [false, false, false, false, false, false, false, false, true, true, true, true, true, true], [false, false, false, false, false, false, false, false, true, true, true, true, true, true]),
    (.required, .max 5, [true, true, true, true, true, true, true, true, true, true, true, true, false, false], [true, true, true, true, true, true, true, true, true, true, true, true, false, false]),
    (.required, .positive, [false, false, false, false, true, true, true, true, true, true, true, true, true, true], [false, false, false, false, true, true, true, true, true, true, true, true, true, true]),
    (.required, .negative, [true, true, true, false, false, false, false, false, false, false, false, false, false, false], [true, true, true, false, false, false, false, false, false, false, false, false, false, false]),
    (.required, .nonnegative, [false, false, false, true, true, true, true, true, true, true, true, true, true, true], [false, false, false, true, true, true, true, true, true, true, true, true, true, true]),
    (.required, .nonpositive, [true, true, true, true, false, false, false, false, false, false, false, false, false, false], [true, true, true, true, false, false, false, false, false, false, false, false, false, false]),
    (.min 3, .max 5, [false, false, false, false, false, false, false, false, true, true, true, true, false, false], [false, false, false, false, false, false, false, false, true, true, true, true, false, false]),
    (.min 3, .positive, [false, false, false, false, false, false, false, false, true, true, true, true, true, true], [false, false, false, false, false, false, false, false, true, true, true, true, true, true]),
    (.min 3, .negative, [false, false, false, false, false, false, false, false, false, false, false, false, false, false], [false, false, false, false, false, false, false, false, false, false, false, false, false, false]),
    (.min 3, .nonnegative, [false, false, false, false, false, false, false, false, true, true, true, true, true, true], [false, false, false, false, false, false, false, false, true, true, true, true, true, true]),
    (.min 3, .nonpositive, [false, false, false, false, false, false, false, false, false, false, false, false, false, false], [false, false, false, false, false, false, false, false, false, false, false, false, false, false]),
    (.max 5, .positive, [false, false, false, false, true, true, true, true, true, true, true, true, false, false], [false, false, false, false, true, true, true, true, true, true, true, true, false, false]),
    (.max 5, .negative, [true, true, true, false, false, false, false, false, false, false, false, false, false, false], [true, true, true, false, false, false, false, false, false, false, false, false, false, false]),
    (.max 5, .nonnegative, [false, false, false, true, true, true, true, true, true, true, true, true, false, false], [false, false, false, true, true, true, true, true, true, true, true, true, false, false]),
    (.max 5, .nonpositive, [true, true, true, true, false, false, false, false, false, false, false, false, false, false], [true, true, true, true, false, false, false, false, false, false, false, false, false, false]),
    (.positive, .negative, [false, false, false, false, false, false, false, false, false, false, false, false, false, false], [false, false, false, false, false, false, false, false, false, false, false, false, false, false]),
    (.positive, .nonnegative, [false, false, false, false, true, true, true, true, true, true, true, true, true, true], [false, false, false, false, true, true, true, true, true, true, true, true, true, true]),
    (.positive, .nonpositive, [false, false, false, false, false, false, false, false, false, false, false, false, false, false], [false, false, false, false, false, false, false, false, false, false, false, false, false, false]),
    (.negative, .nonnegative, [false, false, false, false, false, false, false, false, false, false, false, false, false, false], [false, false, false, false, false, false, false, false, false, false, false, false, false, false]),
    (.negative, .nonpositive, [true, true, true, false, false, false, false, false, false, false, false, false, false, false], [true, true, true, false, false, false, false, false, false, false, false, false, false, false]),
    (.nonnegative, .nonpositive, [false, false, false, true, false, false, false, false, false, false, false, false, false, false], [false, false, false, true, false, false, false, false, false, false, false, false, false, false])
  ]

def tagBlock13 : Block where
  fty := ⟨false, .bool⟩
  probes := [.flag false, .flag true]
  singles := [
    (.required, [true, true])
  ]
  pairs := [

  ]

def tagBlock14 : Block where
  fty := ⟨false, .slice_string⟩
  probes := [.elems 0, .elems 1, .elems 2, .elems 3, .elems 4, .elems 5]
  singles := [
    (.required, [true, true, true, true, true, true]),
    (.min 2, [false, false, true, true, true, true]),
    (.max 4, [true, true, true, true, true, false]),
    (.length 3, [false, false, false, true, false, false]),
    (.nonempty, [false, true, true, true, true, true])
  ]
  pairs := [
    (.required, .min 2, [false, false, true, true, true, true], [false, false, true, true, true, true]),
    (.required, .max 4, [true, true, true, true, true, false], [true, true, true, true, true, false]),
    (.required, .length 3, [false, false, false, true, false, false], [false, false, false, true, false, false]),
    (.required, .nonempty, [false, true, true, true, true, true], [false, true, true, true, true, true]),
    (.min 2, .max 4, [false, false, true, true, true, false], [false, false, true, true, true, false]),
    (.min 2, .length 3, [false, false, false, true, false, false], [false, false, false, true, false, false]),
    (.min 2, .nonempty, [false, false, true, true, true, true], [false, false, true, true, true, true]),
    (.max 4, .length 3, [false, false, false, true, false, false], [false, false, false, true, false, false]),
    (.max 4, .nonempty, [false, true, true, true, true, false], [false, true, true, true, true, false]),
    (.length 3, .nonempty, [false, false, false, true, false, false], [false, false, false, true, false, false])
  ]

def tagBlock15 : Block where
  fty := ⟨false, .slice_int⟩
  probes := [.elems 0, .elems 1, .elems 2, .elems 3, .elems 4, .elems 5]
  singles := [
    (.required, [true, true, true, true, true, true]),
    (.min 2, [false, false, true, true, true, true]),
    (.max 4, [true, true, true, true, true, false]),
    (.length 3, [false, false, false, true, false, false]),
    (.nonempty, [false, true, true, true, true, true])
  ]
  pairs := [
    (.required, .min 2, [false, false, true, true, true, true], [false, false, true, true, true, true]),
    (.required, .max 4, [true, true, true, true, true, false], [true, true, true, true, true, false]),
    (.required, .length 3, [false, false, false, true, false, false], [false, false, false, true, false, false]),
    (.required, .nonempty, [false, true, true, true, true, true], [false, true, true, true, true, true]),
    (.min 2, .max 4, [false, false, true, true, true, false], [false, false, true, true, true, false]),
    (.min 2, .length 3, [false, false, false, true, false, false], [false, false, false, true, false, false]),
    (.min 2, .nonempty, [false, false, true, true, true, true], [false, false, true, true, true, true]),
    (.max 4, .length 3, [false, false, false, true, false, false], [false, false, false, true, false, false]),
    (.max 4, .nonempty, [false, true, true, true, true, false], [false, true, true, true, true, false]),
    (.length 3, .nonempty, [false, false, false, true, false, false], [false, false, false, true, false, false])
  ]

def tagBlock16 : Block where
  fty := ⟨false, .slice_int64⟩
  probes := [.elems 0, .elems 1, .elems 2, .elems 3, .elems 4, .elems 5]
  singles := [
    (.required, [true, true, true, true, true, true]),
    (.min 2, [false, false, true, true, true, true]),
    (.max 4, [true, true, true, true, true, false]),
    (.length 3, [false, false, false, true, false, false]),
    (.nonempty, [false, true, true, true, true, true])
  ]
  pairs := [
    (.required, .min 2, [false, false, true, true, true, true], [false, false, true, true, true, true]),
    (.required, .max 4, [true, true, true, true, true, false], [true, true, true, true, true, false]),
    (.required, .length 3, [false, false, false, true, false, false], [false, false, false, true, false, false]),
    (.required, .nonempty, [false, true, true, true, true, true], [false, true, true, true, true, true]),
    (.min 2, .max 4, [false, false, true, true, true, false], [false, false, true, true, true, false]),
    (.min 2, .length 3, [false, false, false, true, false, false], [false, false, false, true, false, false]),
    (.min 2, .nonempty, [false, false, true, true, true, true], [false, false, true, true, true, true]),
    (.max 4, .length 3, [false, false, false, true, false, false], [false, false, false, true, false, false]),
    (.max 4, .nonempty, [false, true, true, true, true, false], [false, true, true, true, true, false]),
    (.length 3, .nonempty, [false, false, false, true, false, false], [false, false, false, true, false, false])
  ]

def tagBlock17 : Block where
  fty := ⟨false, .slice_float64⟩
  probes := [.elems 0, .elems 1, .elems 2, .elems 3, .elems 4, .elems 5]
  singles := [
    (.required, [true, true, true, true, true, true]),
    (.min 2, [false, false, true, true, true, true]),
    (.max 4, [true, true, true, true, true, false]),
    (.length 3, [false, false, false, true, false, false]),
    (.nonempty, [false, true, true, true, true, true])
  ]
  pairs := [
    (.required, .min 2, [false, false, true, true, true, true], [false, false, true, true, true, true]),
    (.required, .max 4, [true, true, true, true, true, false], [true, true, true, true, true, false]),
    (.required, .length 3, [false, false, false, true, false, false], [false, false, false, true, false, false]),
    (.required, .nonempty, [false, true, true, true, true, true], [false, true, true, true, true, true]),
    (.min 2, .max 4, [false, false, true, true, true, false], [false, false, true, true, true, false]),
    (.min 2, .length 3, [false, false, false, true, false, false], [false, false, false, true, false, false]),
    (.min 2, .nonempty, [false, false, true, true, true, true], [false, false, true, true, true, true]),
    (.max 4, .length 3, [false, false, false, true, false, false], [false, false, false, true, false, false]),
    (.max 4, .nonempty, [false, true, true, true, true, false], [false, true, true, true, true, false]),
    (.length 3, .nonempty, [false, false, false, true, false, false], [false, false, false, true, false, false])
  ]

def tagBlock18 : Block where
  fty := ⟨false, .slice_bool⟩
  probes := [.elems 0, .elems 1, .elems 2, .elems 3, .elems 4, .elems 5]
  singles := [
    (.required, [true, true, true, true, true, true]),
    (.min 2, [false, false, true, true, true, true]),
    (.max 4, [true, true, true, true, true, false]),
    (.length 3, [false, false, false, true, false, false]),
    (.nonempty, [false, true, true, true, true, true])
  ]
  pairs := [
    (.required, .min 2, [false, false, true, true, true, true], [false, false, true, true, true, true]),
    (.required, .max 4, [true, true, true, true, true, false], [true, true, true, true, true, false]),
    (.required, .length 3, [false, false, false, true, false, false], [false, false, false, true, false, false]),
    (.required, .nonempty, [false, true, true, true, true, true], [false, true, true, true, true, true]),
    (.min 2, .max 4, [false, false, true, true, true, false], [false, false, true, true, true, false]),
    (.min 2, .length 3, [false, false, false, true, false, false], [false, false, false, true, false, false]),
    (.min 2, .nonempty, [false, false, true, true, true, true], [false, false, true, true, true, true]),
    (.max 4, .length 3, [false, false, false, true, false, false], [false, false, false, true, false, false]),
    (.max 4, .nonempty, [false, true, true, true, true, false], [false, true, true, true, true, false]),
    (.length 3, .nonempty, [false, false, false, true, false, false], [false, false, false, true, false, false])
  ]

def tagBlock19 : Block where
  fty := ⟨false, .slice_int32⟩
  probes := [.elems 0, .elems 1, .elems 2, .elems 3, .elems 4, .elems 5]
  singles := [
    (.required, [true, true, true, true, true, true]),
    (.min 2, [false, false, true, true, true, true]),
    (.max 4, [true, true, true, true, true, false]),
    (.length 3, [false, false, false, true, false, false]),
    (.nonempty, [false, true, true, true, true, true])
  ]
  pairs := [
    (.required, .min 2, [false, false, true, true, true, true], [false, false, true, true, true, true]),
    (.required, .max 4, [true, true, true, true, true, false], [true, true, true, true, true, false]),
    (.required, .length 3, [false, false, false, true, false, false], [false, false, false, true, false, false]),
    (.required, .nonempty, [false, true, true, true, true, true], [false, true, true, true, true, true]),
    (.min 2, .max 4, [false, false, true, true, true, false], [false, false, true, true, true, false]),
    (.min 2, .length 3, [false, false, false, true, false, false], [false, false, false, true, false, false]),
    (.min 2, .nonempty, [false, false, true, true, true, true], [false, false, true, true, true, true]),
    (.max 4, .length 3, [false, false, false, true, false, false], [false, false, false, true, false, false]),
    (.max 4, .nonempty, [false, true, true, true, true, false], [false, true, true, true, true, false]),
    (.length 3, .nonempty, [false, false, false, true, false, false], [false, false, false, true, false, false])
  ]

def tagBlock20 : Block where
  fty := ⟨false, .slice_uint8⟩
  probes := [.elems 0, .elems 1, .elems 2, .elems 3, .elems 4, .elems 5]
  singles := [
    (.required, [true, true, true, true, true, true]),
    (.min 2, [false, false, true, true, true, true]),
    (.max 4, [true, true, true, true, true, false]),
    (.length 3, [false, false, false, true, false, false]),
    (.nonempty, [false, true, true, true, true, true])
  ]
  pairs := [
    (.required, .min 2, [false, false, true, true, true, true], [false, false, true, true, true, true]),
    (.required, .max 4, [true, true, true, true, true, false], [true, true, true, true, true, false]),
    (.required, .length 3, [false, false, false, true, false, false], [false, false, false, true, false, false]),
    (.required, .nonempty, [false, true, true, true, true, true], [false, true, true, true, true, true]),
    (.min 2, .max 4, [false, false, true, true, true, false], [false, false, true, true, true, false]),
    (.min 2, .length 3, [false, false, false, true, false, false], [false, false, false, true, false, false]),
    (.min 2, .nonempty, [false, false, true, true, true, true], [false, false, true, true, true, true]),
    (.max 4, .length 3, [false, false, false, true, false, false], [false, false, false, true, false, false]),
    (.max 4, .nonempty, [false, true, true, true, true, false], [false, true, true, true, true, false]),
    (.length 3, .nonempty, [false, false, false, true, false, false], [false, false, false, true, false, false])
  ]

def tagBlock21 : Block where
  fty := ⟨false, .slice_slice_string⟩
  probes := [.elems 0, .elems 1, .elems 2, .elems 3, .elems 4, .elems 5]
  singles := [
    (.required, [true, true, true, true, true, true]),
    (.min 2, [false, false, true, true, true, true]),
    (.max 4, [true, true, true, true, true, false]),
    (.length 3, [false, false, false, true, false, false]),
    (.nonempty, [false, true, true, true, true, true])
  ]
  pairs := [
    (.required, .min 2, [false, false, true, true, true, true], [false, false, true, true, true, true]),
    (.required, .max 4, [true, true, true, true, true, false], [true, true, true, true, true, false]),
    (.required, .length 3, [false, false, false, true, false, false], [false, false, false, true, false, false]),
    (.required, .nonempty, [false, true, true, true, true, true], [false, true, true, true, true, true]),
    (.min 2, .max 4, [false, false, true, true, true, false], [false, false, true, true, true, false]),
    (.min 2, .length 3, [false, false, false, true, false, false], [false, false, false, true, false, false]),
    (.min 2, .nonempty, [false, false, true, true, true, true], [false, false, true, true, true, true]),
    (.max 4, .length 3, [false, false, false, true, false, false], [false, false, false, true, false, false]),
    (.max 4, .nonempty, [false, true, true, true, true, false], [false, true, true, true, true, false]),
    (.length 3, .nonempty, [false, false, false, true, false, false], [false, false, false, true, false, false])
  ]

def tagBlock22 : Block where
  fty := ⟨false, .slice_struct⟩
  probes := [.elems 0, .elems 1, .elems 2, .elems 3, .elems 4, .elems 5]
  singles := [
    (.required, [true, true, true, true, true, true]),
    (.min 2, [false, false, true, true, true, true]),
    (.max 4, [true, true, true, true, true, false]),
    (.length 3, [false, false, false, true, false, false]),
    (.nonempty, [false, true, true, true, true, true])
  ]
  pairs := [
    (.required, .min 2, [false, false, true, true, true, true], [false, false, true, true, true, true]),
    (.required, .max 4, [true, true, true, true, true, false], [true, true, true, true, true, false]),
    (.required, .length 3, [false, false, false, true, false, false], [false, false, false, true, false, false]),
    (.required, .nonempty, [false, true, true, true, true, true], [false, true, true, true, true, true]),
    (.min 2, .max 4, [false, false, true, true, true, false], [false, false, true, true, true, false]),
    (.min 2, .length 3, [false, false, false, true, false, false], [false, false, false, true, false, false]),
    (.min 2, .nonempty, [false, false, true, true, true, true], [false, false, true, true, true, true]),
    (.max 4, .length 3, [false, false, false, true, false, false], [false, false, false, true, false, false]),
    (.max 4, .nonempty, [false, true, true, true, true, false], [false, true, true, true, true, false]),
    (.length 3, .nonempty, [false, false, false, true, false, false], [false, false, false, true, false, false])
  ]

def tagBlock23 : Block where
  fty := ⟨false, .slice_ptr_string⟩
  probes := [.elems 0, .elems 1, .elems 2, .elems 3, .elems 4, .elems 5]
  singles := [
    (.required, [true, true, true, true, true, true]),
    (.min 2, [false, false, true, true, true, true]),
    (.max 4, [true, true, true, true, true, false]),
    (.length 3, [false, false, false, true, false, false]),
    (.nonempty, [false, true, true, true, true, true])
  ]
  pairs := [
    (.required, .min 2, [false, false, true, true, true, true], [false, false, true, true, true, true]),
    (.required, .max 4, [true, true, true, true, true, false], [true, true, true, true, true, false]),
    (.required, .length 3, [false, false, false, true, false, false], [false, false, false, true, false, false]),
    (.required, .nonempty, [false, true, true, true, true, true], [false, true, true, true, true, true]),
    (.min 2, .max 4, [false, false, true, true, true, false], [false, false, true, true, true, false]),
    (.min 2, .length 3, [false, false, false, true, false, false], [false, false, false, true, false, false]),
    (.min 2, .nonempty, [false, false, true, true, true, true], [false, false, true, true, true, true]),
    (.max 4, .length 3, [false, false, false, true, false, false], [false, false, false, true, false, false]),
    (.max 4, .nonempty, [false, true, true, true, true, false], [false, true, true, true, true, false]),
    (.length 3, .nonempty, [false, false, false, true, false, false], [false, false, false, true, false, false])
  ]

def tagBlock24 : Block where
  fty := ⟨false, .map_string_string⟩
  probes := [.elems 0, .elems 1, .elems 2]
  singles := [
    (.required, [true, true, true])
  ]
  pairs := [

  ]

def tagBlock25 : Block where
  fty := ⟨false, .map_string_int⟩
  probes := [.elems 0, .elems 1, .elems 2]
  singles := [
    (.required, [true, true, true])
  ]
  pairs := [

  ]

def tagBlock26 : Block where
  fty := ⟨false, .map_string_any⟩
  probes := [.elems 0, .elems 1, .elems 2]
  singles := [
    (.required, [true, true, true])
  ]
  pairs := [

  ]

def tagBlock27 : Block where
  fty := ⟨false, .map_string_float64⟩
  probes := [.elems 0, .elems 1, .elems 2]
  singles := [
    (.required, [true, true, true])
  ]
  pairs := [

  ]

def tagBlock28 : Block where
  fty := ⟨false, .struct⟩
  probes := [.inner true]
  singles := [
    (.required, [true])
  ]
  pairs := [

  ]

def tagBlock29 : Block where
  fty := ⟨false, .structT⟩
  probes := [.inner true, .inner false]
  singles := [
    (.required, [true, false])
  ]
  pairs := [

  ]

def tagBlock30 : Block where
  fty := ⟨true, .string⟩
  probes := [.nil, .str .plain 19, .str .plain 20, .str .plain 21, .str .plain 25, .str .plain 26, .str .plain 30, .str .plain 31, .str .plain 36, .str .plain 37, .str .other 19, .str .other 20, .str .other 21, .str .other 25, .str .other 26, .str .other 30, .str .other 31, .str .other 36, .str .other 37, .str .email 19, .str .email 20, .str .email 21, .str .email 25, .str .email 26, .str .email 30, .str .email 31, .str .email 36, .str .email 37, .str .url 19, .str .url 20, .str .url 21, .str .url 25, .str .url 26, .str .url 30, .str .url 31, .str .url 36, .str .url 37, .str .uuid 36]
  singles := [
    (.required, [false, true, true, true, true, true, true, true, true, true, true, true, true, true, true, true, true, true, true, true, true, true, true, true, true, true, true, true, true, true, true, true, true, true, true, true, true, true]),
    (.min 20, [true, false, true, true, true, true, true, true, true, true, false, true, true, true, true, true, true, true, true, false, true, true, true, true, true, true, true, true, false, true, true, true, true, true, true, true, true, true]),
    (.max 30, [true, true, true, true, true, true, true, false, false, false, true, true, true, true, true, true, false, false, false, true, true, true, true, true, true, false, false, false, true, true, true, true, true, true, false, false, false, false]),
    (.length 25, [true, false, false, false, true, false, false, false, false, false, false, false, false, true, false, false, false, false, false, false, false, false, true, false, false, false, false, false, false, false, false, true, false, false, false, false, false, false]),
    (.email, [true, false, false, false, false, false, false, false, false, false, false, false, false, false, false, false, false, false, false, true, true, true, true, true, true, true, true, true, false, false, false, false, false, false, false, false, false, false]),
    (.url, [true, false, false, false, false, false, false, false, false, false, false, false, false, false, false, false, false, false, false, false, false, false, false, false, false, false, false, false, true, true, true, true, true, true, true, true, true, false]),
    (.uuid, [true, false, false, false, false, false, false, false, false, false, false, false, false, false, false, false, false, false, false, false, false, false, false, false, false, false, false, false, false, false, false, false, false, false, false, false, false, true]),
    (.regex, [true, true, true, true, true, true, true, true, true, true, false, false, false, false, false, false, false, false, false, false, false, false, false, false, false, false, false, false, false, false, false, false, false, false, false, false, false, false]),
    (.min 37, [true, false, false, false, false, false, false, false, false, true, false, false, false, false, false, false, false, false, true, false, false, false, false, false, false, false, false, true, false, false, false, false, false, false, false, false, true, false])
  ]
  pairs := [
    (.required, .min 20, [false, false, true, true, true, true, true, true, true, true, false, true, true, true, true, true, true, true, true, false, true, true, true, true, true, true, true, true, false, true, true, true, true, true, true, true, true, true], [false, false, true, true, true, true, true, true, true, true, false, true, true, true, true, true, true, true, true, false, true, true, true, true, true, true, true, true, false, true, true, true, true, true, true, true, true, true]),
    (.required, .max 30, [false, true, true, true, true, true, true, false, false, false, true, true, true, true, true, true, false, false, false, true, true, true, true, true, true, false, false, false, true, true, true, true, true, true, false, false, false, false], [false, true, true, true, true, true, true, false, false, false, true, true, true, true, true, true, false, false, false, true, true, true, true, true, true, false, false, false, true, true, true, true, true, true, false, false, false, false]),
    (.required, .length 25, [false, false, false, false, true, false, false, false, false, false, false, false, false, true, false, false, false, false, false, false, false, false, true, false, false, false, false, false, false, false, false, true, false, false, false, false, false, false], [false, false, false, false, true, false, false, false, false, false, false, false, false, true, false, false, false, false, false, false, false, false, true, false, false, false, false, false, false, false, false, true, false, false, false, false, false, false]),
    (.required, .email, [false, false, false, false, false, false, false, false, false, false, false, false, false, false, false, false, false, false, false, true, true, true, true, true, true, true, true, true, false, false, false, false, false, false, false, false, false, false], [false, false, false, false, false, false, false, false, false, false, false, false, false, false, false, false, false, false, false, true, true, true, true, true, true, true, true, true, false, false, false, false, false, false, false, false, false, false]),
    (.required, .url, [false, false, false, false, false, false, false, false, false, false, false, false, false, false, false, false, false, false, false, false, false, false, false, false, false, false, false, false, true, true, true, true, true, true, true, true, true, false], [false, false, false, false, false, false, false, false, false, false, false, false, false, false, false, false, false, false, false, false, false, false, false, false, false, false, false, false, true, true, true, true, true, true, true, true, true, false]),
    (.required, .uuid, [false, false, false, false, false, false, false, false, false, false, false, false, false, false, false, false, false, false, false, false, false, false, false, false, false, false, false, false, false, false, false, false, false, false, false, false, false, true], [false, false, false, false, false, false, false, false, false, false, false, false, false, false, false, false, false, false, false, false, false, false, false, false, false, false, false, false, false, false, false, false, false, false, false, false, false, true]),
    (.required, .regex, [false, true, true, true, true, true, true, true, true, true, false, false, false, false, false, false, false, false, false, false, false, false, false, false, false, false, false, false, false, false, false, false, false, false, false, false, false, false], [false, true, true, true, true, true, true, true, true, true, false, false, false, false, false, false, false, false, false, false, false, false, false, false, false, false, false, false, false, false, false, false, false, false, false, false, false, false]),
    (.min 20, .max 30, [true, false, true, true, true, true, true, false, false, false, false, true, true, true, true, true, false, false, false, false, true, true, true, true, true, false, false, false, false, true, true, true, true, true, false, false, false, false], [true, false, true, true, true, true, true, false, false, false, false, true, true, true, true, true, false, false, false, false, true, true, true, true, true, false, false, false, false, true, true, true, true, true, false, false, false, false]),
    (.min 20, .length 25, [true, false, false, false, true, false, false, false, false, false, false, false, false, true, false, false, false, false, false, false, false, false, true, false, false, false, false, false, false, false, false, true, false, false, false, false, false, false], [true, false, false, false, true, false, false, false, false, false, false, false, false, true, false, false, false, false, false, false, false, false, true, false, false, false, false, false, false, false, false, true, false, false, false, false, false, false]),
    (.min 20, .email, [true, false, false, false, false, false, false, false, false, false, false, false, false, false, false, false, false, false, false, false, true, true, true, true, true, true, true, true, false, false, false, false, false, false, false, false, false, false], [true, false, false, false, false, false, false, false, false, false, false, false, false, false, false, false, false, false, false, false, true, true, true, true, true, true, true, true, false, false, false, false, false, false, false, false, false, false]),
    (.min 20, .url, [true, false, false, false, false, false, false, false, false, false, false, false, false, false, false, false, false, false, false, false, false, false, false, false, false, false, false, false, false, true, true, true, true, true, true, true, true, false], [true, false, false, false, false, false, false, false, false, false, false, false, false, false, false, false, false, false, false, false, false, false, false, false, false, false, false, false, false, true, true, true, true, true, true, true, true, false]),
    (.min 20, .uuid, [true, false, false, false, false, false, false, false, false, false, false, false, false, false, false, false, false, false, false, false, false, false, false, false, false, false, false, false, false, false, false, false, false, false, false, false, false, true], [true, false, false, false, false, false, false, false, false, false, false, false, false, false, false, false, false, false, false, false, false, false, false, false, false, false, false, false, false, false, false, false, false, false, false, false, false, true]),
    (.min 20, .regex, [true, false, true, true, true, true, true, true, true, true, false, false, false, false, false, false, false, false, false, false, false, false, false, false, false, false, false, false, false, false, false, false, false, false, false, false, false, false], [true, false, true, true, true, true, true, true, true, true, false, false, false, false, false, false, false, false, false, false, false, false, false, false, false, false, false, false, false, false, false, false, false, false, false, false, false, false]),
    (.max 30, .length 25, [true, false, false, false, true, false, false, false, false, false, false, false, false, true, false, false, false, false, false, false, false, false, true, false, false, false, false, false, false, false, false, true, false, false, false, false, false, false], [true, false, false, false, true, false, false, false, false, false, false, false, false, true, false, false, false, false, false, false, false, false, true, false, false, false, false, false, false, false, false, true, false, false, false, false, false, false]),
    (.max 30, .email, [true, false, false, false, false, false, false, false, false, false, false, false, false, false, false, false, false, false, false, true, true, true, true, true, true, false, false, false, false, false, false, false, false, false, false, false, false, false], [true, false, false, false, false, false, false, false, false, false, false, false, false, false, false, false, false, false, false, true, true, true, true, true, true, false, false, false, false, false, false, false, false, false, false, false, false, false]),
    (.max 30, .url, [true, false, false, false, false, false, false, false, false, false, false, false, false, false, false, false, false, false, false, false, false, false, false, false, false, false, false, false, true, true, true, true, true, true, false, false, false, false], [true, false, false, false, false, false, false, false, false, false, false, false, false, false, false, false, false, false, false, false, false, false, false, false, false, false, false, false, true, true, true, true, true, true, false, false, false, false]),
    (.max 30, .uuid, [true, false, false, false, false, false, false, false, false, false, false, false, false, false, false, false, false, false, false, false, false, false, false, false, false, false, false, false, false, false, false, false, false, false, false, false, false, false], [true, false, false, false, false, false, false, false, false, false, false, false, false, false, false, false, false, false, false, false, false, false, false, false, false, false, false, false, false, false, false, false, false, false, false, false, false, false]),
    (.max 30, .regex, [true, true, true, true, true, true, true, false, false, false, false, false, false, false, false, false, false, false, false, false, false, false, false, false, false, false, false, false, false, false, false, false, false, false, false, false, false, false], [true, true, true, true, true, true, true, false, false, false, false, false, false, false, false, false, false, false, false, false, false, false, false, false, false, false, false, false, false, false, false, false, false, false, false, false, false, false]),
    (.length 25, .email, [true, false, false, false, false, false, false, false, false, false, false, false, false, false, false, false, false, false, false, false, false, false, true, false, false, false, false, false, false, false, false, false, false, false, false, false, false, false], [true, false, false, false, false, false, false, false, false, false, false, false, false, false, false, false, false, false, false, false, false, false, true, false, false, false, false, false, false, false, false, false, false, false, false, false, false, false]),
    (.length 25, .url, [true, false, false, false, false, false, false, false, false, false, false, false, false, false, false, false, false, false, false, false, false, false, false, false, false, false, false, false, false, false, false, true, false, false, false, false, false, false], [true, false, false, false, false, false, false, false, false, false, false, false, false, false, false, false, false, false, false, false, false, false, false, false, false, false, false, false, false, false, false, true, false, false, false, false, false, false]),
    (.length 25, .uuid, [true, false, false, false, false, false, false, false, false, false, false, false, false, false, false, false, false, false, false, false, false, false, false, false, false, false, false, false, false, false, false, false, false, false, false, false, false, false], [true, false, false, false, false, false, false, false, false, false, false, false, false, false, false, false, false, false, false, false, false, false, false, false, false, false, false, false, false, false, false, false, false, false, false, false, false, false]),
    (.length 25, .regex, [true, false, false, false, true, false, false, false, false, false, false, false, false, false, false, false, false, false, false, false, false, false, false, false, false, false, false, false, false, false, false, false, false, false, false, false, false, false], [true, false, false, false, true, false, false, false, false, false, false, false, false, false, false, false, false, false, false, false, false, false, false, false, false, false, false, false, false, false, false, false, false, false, false, false, false, false]),
    (.email, .url, [true, false, false, false, false, false, false, false, false, false, false, false, false, false, false, false, false, false, false, false, false, false, false, false, false, false, false, false, false, false, false, false, false, false, false, false, false, false], [true, false, false, false, false, false, false, false, false, false, false, false, false, false, false, false, false, false, false, false, false, false, false, false, false, false, false, false, false, false, false, false, false, false, false, false, false, false]),
    (.email, .uuid, [true, false, false, false, false, false, false, false, false, false, false, false, false, false, false, false, false, false, false, false, false, false, false, false, false, false, false, false, false, false, false, false, false, false, false, false, false, false], [true, false, false, false, false, false, false, false, false, false, false, false, false, false, false, false, false, false, false, false, false, false, false, false, false, false, false, false, false, false, false, false, false, false, false, false, false, false]),
    (.email, .regex, [true, false, false, false, false, false, false, false, false, false, false, false, false, false, false, false, false, false, false, false, false, false, false, false, false, false, false, false, false, false, false, false, false, false, false, false, false, false], [true, false, false, false, false, false, false, false, false, false, false, false, false, false, false, false, false, false, false, false, false, false, false, false, false, false, false, false, false, false, false, false, false, false, false, false, false, false]),
    (.url, .uuid, [true, false, false, false, false, false, false, false, false, false, false, false, false, false, false, false, false, false, false, false, false, false, false, false, false, false, false, false, false, false, false, false, false, false, false, false, false, false], [true, false, false, false, false, false, false, false, false, false, false, false, false, false, false, false, false, false, false, false, false, false, false, false, false, false, false, false, false, false, false, false, false, false, false, false, false, false]),
    (.url, .regex, [true, false, false, false, false, false, false, false, false, false, false, false, false, false, false, false, false, false, false, false, false, false, false, false, false, false, false, false, false, false, false, false, false, false, false, false, false, false], [true, false, false, false, false, false, false, false, false, false, false, false, false, false, false, false, false, false, false, false, false, false, false, false, false, false, false, false, false, false, false, false, false, false, false, false, false, false]),
    (.uuid, .regex, [true, false, false, false, false, false, false, false, false, false, false, false, false, false, false, false, false, false, false, false, false, false, false, false, false, false, false, false, false, false, false, false, false, false, false, false, false, false], [true, false, false, false, false, false, false, false, false, false, false, false, false, false, false, false, false, false, false, false, false, false, false, false, false, false, false, false, false, false, false, false, false, false, false, false, false, false]),
    (.min 37, .uuid, [true, false, false, false, false, false, false, false, false, false, false, false, false, false, false, false, false, false, false, false, false, false, false, false, false, false, false, false, false, false, false, false, false, false, false, false, false, false], [true, false, false, false, false, false, false, false, false, false, false, false, false, false, false, false, false, false, false, false, false, false, false, false, false, false, false, false, false, false, false, false, false, false, false, false, false, false])
  ]

def tagBlock31 : Block where
  fty := ⟨true, .int⟩
  probes := [.nil, .num (-4), .num (-2), .num 0, .num 2, .num 4, .num 6, .num 8, .num 10, .num 12, .num 18014398509481984, .num 18014398509481986, .num 18014398509481988, .num 18446744073709551612, .num 18446744073709551614, .num (-18446744073709551616), .num (-18446744073709551614)]
  singles := [
    (.required, [false, true, true, true, true, true, true, true, true, true, true, true, true, true, true, true, true]),
    (.min 3, [true, false, false, false, false, false, true, true, true, true, true, true, true, true, true, false, false]),
    (.max 5, [true, true, true, true, true, true, true, true, true, false, false, false, false, false, false, true, true]),
    (.positive, [true, false, false, false, true, true, true, true, true, true, true, true, true, true, true, false, false]),
    (.negative, [true, true, true, false, false, false, false, false, false, false, false, false, false, false, false, true, true]),
    (.nonnegative, [true, false, false, true, true, true, true, true, true, true, true, true, true, true, true, false, false]),
    (.nonpositive, [true, true, true, true, false, false, false, false, false, false, false, false, false, false, false, true, true]),
    (.min 9007199254740993, [true, false, false, false, false, false, false, false, false, false, false, true, true, true, true, false, false]),
    (.max 9007199254740993, [true, true, true, true, true, true, true, true, true, true, true, true, false, false, false, true, true]),
    (.min 9223372036854775807, [true, false, false, false, false, false, false, false, false, false, false, false, false, false, true, false, false]),
    (.max 9223372036854775807, [true, true, true, true, true, true, true, true, true, true, true, true, true, true, true, true, true]),
    (.min (-9223372036854775808), [true, true, true, true, true, true, true, true, true, true, true, true, true, true, true, true, true]),
    (.max (-9223372036854775808), [true, false, false, false, false, false, false, false, false, false, false, false, false, false, false, true, false]),
    (.gt 9007199254740993, [true, false, false, false, false, false, false, false, false, false, false, false, true, true, true, false, false]),
    (.gte 9007199254740993, [true, false, false, false, false, false, false, false, false, false, false, true, true, true, true, false, false]),
    (.lt 9007199254740993, [true, true, true, true, true, true, true, true, true, true, true, false, false, false, false, true, true]),
    (.lte 9007199254740993, [true, true, true, true, true, true, true, true, true, true, true, true, false, false, false, true, true]),
    (.gt 3, [true, false, false, false, false, false, false, true, true, true, true, true, true, true, true, false, false]),
    (.gte 3, [true, false, false, false, false, false, true, true, true, true, true, true, true, true, true, false, false]),
    (.lt 5, [true, true, true, true, true, true, true, true, false, false, false, false, false, false, false, true, true]),
    (.lte 5, [true, true, true, true, true, true, true, true, true, false, false, false, false, false, false, true, true])
  ]
  pairs := [
    (.required, .min 3, [false, false, false, false, false, false, true, true, true, true, true, true, true, true, true, false, false], [false, false, false, false, false, false, true, true, true, true, true, true, true, true, true, false, false]),
    (.required, .max 5, [false, true, true, true, true, true, true, true, true, false, false, false, false, false, false, true, true], [false, true, true, true, true, true, true, true, true, false, false, false, false, false, false, true, true]),
    (.required, .positive, [false, false, false, false, true, true, true, true, true, true, true, true, true, true, true, false, false], [false, false, false, false, true, true, true, true, true, true, true, true, true, true, true, false, false]),
    (.required, .negative, [false, true, true, false, false, false, false, false, false, false, false, false, false, false, false, true, true], [false, true, true, false, false, false, false, false, false, false, false, false, false, false, false, true, true]),
    (.required, .nonnegative, [false, false, false, true, true, true, true, true, true, true, true, true, true, true, true, false, false], [false, false, false, true, true, true, true, true, true, true, true, true, true, true, true, false, false]),
    (.required, .nonpositive, [false, true, true, true, false, false, false, false, false, false, false, false, false, false, false, true, true], [false, true, true, true, false, false, false, false, false, false, false, false, false, false, false, true, true]),
    (.min 3, .max 5, [true, false, false, false, false, false, true, true, true, false, false, false, false, false, false, false, false], [true, false, false, false, false, false, true, true, true, false, false, false, false, false, false, false, false]),
    (.min 3, .positive, [true, false, false, false, false, false, true, true, true, true, true, true, true, true, true, false, false], [true, false, false, false, false, false, true, true, true, true, true, true, true, true, true, false, false]),
    (.min 3, .negative, [true, false, false, false, false, false, false, false, false, false, false, false, false, false, false, false, false], [true, false, false, false, false, false, false, false, false, false, false, false, false, false, false, false, false]),
    (.min 3, .nonnegative, [true, false, false, false, false, false, true, true, true, true, true, true, true, true, true, false, false], [true, false, false, false, false, false, true, true, true, true, true, true, true, true, true, false, false]),
    (.min 3, .nonpositive, [true, false, false, false, false, false, false, false, false, false, false, false, false, false, false, false, false], [true, false, false, false, false, false, false, false, false, false, false, false, false, false, false, false, false]),
    (.max 5, .positive, [true, false, false, false, true, true, true, true, true, false, false, false, false, false, false, false, false], [true, false, false, false, true, true, true, true, true, false, false, false, false, false, false, false, false]),
    (.max 5, .negative, [true, true, true, false, false, false, false, false, false, false, false, false, false, false, false, true, true], [true, true, true, false, false, false, false, false, false, false, false, false, false, false, false, true, true]),
    (.max 5, .nonnegative, [true, false, false, true, true, true, true, true, true, false, false, false, false, false, false, false, false], [true, false, false, true, true, true, true, true, true, false, false, false, false, false, false, false, false]),
    (.max 5, .nonpositive, [true, true, true, true, false, false, false, false, false, false, false, false, false, false, false, true, true], [true, true, true, true, false, false, false, false, false, false, false, false, false, false, false, true, true]),
    (.positive, .negative, [true, false, false, false, false, false, false, false, false, false, false, false, false, false, false, false, false], [true, false, false, false, false, false, false, false, false, false, false, false, false, false, false, false, false]),
    (.positive, .nonnegative, [true, false, false, false, true, true, true, true, true, true, true, true, true, true, true, false, false], [true, false, false, false, true, true, true, true, true, true, true, true, true, true, true, false, false]),
    (.positive, .nonpositive, [true, false, false, false, false, false, false, false, false, false, false, false, false, false, false, false, false], [true, false, false, false, false, false, false, false, false, false, false, false, false, false, false, false, false]),
    (.negative, .nonnegative, [true, false, false, false, false, false, false, false, false, false, false, false, false, false, false, false, false], [true, false, false, false, false, false, false, false, false, false, false, false, false, false, false, false, false]),
    (.negative, .nonpositive, [true, true, true, false, false, false, false, false, false, false, false, false, false, false, false, true, true], [true, true, true, false, false, false, false, false, false, false, false, false, false, false, false, true, true]),
    (.nonnegative, .nonpositive, [true, false, false, true, false, false, false, false, false, false, false, false, false, false, false, false, false], [true, false, false, true, false, false, false, false, false, false, false, false, false, false, false, false, false])
  ]

def tagBlock32 : Block where
  fty := ⟨true, .int8⟩
  probes := [.nil, .num (-4), .num (-2), .num 0, .num 2, .num 4, .num 6, .num 8, .num 10, .num 12, .num 252, .num 254, .num (-256), .num (-254)]
  singles := [
    (.required, [false, true, true, true, true, true, true, true, true, true, true, true, true, true]),
    (.min 3, [true, false, false, false, false, false, true, true, true, true, true, true, false, false]),
    (.max 5, [true, true, true, true, true, true, true, true, true, false, false, false, true, true]),
    (.positive, [true, false, false, false, true, true, true, true, true, true, true, true, false, false]),
    (.negative, [true, true, true, false, false, false, false, false, false, false, false, false, true, true]),
    (.nonnegative, [true, false, false, true, true, true, true, true, true, true, true, true, false, false]),
    (.nonpositive, [true, true, true, true, false, false, false, false, false, false, false, false, true, true]),
    (.min 127, [true, false, false, false, false, false, false, false, false, false, false, true, false, false]),
    (.max 127, [true, true, true, true, true, true, true, true, true, true, true, true, true, true]),
    (.min (-128), [true, true, true, true, true, true, true, true, true, true, true, true, true, true]),
    (.max (-128), [true, false, false, false, false, false, false, false, false, false, false, false, true, false]),
    (.gt 3, [true, false, false, false, false, false, false, true, true, true, true, true, false, false]),
    (.gte 3, [true, false, false, false, false, false, true, true, true, true, true, true, false, false]),
    (.lt 5, [true, true, true, true, true, true, true, true, false, false, false, false, true, true]),
    (.lte 5, [true, true, true, true, true, true, true, true, true, false, false, false, true, true])
  ]
  pairs := [
    (.required, .min 3, [false, false, false, false, false, false, true, true, true, true, true, true, false, false], [false, false, false, false, false, false, true, true, true, true, true, true, false, false]),
    (.required, .max 5, [false, true, true, true, true, true, true, true, true, false, false, false, true, true], [false, true, true, true, true, true, true, true, true, false, false, false, true, true]),
    (.required, .positive, [false, false, false, false, true, true, true, true, true, true, true, true, false, false], [false, false, false, false, true, true, true, true, true, true, true, true, false, false]),
    (.required, .negative, [false, true, true, false, false, false, false, false, false, false, false, false, true, true], [false, true, true, false, false, false, false, false, false, false, false, false, true, true]),
    (.required, .nonnegative, [false, false, false, true, true, true, true, true, true, true, true, true, false, false], [false, false, false, true, true, true, true, true, true, true, true, true, false, false]),
    (.required, .nonpositive, [false, true, true, true, false, false, false, false, false, false, false, false, true, true], [false, true, true, true, false, false, false, false, false, false, false, false, true, true]),
    (.min 3, .max 5, [true, false, false, false, false, false, true, true, true, false, false, false, false, false], [true, false, false, false, false, false, true, true, true, false, false, false, false, false]),
    (.min 3, .positive, [true, false, false, false, false, false, true, true, true, true, true, true, false, false], [true, false, false, false, false, false, true, true, true, true, true, true, false, false]),
    (.min 3, .negative, [true, false, false, false, false, false, false, false, false, false, false, false, false, false], [true, false, false, false, false, false, false, false, false, false, false, false, false, false]),
    (.min 3, .nonnegative, [true, false, false, false, false, false, true, true, true, true, true, true, false, false], [true, false, false, false, false, false, true, true, true, true, true, true, false, false]),
    (.min 3, .nonpositive, [true, false, false, false, false, false, false, false, false, false, false, false, false, false], [true, false, false, false, false, false, false, false, false, false, false, false, false, false]),
    (.max 5, .positive, [true, false, false, false, true, true, true, true, true, false, false, false, false, false], [true, false, false, false, true, true, true, true, true, false, false, false, false, false]),
    (.max 5, .negative, [true, true, true, false, false, false, false, false, false, false, false, false, true, true], [true, true, true, false, false, false, false, false, false, false, false, false, true, true]),
    (.max 5, .nonnegative, [true, false, false, true, true, true, true, true, true, false, false, false, false, false], [true, false, false, true, true, true, true, true, true, false, false, false, false, false]),
    (.max 5, .nonpositive, [true, true, true, true, false, false, false, false, false, false, false, false, true, true], [true, true, true, true, false, false, false, false, false, false, false, false, true, true]),
    (.positive, .negative, [true, false, false, false, false, false, false, false, false, false, false, false, false, false], [true, false, false, false, false, false, false, false, false, false, false, false, false, false]),
    (.positive, .nonnegative, [true, false, false, false, true, true, true, true, true, true, true, true, false, false], [true, false, false, false, true, true, true, true, true, true, true, true, false, false]),
    (.positive, .nonpositive, [true, false, false, false, false, false, false, false, false, false, false, false, false, false], [true, false, false, false, false, false, false, false, false, false, false, false, false, false]),
    (.negative, .nonnegative, [true, false, false, false, false, false, false, false, false, false, false, false, false, false], [true, false, false, false, false, false, false, false, false, false, false, false, false, false]),
    (.negative, .nonpositive, [true, true, true, false, false, false, false, false, false, false, false, false, true, true], [true, true, true, false, false, false, false, false, false, false, false, false, true, true]),
    (.nonnegative, .nonpositive, [true, false, false, true, false, false, false, false, false, false, false, false, false, false], [true, false, false, true, false, false, false, false, false, false, false, false, false, false])
  ]

def tagBlock33 : Block where
  fty := ⟨true, .int16⟩
  probes := [.nil, .num (-4), .num (-2), .num 0, .num 2, .num 4, .num 6, .num 8, .num 10, .num 12, .num 65532, .num 65534, .num (-65536), .num (-65534)]
  singles := [
    (.required, [false, true, true, true, true, true, true, true, true, true, true, true, true, true]),
    (.min 3, [true, false, false, false, false, false, true, true, true, true, true, true, false, false]),
    (.max 5, [true, true, true, true, true, true, true, true, true, false, false, false, true, true]),
    (.positive, [true, false, false, false, true, true, true, true, true, true, true, true, false, false]),
    (.negative, [true, true, true, false, false, false, false, false, false, false, false, false, true, true]),
    (.nonnegative, [true, false, false, true, true, true, true, true, true, true, true, true, false, false]),
    (.nonpositive, [true, true, true, true, false, false, false, false, false, false, false, false, true, true]),
    (.min 32767, [true, false, false, false, false, false, false, false, false, false, false, true, false, false]),
    (.max 32767, [true, true, true, true, true, true, true, true, true, true, true, true, true, true]),
    (.min (-32768), [true, true, true, true, true, true, true, true, true, true, true, true, true, true]),
    (.max (-32768), [true, false, false, false, false, false, false, false, false, false, false, false, true, false]),
    (.gt 3, [true, false, false, false, false, false, false, true, true, true, true, true, false, false]),
    (.gte 3, [true, false, false, false, false, false, true, true, true, true, true, true, false, false]),
    (.lt 5, [true, true, true, true, true, true, true, true, false, false, false, false, true, true]),
    (.lte 5, [true, true, true, true, true, true, true, true, true, false, false, false, true, true])
  ]
  pairs := [
    (.required, .min 3, [false, false, false, false, false, false, true, true, true, true, true, true, false, false], [false, false, false, false, false, false, true, true, true, true, true, true, false, false]),
    (.required, .max 5, [false, true, true, true, true, true, true, true, true, false, false, false, true, true], [false, true, true, true, true, true, true, true, true, false, false, false, true, true]),
    (.required, .positive, [false, false, false, false, true, true, true, true, true, true, true, true, false, false], [false, false, false, false, true, true, true, true, true, true, true, true, false, false]),
    (.required, .negative, [false, true, true, false, false, false, false, false, false, false, false, false, true, true], [false, true, true, false, false, false, false, false, false, false, false, false, true, true]),
    (.required, .nonnegative, [false, false, false, true, true, true, true, true, true, true, true, true, false, false], [false, false, false, true, true, true, true, true, true, true, true, true, false, false]),
    (.required, .nonpositive, [false, true, true, true, false, false, false, false, false, false, false, false, true, true], [false, true, true, true, false, false, false, false, false, false, false, false, true, true]),
    (.min 3, .max 5, [true, false, false, false, false, false, true, true, true, false, false, false, false, false], [true, false, false, false, false, false, true, true, true, false, false, false, false, false]),
    (.min 3, .positive, [true, false, false, false, false, false, true, true, true, true, true, true, false, false], [true, false, false, false, false, false, true, true, true, true, true, true, false, false]),
    (.min 3, .negative, [true, false, false, false, false, false, false, false, false, false, false, false, false, false], [true, false, false, false, false, false, false, false, false, false, false, false, false, false]),
    (.min 3, .nonnegative, [true, false, false, false, false, false, true, true, true, true, true, true, false, false], [true, false, false, false, false, false, true, true, true, true, true, true, false, false]),
    (.min 3, .nonpositive, [true, false, false, false, false, false, false, false, false, false, false, false, false, false], [true, false, false, false, false, false, false, false, false, false, false, false, false, false]),
    (.max 5, .positive, [true, false, false, false, true, true, true, true, true, false, false, false, false, false], [true, false, false, false, true, true, true, true, true, false, false, false, false, false]),
    (.max 5, .negative, [true, true, true, false, false, false, false, false, false, false, false, false, true, true], [true, true, true, false, false, false, false, false, false, false, false, false, true, true]),
    (.max 5, .nonnegative, [true, false, false, true, true, true, true, true, true, false, false, false, false, false], [true, false, false, true, true, true, true, true, true, false, false, false, false, false]),
    (.max 5, .nonpositive, [true, true, true, true, false, false, false, false, false, false, false, false, true, true], [true, true, true, true, false, false, false, false, false, false, false, false, true, true]),
    (.positive, .negative, [true, false, false, false, false, false, false, false, false, false, false, false, false, false], [true, false, false, false, false, false, false, false, false, false, false, false, false, false]),
    (.positive, .nonnegative, [true, false, false, false, true, true, true, true, true, true, true, true, false, false], [true, false, false, false, true, true, true, true, true, true, true, true, false, false]),
    (.positive, .nonpositive, [true, false, false, false, false, false, false, false, false, false, false, false, false, false], [true, false, false, false, false, false, false, false, false, false, false, false, false, false]),
    (.negative, .nonnegative, [true, false, false, false, false, false, false, false, false, false, false, false, false, false], [true, false, false, false, false, false, false, false, false, false, false, false, false, false]),
    (.negative, .nonpositive, [true, true, true, false, false, false, false, false, false, false, false, false, true, true], [true, true, true, false, false, false, false, false, false, false, false, false, true, true]),
    (.nonnegative, .nonpositive, [true, false, false, true, false, false, false, false, false, false, false, false, false, false], [true, false, false, true, false, false, false, false, false, false, false, false, false, false])
  ]

def tagBlock34 : Block where
  fty := ⟨true, .int32⟩
  probes := [.nil, .num (-4), .num (-2), .num 0, .num 2, .num 4, .num 6, .num 8, .num 10, .num 12, .num 4294967292, .num 4294967294, .num (-4294967296), .num (-4294967294)]
  singles := [
    (.required, [false, true, true, true, true, true, true, true, true, true, true, true, true, true]),
    (.min 3, [true, false, false, false, false, false, true, true, true, true, true, true, false, false]),
    (.max 5, [true, true, true, true, true, true, true, true, true, false, false, false, true, true]),
    (.positive, [true, false, false, false, true, true, true, true, true, true, true, true, false, false]),
    (.negative, [true, true, true, false, false, false, false, false, false, false, false, false, true, true]),
    (.nonnegative, [true, false, false, true, true, true, true, true, true, true, true, true, false, false]),
    (.nonpositive, [true, true, true, true, false, false, false, false, false, false, false, false, true, true]),
    (.min 2147483647, [true, false, false, false, false, false, false, false, false, false, false, true, false, false]),
    (.max 2147483647, [true, true, true, true, true, true, true, true, true, true, true, true, true, true]),
    (.min (-2147483648), [true, true, true, true, true, true, true, true, true, true, true, true, true, true]),
    (.max (-2147483648), [true, false, false, false, false, false, false, false, false, false, false, false, true, false]),
    (.gt 3, [true, false, false, false, false, false, false, true, true, true, true, true, false, false]),
    (.gte 3, [true, false, false, false, false, false, true, true, true, true, true, true, false, false]),
    (.lt 5, [true, true, true, true, true, true, true, true, false, false, false, false, true, true]),
    (.lte 5, [true, true, true, true, true, true, true, true, true, false, false, false, true, true])
  ]
  pairs := [
    (.required, .min 3, [false, false, false, false, false, false, true, true, true, true, true, true, false, false], [false, false, false, false, false, false, true, true, true, true, true, true, false, false]),
    (.required, .max 5, [false, true, true, true, true, true, true, true, true, false, false, false, true, true], [false, true, true, true, true, true, true, true, true, false, false, false, true, true]),
    (.required, .positive, [false, false, false, false, true, true, true, true, true, true, true, true, false, false], [false, false, false, false, true, true, true, true, true, true, true, true, false, false]),
    (.required, .negative, [false, true, true, false, false, false, false, false, false, false, false, false, true, true], [false, true, true, false, false, false, false, false, false, false, false, false, true, true]),
    (.required, .nonnegative, [false, false, false, true, true, true, true, true, true, true, true, true, false, false], [false, false, false, true, true, true, true, true, true, true, true, true, false, false]),
    (.required, .nonpositive, [false, true, true, true, false, false, false, false, false, false, false, false, true, true], [false, true, true, true, false, false, false, false, false, false, false, false, true, true]),
    (.min 3, .max 5, [true, false, false, false, false, false, true, true, true, false, false, false, false, false], [true, false, false, false, false, false, true, true, true, false, false, false, false, false]),
    (.min 3, .positive, [true, false, false, false, false, false, true, true, true, true, true, true, false, false], [true, false, false, false, false, false, true, true, true, true, true, true, false, false]),
    (.min 3, .negative, [true, false, false, false, false, false, false, false, false, false, false, false, false, false], [true, false, false, false, false, false, false, false, false, false, false, false, false, false]),
    (.min 3, .nonnegative, [true, false, false, false, false, false, true, true, true, true, true, true, false, false], [true, false, false, false, false, false, true, true, true, true, true, true, false, false]),
    (.min 3, .nonpositive, [true, false, false, false, false, false, false, false, false, false, false, false, false, false], [true, false, false, false, false, false, false, false, false, false, false, false, false, false]),
    (.max 5, .positive, [true, false, false, false, true, true, true, true, true, false, false, false, false, false], [true, false, false, false, true, true, true, true, true, false, false, false, false, false]),
    (.max 5, .negative, [true, true, true, false, false, false, false, false, false, false, false, false, true, true], [true, true, true, false, false, false, false, false, false, false, false, false, true, true]),
    (.max 5, .nonnegative, [true, false, false, true, true, true, true, true, true, false, false, false, false, false], [true, false, false, true, true, true, true, true, true, false, false, false, false, false]),
    (.max 5, .nonpositive, [true, true, true, true, false, false, false, false, false, false, false, false, true, true], [true, true, true, true, false, false, false, false, false, false, false, false, true, true]),
    (.positive, .negative, [true, false, false, false, false, false, false, false, false, false, false, false, false, false], [true, false, false, false, false, false, false, false, false, false, false, false, false, false]),
    (.positive, .nonnegative, [true, false, false, false, true, true, true, true, true, true, true, true, false, false], [true, false, false, false, true, true, true, true, true, true, true, true, false, false]),
    (.positive, .nonpositive, [true, false, false, false, false, false, false, false, false, false, false, false, false, false], [true, false, false, false, false, false, false, false, false, false, false, false, false, false]),
    (.negative, .nonnegative, [true, false, false, false, false, false, false, false, false, false, false, false, false, false], [true, false, false, false, false, false, false, false, false, false, false, false, false, false]),
    (.negative, .nonpositive, [true, true, true, false, false, false, false, false, false, false, false, false, true, true], [true, true, true, false, false, false, false, false, false, false, false, false, true, true]),
    (.nonnegative, .nonpositive, [true, false, false, true, false, false, false, false, false, false, false, false, false, false], [true, false, false, true, false, false, false, false, false, false, false, false, false, false])
  ]

def tagBlock35 : Block where
  fty := ⟨true, .int64⟩
  probes := [.nil, .num (-4), .num (-2), .num 0, .num 2, .num 4, .num 6, .num 8, .num 10, .num 12, .num 18014398509481984, .num 18014398509481986, .num 18014398509481988, .num 18446744073709551612, .num 18446744073709551614, .num (-18446744073709551616), .num (-18446744073709551614)]
  singles := [
    (.required, [false, true, true, true, true, true, true, true, true, true, true, true, true, true, true, true, true]),
    (.min 3, [true, false, false, false, false, false, true, true, true, true, true, true, true, true, true, false, false]),
    (.max 5, [true, true, true, true, true, true, true, true, true, false, false, false, false, false, false, true, true]),
    (.positive, [true, false, false, false, true, true, true, true, true, true, true, true, true, true, true, false, false]),
    (.negative, [true, true, true, false, false, false, false, false, false, false, false, false, false, false, false, true, true]),
    (.nonnegative, [true, false, false, true, true, true, true, true, true, true, true, true, true, true, true, false, false]),
    (.nonpositive, [true, true, true, true, false, false, false, false, false, false, false, false, false, false, false, true, true]),
    (.min 9007199254740993, [true, false, false, false, false, false, false, false, false, false, false, true, true, true, true, false, false]),
    (.max 9007199254740993, [true, true, true, true, true, true, true, true, true, true, true, true, false, false, false, true, true]),
    (.min 9223372036854775807, [true, false, false, false, false, false, false, false, false, false, false, false, false, false, true, false, false]),
    (.max 9223372036854775807, [true, true, true, true, true, true, true, true, true, true, true, true, true, true, true, true, true]),
    (.min (-9223372036854775808), [true, true, true, true, true, true, true, true, true, true, true, true, true, true, true, true, true]),
    (.max (-9223372036854775808), [true, false, false, false, false, false, false, false, false, false, false, false, false, false, false, true, false]),
    (.gt 9007199254740993, [true, false, false, false, false, false, false, false, false, false, false, false, true, true, true, false, false]),
    (.gte 9007199254740993, [true, false, false, false, false, false, false, false, false, false, false, true, true, true, true, false, false]),
    (.lt 9007199254740993, [true, true, true, true, true, true, true, true, true, true, true, false, false, false, false, true, true]),
    (.lte 9007199254740993, [true, true, true, true, true, true, true, true, true, true, true, true, false, false, false, true, true]),
    (.gt 3, [true, false, false, false, false, false, false, true, true, true, true, true, true, true, true, false, false]),
    (.gte 3, [true, false, false, false, false, false, true, true, true, true, true, true, true, true, true, false, false]),
    (.lt 5, [true, true, true, true, true, true, true, true, false, false, false, false, false, false, false, true, true]),
    (.lte 5, [true, true, true, true, true, true, true, true, true, false, false, false, false, false, false, true, true])
  ]
  pairs := [
    (.required, .min 3, [false, false, false, false, false, false, true, true, true, true, true, true, true, true, true, false, false], [false, false, false, false, false, false, true, true, true, true, true, true, true, true, true, false, false]),
    (.required, .max 5, [false, true, true, true, true, true, true, true, true, false, false, false, false, false, false, true, true], [false, true, true, true, true, true, true, true, true, false, false, false, false, false, false, true, true]),
    (.required, .positive, [false, false, false, false, true, true, true, true, true, true, true, true, true, true, true, false, false], [false, false, false, false, true, true, true, true, true, true, true, true, true, true, true, false, false]),
    (.required, .negative, [false, true, true, false, false, false, false, false, false, false, false, false, false, false, false, true, true], [false, true, true, false, false, false, false, false, false, false, false, false, false, false, false, true, true]),
    (.required, .nonnegative, [false, false, false, true, true, true, true, true, true, true, true, true, true, true, true, false, false], [false, false, false, true, true, true, true, true, true, true, true, true, true, true, true, false, false]),
    (.required, .nonpositive, [false, true, true, true, false, false, false, false, false, false, false, false, false, false, false, true, true], [false, true, true, true, false, false, false, false, false, false, false, false, false, false, false, true, true]),
    (.min 3, .max 5, [true, false, false, false, false, false, true, true, true, false, false, false, false, false, false, false, false], [true, false, false, false, false, false, true, true, true, false, false, false, false, false, false, false, false]),
    (.min 3, .positive, [true, false, false, false, false, false, true, true, true, true, true, true, true, true, true, false, false], [true, false, false, false, false, false, true, true, true, true, true, true, true, true, true, false, false]),
    (.min 3, .negative, [true, false, false, false, false, false, false, false, false, false, false, false, false, false, false, false, false], [true, false, false, false, false, false, false, false, false, false, false, false, false, false, false, false, false]),
    (.min 3, .nonnegative, [true, false, false, false, false, false, true, true, true, true, true, true, true, true, true, false, false], [true, false, false, false, false, false, true, true, true, true, true, true, true, true, true, false, false]),
    (.min 3, .nonpositive, [true, false, false, false, false, false, false, false, false, false, false, false, false, false, false, false, false], [true, false, false, false, false, false, false, false, false, false, false, false, false, false, false, false, false]),
    (.max 5, .positive, [true, false, false, false, true, true, true, true, true, false, false, false, false, false, false, false, false], [true, false, false, false, true, true, true, true, true, false, false, false, false, false, false, false, false]),
    (.max 5, .negative, [true, true, true, false, false, false, false, false, false, false, false, false, false, false, false, true, true], [true, true, true, false, false, false, false, false, false, false, false, false, false, false, false, true, true]),
    (.max 5, .nonnegative, [true, false, false, true, true, true, true, true, true, false, false, false, false, false, false, false, false], [true, false, false, true, true, true, true, true, true, false, false, false, false, false, false, false, false]),
    (.max 5, .nonpositive, [true, true, true, true, false, false, false, false, false, false, false, false, false, false, false, true, true], [true, true, true, true, false, false, false, false, false, false, false, false, false, false, false, true, true]),
    (.positive, .negative, [true, false, false, false, false, false, false, false, false, false, false, false, false, false, false, false, false], [true, false, false, false, false, false, false, false, false, false, false, false, false, false, false, false, false]),
    (.positive, .nonnegative, [true, false, false, false, true, true, true, true, true, true, true, true, true, true, true, false, false], [true, false, false, false, true, true, true, true, true, true, true, true, true, true, true, false, false]),
    (.positive, .nonpositive, [true, false, false, false, false, false, false, false, false, false, false, false, false, false, false, false, false], [true, false, false, false, false, false, false, false, false, false, false, false, false, false, false, false, false]),
    (.negative, .nonnegative, [true, false, false, false, false, false, false, false, false, false, false, false, false, false, false, false, false], [true, false, false, false, false, false, false, false, false, false, false, false, false, false, false, false, false]),
    (.negative, .nonpositive, [true, true, true, false, false, false, false, false, false, false, false, false, false, false, false, true, true], [true, true, true, false, false, false, false, false, false, false, false, false, false, false, false, true, true]),
    (.nonnegative, .nonpositive, [true, false, false, true, false, false, false, false, false, false, false, false, false, false, false, false, false], [true, false, false, true, false, false, false, false, false, false, false, false, false, false, false, false, false])
  ]

def tagBlock36 : Block where
  fty := ⟨true, .uint⟩
  probes := [.nil, .num 0, .num 2, .num 4, .num 6, .num 8, .num 10, .num 12, .num 18014398509481984, .num 18014398509481986, .num 18014398509481988, .num 18446744073709551612, .num 18446744073709551614, .num 18446744073709551616, .num 36893488147419103228, .num 36893488147419103230]
  singles := [
    (.required, [false, true, true, true, true, true, true, true, true, true, true, true, true, true, true, true]),
    (.min 3, [true, false, false, false, true, true, true, true, true, true, true, true, true, true, true, true]),
    (.max 5, [true, true, true, true, true, true, true, false, false, false, false, false, false, false, false, false]),
    (.positive, [true, false, true, true, true, true, true, true, true, true, true, true, true, true, true, true]),
    (.negative, [true, false, false, false, false, false, false, false, false, false, false, false, false, false, false, false]),
    (.nonnegative, [true, true, true, true, true, true, true, true, true, true, true, true, true, true, true, true]),
    (.nonpositive, [true, true, false, false, false, false, false, false, false, false, false, false, false, false, false, false]),
    (.min 9007199254740993, [true, false, false, false, false, false, false, false, false, true, true, true, true, true, true, true]),
    (.max 9007199254740993, [true, true, true, true, true, true, true, true, true, true, false, false, false, false, false, false]),
    (.min 9223372036854775807, [true, false, false, false, false, false, false, false, false, false, false, false, true, true, true, true]),
    (.max 9223372036854775807, [true, true, true, true, true, true, true, true, true, true, true, true, true, false, false, false]),
    (.min 18446744073709551615, [true, false, false, false, false, false, false, false, false, false, false, false, false, false, false, true]),
    (.max 18446744073709551615, [true, true, true, true, true, true, true, true, true, true, true, true, true, true, true, true]),
    (.gt 9007199254740993, [true, false, false, false, false, false, false, false, false, false, true, true, true, true, true, true]),
    (.gte 9007199254740993, [true, false, false, false, false, false, false, false, false, true, true, true, true, true, true, true]),
    (.lt 9007199254740993, [true, true, true, true, true, true, true, true, true, false, false, false, false, false, false, false]),
    (.lte 9007199254740993, [true, true, true, true, true, true, true, true, true, true, false, false, false, false, false, false]),
    (.gt 3, [true, false, false, false, false, true, true, true, true, true, true, true, true, true, true, true]),
    (.gte 3, [true, false, false, false, true, true, true, true, true, true, true, true, true, true, true, true]),
    (.lt 5, [true, true, true, true, true, true, false, false, false, false, false, false, false, false, false, false]),
    (.lte 5, [true, true, true, true, true, true, true, false, false, false, false, false, false, false, false, false])
  ]
  pairs := [
    (.required, .min 3, [false, false, false, false, true, true, true, true, true, true, true, true, true, true, true, true], [false, false, false, false, true, true, true, true, true, true, true, true, true, true, true, true]),
    (.required, .max 5, [false, true, true, true, true, true, true, false, false, false, false, false, false, false, false, false], [false, true, true, true, true, true, true, false, false, false, false, false, false, false, false, false]),
    (.required, .positive, [false, false, true, true, true, true, true, true, true, true, true, true, true, true, true, true], [false, false, true, true, true, true, true, true, true, true, true, true, true, true, true, true]),
    (.required, .negative, [false, false, false, false, false, false, false, false, false, false, false, false, false, false, false, false], [false, false, false, false, false, false, false, false, false, false, false, false, false, false, false, false]),
    (.required, .nonnegative, [false, true, true, true, true, true, true, true, true, true, true, true, true, true, true, true], [false, true, true, true, true, true, true, true, true, true, true, true, true, true, true, true]),
    (.required, .nonpositive, [false, true, false, false, false, false, false, false, false, false, false, false, false, false, false, false], [false, true, false, false, false, false, false, false, false, false, false, false, false, false, false, false]),
    (.min 3, .max 5, [true, false, false, false, true, true, true, false, false, false, false, false, false, false, false, false], [true, false, false, false, true, true, true, false, false, false, false, false, false, false, false, false]),
    (.min 3, .positive, [true, false, false, false, true, true, true, true, true, true, true, true, true, true, true, true], [true, false, false, false, true, true, true, true, true, true, true, true, true, true, true, true]),
    (.min 3, .negative, [true, false, false, false, false, false, false, false, false, false, false, false, false, false, false, false], [true, false, false, false, false, false, false, false, false, false, false, false, false, false, false, false]),
    (.min 3, .nonnegative, [true, false, false, false, true, true, true, true, true, true, true, true, true, true, true, true], [true, false, false, false, true, true, true, true, true, true, true, true, true, true, true, true]),
    (.min 3, .nonpositive, [true, false, false, false, false, false, false, false, false, false, false, false, false, false, false, false], [true, false, false, false, false, false, false, false, false, false, false, false, false, false, false, false]),
    (.max 5, .positive, [true, false, true, true, true, true, true, false, false, false, false, false, false, false, false, false], [true, false, true, true, true, true, true, false, false, false, false, false, false, false, false, false]),
    (.max 5, .negative, [true, false, false, false, false, false, false, false, false, false, false, false, false, false, false, false], [true, false, false, false, false, false, false, false, false, false, false, false, false, false, false, false]),
    (.max 5, .nonnegative, [true, true, true, true, true, true, true, false, false, false, false, false, false, false, false, false], [true, true, true, true, true, true, true, false, false, false, false, false, false, false, false, false]),
    (.max 5, .nonpositive, [true, true, false, false, false, false, false, false, false, false, false, false, false, false, false, false], [true, true, false, false, false, false, false, false, false, false, false, false, false, false, false, false]),
    (.positive, .negative, [true, false, false, false, false, false, false, false, false, false, false, false, false, false, false, false], [true, false, false, false, false, false, false, false, false, false, false, false, false, false, false, false]),
    (.positive, .nonnegative, [true, false, true, true, true, true, true, true, true, true, true, true, true, true, true, true], [true, false, true, true, true, true, true, true, true, true, true, true, true, true, true, true]),
    (.positive, .nonpositive, [true, false, false, false, false, false, false, false, false, false, false, false, false, false, false, false], [true, false, false, false, false, false, false, false, false, false, false, false, false, false, false, false]),
    (.negative, .nonnegative, [true, false, false, false, false, false, false, false, false, false, false, false, false, false, false, false], [true, false, false, false, false, false, false, false, false, false, false, false, false, false, false, false]),
    (.negative, .nonpositive, [true, false, false, false, false, false, false, false, false, false, false, false, false, false, false, false], [true, false, false, false, false, false, false, false, false, false, false, false, false, false, false, false]),
    (.nonnegative, .nonpositive, [true, true, false, false, false, false, false, false, false, false, false, false, false, false, false, false], [true, true, false, false, false, false, false, false, false, false, false, false, false, false, false, false])
  ]

def tagBlock37 : Block where
  fty := ⟨true, .uint8⟩
  probes := [.nil, .num 0, .num 2, .num 4, .num 6, .num 8, .num 10, .num 12, .num 508, .num 510]
  singles := [
    (.required, [false, true, true, true, true, true, true, true, true, true]),
    (.min 3, [true, false, false, false, true, true, true, true, true, true]),
    (.max 5, [true, true, true, true, true, true, true, false, false, false]),
    (.positive, [true, false, true, true, true, true, true, true, true, true]),
    (.negative, [true, false, false, false, false, false, false, false, false, false]),
    (.nonnegative, [true, true, true, true, true, true, true, true, true, true]),
    (.nonpositive, [true, true, false, false, false, false, false, false, false, false]),
    (.min 255, [true, false, false, false, false, false, false, false, false, true]),
    (.max 255, [true, true, true, true, true, true, true, true, true, true]),
    (.gt 3, [true, false, false, false, false, true, true, true, true, true]),
    (.gte 3, [true, false, false, false, true, true, true, true, true, true]),
    (.lt 5, [true, true, true, true, true, true, false, false, false, false]),
    (.lte 5, [true, true, true, true, true, true, true, false, false, false])
  ]
  pairs := [
    (.required, .min 3, [false, false, false, false, true, true, true, true, true, true], [false, false, false, false, true, true, true, true, true, true]),
    (.required, .max 5, [false, true, true, true, true, true, true, false, false, false], [false, true, true, true, true, true, true, false, false, false]),
    (.required, .positive, [false, false, true, true, true, true, true, true, true, true], [false, false, true, true, true, true, true, true, true, true]),
    (.required, .negative, [false, false, false, false, false, false, false, false, false, false], [false, false, false, false, false, false, false, false, false, false]),
    (.required, .nonnegative, [false, true, true, true, true, true, true, true, true, true], [false, true, true, true, true, true, true, true, true, true]),
    (.required, .nonpositive, [false, true, false, false, false, false, false, false, false, false], [false, true, false, false, false, false, false, false, false, false]),
    (.min 3, .max 5, [true, false, false, false, true, true, true, false, false, false], [true, false, false, false, true, true, true, false, false, false]),
    (.min 3, .positive, [true, false, false, false, true, true, true, true, true, true], [true, false, false, false, true, true, true, true, true, true]),
    (.min 3, .negative, [true, false, false, false, false, false, false, false, false, false], [true, false, false, false, false, false, false, false, false, false]),
    (.min 3, .nonnegative, [true, false, false, false, true, true, true, true, true, true], [true, false, false, false, true, true, true, true, true, true]),
    (.min 3, .nonpositive, [true, false, false, false, false, false, false, false, false, false], [true, false, false, false, false, false, false, false, false, false]),
    (.max 5, .positive, [true, false, true, true, true, true, true, false, false, false], [true, false, true, true, true, true, true, false, false, false]),
    (.max 5, .negative, [true, false, false, false, false, false, false, false, false, false], [true, false, false, false, false, false, false, false, false, false]),
    (.max 5, .nonnegative, [true, true, true, true, true, true, true, false, false, false], [true, true, true, true, true, true, true, false, false, false]),
    (.max 5, .nonpositive, [true, true, false, false, false, false, false, false, false, false], [true, true, false, false, false, false, false, false, false, false]),
    (.positive, .negative, [true, false, false, false, false, false, false, false, false, false], [true, false, false, false, false, false, false, false, false, false]),
    (.positive, .nonnegative, [true, false, true, true, true, true, true, true, true, true], [true, false, true, true, true, true, true, true, true, true]),
    (.positive, .nonpositive, [true, false, false, false, false, false, false, false, false, false], [true, false, false, false, false, false, false, false, false, false]),
    (.negative, .nonnegative, [true, false, false, false, false, false, false, false, false, false], [true, false, false, false, false, false, false, false, false, false]),
    (.negative, .nonpositive, [true, false, false, false, false, false, false, false, false, false], [true, false, false, false, false, false, false, false, false, false]),
    (.nonnegative, .nonpositive, [true, true, false, false, false, false, false, false, false, false], [true, true, false, false, false, false, false, false, false, false])
  ]

def tagBlock38 : Block where
  fty := ⟨true, .uint16⟩
  probes := [.nil, .num 0, .num 2, .num 4, .num 6, .num 8, .num 10, .num 12, .num 131068, .num 131070]
  singles := [
    (.required, [false, true, true, true, true, true, true, true, true, true]),
    (.min 3, [true, false, false, false, true, true, true, true, true, true]),
    (.max 5, [true, true, true, true, true, true, true, false, false, false]),
    (.positive, [true, false, true, true, true, true, true, true, true, true]),
    (.negative, [true, false, false, false, false, false, false, false, false, false]),
    (.nonnegative, [true, true, true, true, true, true, true, true, true, true]),
    (.nonpositive, [true, true, false, false, false, false, false, false, false, false]),
    (.min 65535, [true, false, false, false, false, false, false, false, false, true]),
    (.max 65535, [true, true, true, true, true, true, true, true, true, true]),
    (.gt 3, [true, false, false, false, false, true, true, true, true, true]),
    (.gte 3, [true, false, false, false, true, true, true, true, true, true]),
    (.lt 5, [true, true, true, true, true, true, false, false, false, false]),
    (.lte 5, [true, true, true, true, true, true, true, false, false, false])
  ]
  pairs := [
    (.required, .min 3, [false, false, false, false, true, true, true, true, true, true], [false, false, false, false, true, true, true, true, true, true]),
    (.required, .max 5, [false, true, true, true, true, true, true, false, false, false], [false, true, true, true, true, true, true, false, false, false]),
    (.required, .positive, [false, false, true, true, true, true, true, true, true, true], [false, false, true, true, true, true, true, true, true, true]),
    (.required, .negative, [false, false, false, false, false, false, false, false, false, false], [false, false, false, false, false, false, false, false, false, false]),
    (.required, .nonnegative, [false, true, true, true, true, true, true, true, true, true], [false, true, true, true, true, true, true, true, true, true]),
    (.required, .nonpositive, [false, true, false, false, false, false, false, false, false, false], [false, true, false, false, false, false, false, false, false, false]),
    (.min 3, .max 5, [true, false, false, false, true, true, true, false, false, false], [true, false, false, false, true, true, true, false, false, false]),
    (.min 3, .positive, [true, false, false, false, true, true, true, true, true, true], [true, false, false, false, true, true, true, true, true, true]),
    (.min 3, .negative, [true, false, false, false, false, false, false, false, false, false], [true, false, false, false, false, false, false, false, false, false]),
    (.min 3, .nonnegative, [true, false, false, false, true, true, true, true, true, true], [true, false, false, false, true, true, true, true, true, true]),
    (.min 3, .nonpositive, [true, false, false, false, false, false, false, false, false, false], [true, false, false, false, false, false, false, false, false, false]),
    (.max 5, .positive, [true, false, true, true, true, true, true, false, false, false], [true, false, true, true, true, true, true, false, false, false]),
    (.max 5, .negative, [true, false, false, false, false, false, false, false, false, false], [true, false, false, false, false, false, false, false, false, false]),
    (.max 5, .nonnegative, [true, true, true, true, true, true, true, false, false, false], [true, true, true, true, true, true, true, false, false, false]),
    (.max 5, .nonpositive, [true, true, false, false, false, false, false, false, false, false], [true, true, false, false, false, false, false, false, false, false]),
    (.positive, .negative, [true, false, false, false, false, false, false, false, false, false], [true, false, false, false, false, false, false, false, false, false]),
    (.positive, .nonnegative, [true, false, true, true, true, true, true, true, true, true], [true, false, true, true, true, true, true, true, true, true]),
    (.positive, .nonpositive, [true, false, false, false, false, false, false, false, false, false], [true, false, false, false, false, false, false, false, false, false]),
    (.negative, .nonnegative, [true, false, false, false, false, false, false, false, false, false], [true, false, false, false, false, false, false, false, false, false]),
    (.negative, .nonpositive, [true, false, false, false, false, false, false, false, false, false], [true, false, false, false, false, false, false, false, false, false]),
    (.nonnegative, .nonpositive, [true, true, false, false, false, false, false, false, false, false], [true, true, false, false, false, false, false, false, false, false])
  ]

def tagBlock39 : Block where
  fty := ⟨true, .uint32⟩
  probes := [.nil, .num 0, .num 2, .num 4, .num 6, .num 8, .num 10, .num 12, .num 8589934588, .num 8589934590]
  singles := [
    (.required, [false, true, true, true, true, true, true, true, true, true]),
    (.min 3, [true, false, false, false, true, true, true, true, true, true]),
    (.max 5, [true, true, true, true, true, true, true, false, false, false]),
    (.positive, [true, false, true, true, true, true, true, true, true, true]),
    (.negative, [true, false, false, false, false, false, false, false, false, false]),
    (.nonnegative, [true, true, true, true, true, true, true, true, true, true]),
    (.nonpositive, [true, true, false, false, false, false, false, false, false, false]),
    (.min 4294967295, [true, false, false, false, false, false, false, false, false, true]),
    (.max 4294967295, [true, true, true, true, true, true, true, true, true, true]),
    (.gt 3, [true, false, false, false, false, true, true, true, true, true]),
    (.gte 3, [true, false, false, false, true, true, true, true, true, true]),
    (.lt 5, [true, true, true, true, true, true, false, false, false, false]),
    (.lte 5, [true, true, true, true, true, true, true, false, false, false])
  ]
  pairs := [
    (.required, .min 3, [false, false, false, false, true, true, true, true, true, true], [false, false, false, false, true, true, true, true, true, true]),
    (.required, .max 5, [false, true, true, true, true, true, true, false, false, false], [false, true, true, true, true, true, true, false, false, false]),
    (.required, .positive, [false, false, true, true, true, true, true, true, true, true], [false, false, true, true, true, true, true, true, true, true]),
    (.required, .negative, [false, false, false, false, false, false, false, false, false, false], [false, false, false, false, false, false, false, false, false, false]),
    (.required, .nonnegative, [false, true, true, true, true, true, true, true, true, true], [false, true, true, true, true, true, true, true, true, true]),
    (.required, .nonpositive, [false, true, false, false, false, false, false, false, false, false], [false, true, false, false, false, false, false, false, false, false]),
    (.min 3, .max 5, [true, false, false, false, true, true, true, false, false, false], [true, false, false, false, true, true, true, false, false, false]),
    (.min 3, .positive, [true, false, false, false, true, true, true, true, true, true], [true, false, false, false, true, true, true, true, true, true]),
    (.min 3, .negative, [true, false, false, false, false, false, false, false, false, false], [true, false, false, false, false, false, false, false, false, false]),
    (.min 3, .nonnegative, [true, false, false, false, true, true, true, true, true, true], [true, false, false, false, true, true, true, true, true, true]),
    (.min 3, .nonpositive, [true, false, false, false, false, false, false, false, false, false], [true, false, false, false, false, false, false, false, false, false]),
    (.max 5, .positive, [true, false, true, true, true, true, true, false, false, false], [true, false, true, true, true, true, true, false, false, false]),
    (.max 5, .negative, [true, false, false, false, false, false, false, false, false, false], [true, false, false, false, false, false, false, false, false, false]),
    (.max 5, .nonnegative, [true, true, true, true, true, true, true, false, false, false], [true, true, true, true, true, true, true, false, false, false]),
    (.max 5, .nonpositive, [true, true, false, false, false, false, false, false, false, false], [true, true, false, false, false, false, false, false, false, false]),
    (.positive, .negative, [true, false, false, false, false, false, false, false, false, false], [true, false, false, false, false, false, false, false, false, false]),
    (.positive, .nonnegative, [true, false, true, true, true, true, true, true, true, true], [true, false, true, true, true, true, true, true, true, true]),
    (.positive, .nonpositive, [true, false, false, false, false, false, false, false, false, false], [true, false, false, false, false, false, false, false, false, false]),
    (.negative, .nonnegative, [true, false, false, false, false, false, false, false, false, false], [true, false, false, false, false, false, false, false, false, false]),
    (.negative, .nonpositive, [true, false, false, false, false, false, false, false, false, false], [true, false, false, false, false, false, false, false, false, false]),
    (.nonnegative, .nonpositive, [true, true, false, false, false, false, false, false, false, false], [true, true, false, false, false, false, false, false, false, false])
  ]

def tagBlock40 : Block where
  fty := ⟨true, .uint64⟩
  probes := [.nil, .num 0, .num 2, .num 4, .num 6, .num 8, .num 10, .num 12, .num 18014398509481984, .num 18014398509481986, .num 18014398509481988, .num 18446744073709551612, .num 18446744073709551614, .num 18446744073709551616, .num 36893488147419103228, .num 36893488147419103230]
  singles := [
    (.required, [false, true, true, true, true, true, true, true, true, true, true, true, true, true, true, true]),
    (.min 3, [true, false, false, false, true, true, true, true, true, true, true, true, true, true, true, true]),
    (.max 5, [true, true, true, true, true, true, true, false, false, false, false, false, false, false, false, false]),
    (.positive, [true, false, true, true, true, true, true, true, true, true, true, true, true, true, true, true]),
    (.negative, [true, false, false, false, false, false, false, false, false, false, false, false, false, false, false, false]),
    (.nonnegative, [true, true, true, true, true, true, true, true, true, true, true, true, true, true, true, true]),
    (.nonpositive, [true, true, false, false, false, false, false, false, false, false, false, false, false, false, false, false]),
    (.min 9007199254740993, [true, false, false, false, false, false, false, false, false, true, true, true, true, true, true, true]),
    (.max 9007199254740993, [true, true, true, true, true, true, true, true, true, true, false, false, false, false, false, false]),
    (.min 9223372036854775807, [true, false, false, false, false, false, false, false, false, false, false, false, true, true, true, true]),
    (.max 9223372036854775807, [true, true, true, true, true, true, true, true, true, true, true, true, true, false, false, false]),
    (.min 18446744073709551615, [true, false, false, false, false, false, false, false, false, false, false, false, false, false, false, true]),
    (.max 18446744073709551615, [true, true, true, true, true, true, true, true, true, true, true, true, true, true, true, true]),
    (.gt 9007199254740993, [true, false, false, false, false, false, false, false, false, false, true, true, true, true, true, true]),
    (.gte 9007199254740993, [true, false, false, false, false, false, false, false, false, true, true, true, true, true, true, true]),
    (.lt 9007199254740993, [true, true, true, true, true, true, true, true, true, false, false, false, false, false, false, false]),
    (.lte 9007199254740993, [true, true, true, true, true, true, true, true, true, true, false, false, false, false, false, false]),
    (.gt 3, [true, false, false, false, false, true, true, true, true, true, true, true, true, true, true, true]),
    (.gte 3, [true, false, false, false, true, true, true, true, true, true, true, true, true, true, true, true]),
    (.lt 5, [true, true, true, true, true, true, false, false, false, false, false, false, false, false, false, false]),
    (.lte 5, [true, true, true, true, true, true, true, false, false, false, false, false, false, false, false, false])
  ]
  pairs := [
    (.required, .min 3, [false, false, false, false, true, true, true, true, true, true, true, true, true, true, true, true], [false, false, false, false, true, true, true, true, true, true, true, true, true, true, true, true]),
    (.required, .max 5, [false, true, true, true, true, true, true, false, false, false, false, false, false, false, false, false], [false, true, true, true, true, true, true, false, false, false, false, false, false, false, false, false]),
    (.required, .positive, [false, false, true, true, true, true, true, true, true, true, true, true, true, true, true, true], [false, false, true, true, true, true, true, true, true, true, true, true, true, true, true, true]),
    (.required, .negative, [false, false, false, false, false, false, false, false, false, false, false, false, false, false, false, false], [false, false, false, false, false, false, false, false, false, false, false, false, false, false, false, false]),
    (.required, .nonnegative, [false, true, true, true, true, true, true, true, true, true, true, true, true, true, true, true], [false, true, true, true, true, true, true, true, true, true, true, true, true, true, true, true]),
    (.required, .nonpositive, [false, true, false, false, false, false, false, false, false, false, false, false, false, false, false, false], [false, true, false, false, false, false, false, false, false, false, false, false, false, false, false, false]),
    (.min 3, .max 5, [true, false, false, false, true, true, true, false, false, false, false, false, false, false, false, false], [true, false, false, false, true, true, true, false, false, false, false, false, false, false, false, false]),
    (.min 3, .positive, [true, false, false, false, true, true, true, true, true, true, true, true, true, true, true, true], [true, false, false, false, true, true, true, true, true, true, true, true, true, true, true, true]),
    (.min 3, .negative, [true, false, false, false, false, false, false, false, false, false, false, false, false, false, false, false], [true, false, false, false, false, false, false, false, false, false, false, false, false, false, false, false]),
    (.min 3, .nonnegative, [true, false, false, false, true, true, true, true, true, true, true, true, true, true, true, true], [true, false, false, false, true, true, true, true, true, true, true, true, true, true, true, true]),
    (.min 3, .nonpositive, [true, false, false, false, false, false, false, false, false, false, false, false, false, false, false, false], [true, false, false, false, false, false, false, false, false, false, false, false, false, false, false, false]),
    (.max 5, .positive, [true, false, true, true, true, true, true, false, false, false, false, false, false, false, false, false], [true, false, true, true, true, true, true, false, false, false, false, false, false, false, false, false]),
    (.max 5, .negative, [true, false, false, false, false, false, false, false, false, false, false, false, false, false, false, false], [true, false, false, false, false, false, false, false, false, false, false, false, false, false, false, false]),
    (.max 5, .nonnegative, [true, true, true, true, true, true, true, false, false, false, false, false, false, false, false, false], [true, true, true, true, true, true, true, false, false, false, false, false, false, false, false, false]),
    (.max 5, .nonpositive, [true, true, false, false, false, false, false, false, false, false, false, false, false, false, false, false], [true, true, false, false, false, false, false, false, false, false, false, false, false, false, false, false]),
    (.positive, .negative, [true, false, false, false, false, false, false, false, false, false, false, false, false, false, false, false], [true, false, false, false, false, false, false, false, false, false, false, false, false, false, false, false]),
    (.positive, .nonnegative, [true, false, true, true, true, true, true, true, true, true, true, true, true, true, true, true], [true, false, true, true, true, true, true, true, true, true, true, true, true, true, true, true]),
    (.positive, .nonpositive, [true, false, false, false, false, false, false, false, false, false, false, false, false, false, false, false], [true, false, false, false, false, false, false, false, false, false, false, false, false, false, false, false]),
    (.negative, .nonnegative, [true, false, false, false, false, false, false, false, false, false, false, false, false, false, false, false], [true, false, false, false, false, false, false, false, false, false, false, false, false, false, false, false]),
    (.negative, .nonpositive, [true, false, false, false, false, false, false, false, false, false, false, false, false, false, false, false], [true, false, false, false, false, false, false, false, false, false, false, false, false, false, false, false]),
    (.nonnegative, .nonpositive, [true, true, false, false, false, false, false, false, false, false, false, false, false, false, false, false], [true, true, false, false, false, false, false, false, false, false, false, false, false, false, false, false])
  ]

def tagBlock41 : Block where
  fty := ⟨true, .float32⟩
  probes := [.nil, .num (-4), .num (-2), .num (-1), .num 0, .num 1, .num 2, .num 4, .num 5, .num 6, .num 7, .num 8, .num 10, .num 11, .num 12]
  singles := [
    (.required, [false, true, true, true, true, true, true, true, true, true, true, true, true, true, true]),
    (.min 3, [true, false, false, false, false, false, false, false, false, true, true, true, true, true, true]),
    (.max 5, [true, true, true, true, true, true, true, true, true, true, true, true, true, false, false]),
    (.positive, [true, false, false, false, false, true, true, true, true, true, true, true, true, true, true]),
    (.negative, [true, true, true, true, false, false, false, false, false, false, false, false, false, false, false]),
    (.nonnegative, [true, false, false, false, true, true, true, true, true, true, true, true, true, true, true]),
    (.nonpositive, [true, true, true, true, true, false, false, false, false, false, false, false, false, false, false]),
    (.gt 3, [true, false, false, false, false, false, false, false, false, false, true, true, true, true, true]),
    (.gte 3, [true, false, false, false, false, false, false, false, false, true, true, true, true, true, true]),
    (.lt 5, [true, true, true, true, true, true, true, true, true, true, true, true, false, false, false]),
    (.lte 5, [true, true, true, true, true, true, true, true, true, true, true, true, true, false, false])
  ]
  pairs := [
    (.required, .min 3, [false, false, false, false, false, false, false, false, false, true, true, true, true, true, true], [false, false, false, false, false, false, false, false, false, true, true, true, true, true, true]),
    (.required, .max 5, [false, true, true, true, true, true, true, true, true, true, true, true, true, false, false], [false, true, true, true, true, true, true, true, true, true, true, true, true, false, false]),
    (.required, .positive, [false, false, false, false, false, true, true, true, true, true, true, true, true, true, true], [false, false, false, false, false, true, true, true, true, true, true, true, true, true, true]),
    (.required, .negative, [false, true, true, true, false, false, false, false, false, false, false, false, false, false, false], [false, true, true, true, false, false, false, false, false, false, false, false, false, false, false]),
    (.required, .nonnegative, [false, false, false, false, true, true, true, true, true, true, true, true, true, true, true], [false, false, false, false, true, true, true, true, true, true, true, true, true, true, true]),
    (.required, .nonpositive, [false, true, true, true, true, false, false, false, false, false, false, false, false, false, false], [false, true, true, true, true, false, false, false, false, false, false, false, false, false, false]),
    (.min 3, .max 5, [true, false, false, false, false, false, false, false, false, true, true, true, true, false, false], [true, false, false, false, false, false, false, false, false, true, true, true, true, false, false]),
    (.min 3, .positive, [true, false, false, false, false, false, false, false, false, true, true, true, true, true, true], [true, false, false, false, false, false, false, false, false, true, true, true, true, true, true]),
    (.min 3, .negative, [true, false, false, false, false, false, false, false, false, false, false, false, false, false, false], [true, false, false, false, false, false, false, false, false, false, false, false, false, false, false]),
    (.min 3, .nonnegative, [true, false, false, false, false, false, false, false, false, true, true, true, true, true, true], [true, false, false, false, false, false, false, false, false, true, true, true, true, true, true]),
    (.min 3, .nonpositive, [true, false, false, false, false, false, false, false, false, false, false, false, false, false, false], [true, false, false, false, false, false, false, false, false, false, false, false, false, false, false]),
    (.max 5, .positive, [true, false, false, false, false, true, true, true, true, true, true, true, true, false, false], [true, false, false, false, false, true, true, true, true, true, true, true, true, false, false]),
    (.max 5, .negative, [true, true, true, true, false, false, false, false, false, false, false, false, false, false, false], [true, true, true, true, false, false, false, false, false, false, false, false, false, false, false]),
    (.max 5, .nonnegative, [true, false, false, false, true, true, true, true, true, true, true, true, true, false, false], [true, false, false, false, true, true, true, true, true, true, true, true, true, false, false]),
    (.max 5, .nonpositive, [true, true, true, true, true, false, false, false, false, false, false, false, false, false, false], [true, true, true, true, true, false, false, false, false, false, false, false, false, false, false]),
    (.positive, .negative, [true, false, false, false, false, false, false, false, false, false, false, false, false, false, false], [true, false, false, false, false, false, false, false, false, false, false, false, false, false, false]),
    (.positive, .nonnegative, [true, false, false, false, false, true, true, true, true, true, true, true, true, true, true], [true, false, false, false, false, true, true, true, true, true, true, true, true, true, true]),
    (.positive, .nonpositive, [true, false, false, false, false, false, false, false, false, false, false, false, false, false, false], [true, false, false, false, false, false, false, false, false, false, false, false, false, false, false]),
    (.negative, .nonnegative, [true, false, false, false, false, false, false, false, false, false, false, false, false, false, false], [true, false, false, false, false, false, false, false, false, false, false, false, false, false, false]),
    (.negative, .nonpositive, [true, true, true, true, false, false, false, false, false, false, false, false, false, false, false], [true, true, true, true, false, false, false, false, false, false, false, false, false, false, false]),
    (.nonnegative, .nonpositive, [true, false, false, false, true, false, false, false, false, false, false, false, false, false, false], [true, false, false, false, true, false, false, false, false, false, false, false, false, false, false])
  ]

def tagBlock42 : Block where
  fty := ⟨true, .float64⟩
  probes := [.nil, .num (-4), .num (-2), .num (-1), .num 0, .num 1, .num 2, .num 4, .num 5, .num 6, .num 7, .num 8, .num 10, .num 11, .num 12]
  singles := [
    (.required, [false, true, true, true, true, true, true, true, true, true, true, true, true, true, true]),
    (.min 3, [true, false, false, false, false, false, false, false, false, true, true, true, true, true, true]),
    (.max 5, [true, true, true, true, true, true, true, true, true, true, true, true, true, false, false]),
    (.positive, [true, false, false, false, false, true, true, true, true, true, true, true, true, true, true]),
    (.negative, [true, true, true, true, false, false, false, false, false, false, false, false, false, false, false]),
    (.nonnegative, [true, false, false, false, true, true, true, true, true, true, true, true, true, true, true]),
    (.nonpositive, [true, true, true, true, true, false, false, false, false, false, false, false, false, false, false]),
    (.gt 3, [true, false, false, false, false, false, false, false, false, false, true, true, true, true, true]),
    (.gte 3, [true, false, false, false, false, false, false, false, false, true, true, true, true, true, true]),
    (.lt 5, [true, true, true, true, true, true, true, true, true, true, true, true, false, false, false]),
    (.lte 5, [true, true, true, true, true, true, true, true, true, true, true, true, true, false, false])
  ]
  pairs := [
    (.required, .min 3, [false, false, false, false, false, false, false, false, false, true, true, true, true, true, true], [false, false, false, false, false, false, false, false, false, true, true, true, true, true, true]),
    (.required, .max 5, [false, true, true, true, true, true, true, true, true, true, true, true, true, false, false], [false, true, true, true, true, true, true, true, true, true, true, true, true, false, false]),
    (.required, .positive, [false, false, false, false, false, true, true, true, true, true, true, true, true, true, true], [false, false, false, false, false, true, true, true, true, true, true, true, true, true, true]),
    (.required, .negative, [false, true, true, true, false, false, false, false, false, false, false, false, false, false, false], [false, true, true, true, false, false, false, false, false, false, false, false, false, false, false]),
    (.required, .nonnegative, [false, false, false, false, true, true, true, true, true, true, true, true, true, true, true], [false, false, false, false, true, true, true, true, true, true, true, true, true, true, true]),
    (.required, .nonpositive, [false, true, true, true, true, false, false, false, false, false, false, false, false, false, false], [false, true, true, true, true, false, false, false, false, false, false, false, false, false, false]),
    (.min 3, .max 5, [true, false, false, false, false, false, false, false, false, true, true, true, true, false, false], [true, false, false, false, false, false, false, false, false, true, true, true, true, false, false]),
    (.min 3, .positive, [true, false, false, false, false, false, false, false, false, true, true, true, true, true, true], [true, false, false, false, false, false, false, false, false, true, true, true, true, true, true]),
    (.min 3, .negative, [true, false, false, false, false, false, false, false, false, false, false, false, false, false, false], [true, false, false, false, false, false, false, false, false, false, false, false, false, false, false]),
    (.min 3, .nonnegative, [true, false, false, false, false, false, false, false, false, true, true, true, true, true, true], [true, false, false, false, false, false, false, false, false, true, true, true, true, true, true]),
    (.min 3, .nonpositive, [true, false, false, false, false, false, false, false, false, false, false, false, false, false, false], [true, false, false, false, false, false, false, false, false, false, false, false, false, false, false]),
    (.max 5, .positive, [true, false, false, false, false, true, true, true, true, true, true, true, true, false, false], [true, false, false, false, false, true, true, true, true, true, true, true, true, false, false]),
    (.max 5, .negative, [true, true, true, true, false, false, false, false, false, false, false, false, false, false, false], [true, true, true, true, false, false, false, false, false, false, false, false, false, false, false]),
    (.max 5, .nonnegative, [true, false, false, false, true, true, true, true, true, true, true, true, true, false, false], [true, false, false, false, true, true, true, true, true, true, true, true, true, false, false]),
    (.max 5, .nonpositive, [true, true, true, true, true, false, false, false, false, false, false, false, false, false, false], [true, true, true, true, true, false, false, false, false, false, false, false, false, false, false]),
    (.positive, .negative, [true, false, false, false, false, false, false, false, false, false, false, false, false, false, false], [true, false, false, false, false, false, false, false, false, false, false, false, false, false, false]),
    (.positive, .nonnegative, [true, false, false, false, false, true, true, true, true, true, true, true, true, true, true], [true, false, false, false, false, true, true, true, true, true, true, true, true, true, true]),
    (.positive, .nonpositive, [true, false, false, false, false, false, false, false, false, false, false, false, false, false, false], [true, false, false, false, false, false, false, false, false, false, false, false, false, false, false]),
    (.negative, .nonnegative, [true, false, false, false, false, false, false, false, false, false, false, false, false, false, false], [true, false, false, false, false, false, false, false, false, false, false, false, false, false, false]),
    (.negative, .nonpositive, [true, true, true, true, false, false, false, false, false, false, false, false, false, false, false], [true, true, true, true, false, false, false, false, false, false, false, false, false, false, false]),
    (.nonnegative, .nonpositive, [true, false, false, false, true, false, false, false, false, false, false, false, false, false, false], [true, false, false, false, true, false, false, false, false, false, false, false, false, false, false])
  ]

def tagBlock43 : Block where
  fty := ⟨true, .bool⟩
  probes := [.nil, .flag false, .flag true]
  singles := [
    (.required, [false, true, true])
  ]
  pairs := [

  ]

def tagBlock44 : Block where
  fty := ⟨true, .slice_string⟩
  probes := [.nil, .elems 0, .elems 1, .elems 2, .elems 3, .elems 4, .elems 5]
  singles := [
    (.required, [false, true, true, true, true, true, true]),
    (.min 2, [true, false, false, true, true, true, true]),
    (.max 4, [true, true, true, true, true, true, false]),
    (.length 3, [true, false, false, false, true, false, false]),
    (.nonempty, [true, false, true, true, true, true, true])
  ]
  pairs := [
    (.required, .min 2, [false, false, false, true, true, true, true], [false, false, false, true, true, true, true]),
    (.required, .max 4, [false, true, true, true, true, true, false], [false, true, true, true, true, true, false]),
    (.required, .length 3, [false, false, false, false, true, false, false], [false, false, false, false, true, false, false]),
    (.required, .nonempty, [false, false, true, true, true, true, true], [false, false, true, true, true, true, true]),
    (.min 2, .max 4, [true, false, false, true, true, true, false], [true, false, false, true, true, true, false]),
    (.min 2, .length 3, [true, false, false, false, true, false, false], [true, false, false, false, true, false, false]),
    (.min 2, .nonempty, [true, false, false, true, true, true, true], [true, false, false, true, true, true, true]),
    (.max 4, .length 3, [true, false, false, false, true, false, false], [true, false, false, false, true, false, false]),
    (.max 4, .nonempty, [true, false, true, true, true, true, false], [true, false, true, true, true, true, false]),
    (.length 3, .nonempty, [true, false, false, false, true, false, false], [true, false, false, false, true, false, false])
  ]

def tagBlock45 : Block where
  fty := ⟨true, .slice_int⟩
  probes := [.nil, .elems 0, .elems 1, .elems 2, .elems 3, .elems 4, .elems 5]
  singles := [
    (.required, [false, true, true, true, true, true, true]),
    (.min 2, [true, false, false, true, true, true, true]),
    (.max 4, [true, true, true, true, true, true, false]),
    (.length 3, [true, false, false, false, true, false, false]),
    (.nonempty, [true, false, true, true, true, true, true])
  ]
  pairs := [
    (.required, .min 2, [false, false, false, true, true, true, true], [false, false, false, true, true, true, true]),
    (.required, .max 4, [false, true, true, true, true, true, false], [false, true, true, true, true, true, false]),
    (.required, .length 3, [false, false, false, false, true, false, false], [false, false, false, false, true, false, false]),
    (.required, .nonempty, [false, false, true, true, true, true, true], [false, false, true, true, true, true, true]),
    (.min 2, .max 4, [true, false, false, true, true, true, false], [true, false, false, true, true, true, false]),
    (.min 2, .length 3, [true, false, false, false, true, false, false], [true, false, false, false, true, false, false]),
    (.min 2, .nonempty, [true, false, false, true, true, true, true], [true, false, false, true, true, true, true]),
    (.max 4, .length 3, [true, false, false, false, true, false, false], [true, false, false, false, true, false, false]),
    (.max 4, .nonempty, [true, false, true, true, true, true, false], [true, false, true, true, true, true, false]),
    (.length 3, .nonempty, [true, false, false, false, true, false, false], [true, false, false, false, true, false, false])
  ]

def tagBlock46 : Block where
  fty := ⟨true, .slice_int64⟩
  probes := [.nil, .elems 0, .elems 1, .elems 2, .elems 3, .elems 4, .elems 5]
  singles := [
    (.required, [false, true, true, true, true, true, true]),
    (.min 2, [true, false, false, true, true, true, true]),
    (.max 4, [true, true, true, true, true, true, false]),
    (.length 3, [true, false, false, false, true, false, false]),
    (.nonempty, [true, false, true, true, true, true, true])
  ]
  pairs := [
    (.required, .min 2, [false, false, false, true, true, true, true], [false, false, false, true, true, true, true]),
    (.required, .max 4, [false, true, true, true, true, true, false], [false, true, true, true, true, true, false]),
    (.required, .length 3, [false, false, false, false, true, false, false], [false, false, false, false, true, false, false]),
    (.required, .nonempty, [false, false, true, true, true, true, true], [false, false, true, true, true, true, true]),
    (.min 2, .max 4, [true, false, false, true, true, true, false], [true, false, false, true, true, true, false]),
    (.min 2, .length 3, [true, false, false, false, true, false, false], [true, false, false, false, true, false, false]),
    (.min 2, .nonempty, [true, false, false, true, true, true, true], [true, false, false, true, true, true, true]),
    (.max 4, .length 3, [true, false, false, false, true, false, false], [true, false, false, false, true, false, false]),
    (.max 4, .nonempty, [true, false, true, true, true, true, false], [true, false, true, true, true, true, false]),
    (.length 3, .nonempty, [true, false, false, false, true, false, false], [true, false, false, false, true, false, false])
  ]

def tagBlock47 : Block where
  fty := ⟨true, .slice_float64⟩
  probes := [.nil, .elems 0, .elems 1, .elems 2, .elems 3, .elems 4, .elems 5]
  singles := [
    (.required, [false, true, true, true, true, true, true]),
    (.min 2, [true, false, false, true, true, true, true]),
    (.max 4, [true, true, true, true, true, true, false]),
    (.length 3, [true, false, false, false, true, false, false]),
    (.nonempty, [true, false, true, true, true, true, true])
  ]
  pairs := [
    (.required, .min 2, [false, false, false, true, true, true, true], [false, false, false, true, true, true, true]),
    (.required, .max 4, [false, true, true, true, true, true, false], [false, true, true, true, true, true, false]),
    (.required, .length 3, [false, false, false, false, true, false, false], [false, false, false, false, true, false, false]),
    (.required, .nonempty, [false, false, true, true, true, true, true], [false, false, true, true, true, true, true]),
    (.min 2, .max 4, [true, false, false, true, true, true, false], [true, false, false, true, true, true, false]),
    (.min 2, .length 3, [true, false, false, false, true, false, false], [true, false, false, false, true, false, false]),
    (.min 2, .nonempty, [true, false, false, true, true, true, true], [true, false, false, true, true, true, true]),
    (.max 4, .length 3, [true, false, false, false, true, false, false], [true, false, false, false, true, false, false]),
    (.max 4, .nonempty, [true, false, true, true, true, true, false], [true, false, true, true, true, true, false]),
    (.length 3, .nonempty, [true, false, false, false, true, false, false], [true, false, false, false, true, false, false])
  ]

def tagBlock48 : Block where
  fty := ⟨true, .slice_bool⟩
  probes := [.nil, .elems 0, .elems 1, .elems 2, .elems 3, .elems 4, .elems 5]
  singles := [
    (.required, [false, true, true, true, true, true, true]),
    (.min 2, [true, false, false, true, true, true, true]),
    (.max 4, [true, true, true, true, true, true, false]),
    (.length 3, [true, false, false, false, true, false, false]),
    (.nonempty, [true, false, true, true, true, true, true])
  ]
  pairs := [
    (.required, .min 2, [false, false, false, true, true, true, true], [false, false, false, true, true, true, true]),
    (.required, .max 4, [false, true, true, true, true, true, false], [false, true, true, true, true, true, false]),
    (.required, .length 3, [false, false, false, false, true, false, false], [false, false, false, false, true, false, false]),
    (.required, .nonempty, [false, false, true, true, true, true, true], [false, false, true, true, true, true, true]),
    (.min 2, .max 4, [true, false, false, true, true, true, false], [true, false, false, true, true, true, false]),
    (.min 2, .length 3, [true, false, false, false, true, false, false], [true, false, false, false, true, false, false]),
    (.min 2, .nonempty, [true, false, false, true, true, true, true], [true, false, false, true, true, true, true]),
    (.max 4, .length 3, [true, false, false, false, true, false, false], [true, false, false, false, true, false, false]),
    (.max 4, .nonempty, [true, false, true, true, true, true, false], [true, false, true, true, true, true, false]),
    (.length 3, .nonempty, [true, false, false, false, true, false, false], [true, false, false, false, true, false, false])
  ]

def tagBlock49 : Block where
  fty := ⟨true, .slice_int32⟩
  probes := [.nil, .elems 0, .elems 1, .elems 2, .elems 3, .elems 4, .elems 5]
  singles := [
    (.required, [false, true, true, true, true, true, true]),
    (.min 2, [true, false, false, true, true, true, true]),
    (.max 4, [true, true, true, true, true, true, false]),
    (.length 3, [true, false, false, false, true, false, false]),
    (.nonempty, [true, false, true, true, true, true, true])
  ]
  pairs := [
    (.required, .min 2, [false, false, false, true, true, true, true], [false, false, false, true, true, true, true]),
    (.required, .max 4, [false, true, true, true, true, true, false], [false, true, true, true, true, true, false]),
    (.required, .length 3, [false, false, false, false, true, false, false], [false, false, false, false, true, false, false]),
    (.required, .nonempty, [false, false, true, true, true, true, true], [false, false, true, true, true, true, true]),
    (.min 2, .max 4, [true, false, false, true, true, true, false], [true, false, false, true, true, true, false]),
    (.min 2, .length 3, [true, false, false, false, true, false, false], [true, false, false, false, true, false, false]),
    (.min 2, .nonempty, [true, false, false, true, true, true, true], [true, false, false, true, true, true, true]),
    (.max 4, .length 3, [true, false, false, false, true, false, false], [true, false, false, false, true, false, false]),
    (.max 4, .nonempty, [true, false, true, true, true, true, false], [true, false, true, true, true, true, false]),
    (.length 3, .nonempty, [true, false, false, false, true, false, false], [true, false, false, false, true, false, false])
  ]

def tagBlock50 : Block where
  fty := ⟨true, .slice_uint8⟩
  probes := [.nil, .elems 0, .elems 1, .elems 2, .elems 3, .elems 4, .elems 5]
  singles := [
    (.required, [false, true, true, true, true, true, true]),
    (.min 2, [true, false, false, true, true, true, true]),
    (.max 4, [true, true, true, true, true, true, false]),
    (.length 3, [true, false, false, false, true, false, false]),
    (.nonempty, [true, false, true, true, true, true, true])
  ]
  pairs := [
    (.required, .min 2, [false, false, false, true, true, true, true], [false, false, false, true, true, true, true]),
    (.required, .max 4, [false, true, true, true, true, true, false], [false, true, true, true, true, true, false]),
    (.required, .length 3, [false, false, false, false, true, false, false], [false, false, false, false, true, false, false]),
    (.required, .nonempty, [false, false, true, true, true, true, true], [false, false, true, true, true, true, true]),
    (.min 2, .max 4, [true, false, false, true, true, true, false], [true, false, false, true, true, true, false]),
    (.min 2, .length 3, [true, false, false, false, true, false, false], [true, false, false, false, true, false, false]),
    (.min 2, .nonempty, [true, false, false, true, true, true, true], [true, false, false, true, true, true, true]),
    (.max 4, .length 3, [true, false, false, false, true, false, false], [true, false, false, false, true, false, false]),
    (.max 4, .nonempty, [true, false, true, true, true, true, false], [true, false, true, true, true, true, false]),
    (.length 3, .nonempty, [true, false, false, false, true, false, false], [true, false, false, false, true, false, false])
  ]

def tagBlock51 : Block where
  fty := ⟨true, .slice_slice_string⟩
  probes := [.nil, .elems 0, .elems 1, .elems 2, .elems 3, .elems 4, .elems 5]
  singles := [
    (.required, [false, true, true, true, true, true, true]),
    (.min 2, [true, false, false, true, true, true, true]),
    (.max 4, [true, true, true, true, true, true, false]),
    (.length 3, [true, false, false, false, true, false, false]),
    (.nonempty, [true, false, true, true, true, true, true])
  ]
  pairs := [
    (.required, .min 2, [false, false, false, true, true, true, true], [false, false, false, true, true, true, true]),
    (.required, .max 4, [false, true, true, true, true, true, false], [false, true, true, true, true, true, false]),
    (.required, .length 3, [false, false, false, false, true, false, false], [false, false, false, false, true, false, false]),
    (.required, .nonempty, [false, false, true, true, true, true, true], [false, false, true, true, true, true, true]),
    (.min 2, .max 4, [true, false, false, true, true, true, false], [true, false, false, true, true, true, false]),
    (.min 2, .length 3, [true, false, false, false, true, false, false], [true, false, false, false, true, false, false]),
    (.min 2, .nonempty, [true, false, false, true, true, true, true], [true, false, false, true, true, true, true]),
    (.max 4, .length 3, [true, false, false, false, true, false, false], [true, false, false, false, true, false, false]),
    (.max 4, .nonempty, [true, false, true, true, true, true, false], [true, false, true, true, true, true, false]),
    (.length 3, .nonempty, [true, false, false, false, true, false, false], [true, false, false, false, true, false, false])
  ]

def tagBlock52 : Block where
  fty := ⟨true, .slice_struct⟩
  probes := [.nil, .elems 0, .elems 1, .elems 2, .elems 3, .elems 4, .elems 5]
  singles := [
    (.required, [false, true, true, true, true, true, true]),
    (.min 2, [true, false, false, true, true, true, true]),
    (.max 4, [true, true, true, true, true, true, false]),
    (.length 3, [true, false, false, false, true, false, false]),
    (.nonempty, [true, false, true, true, true, true, true])
  ]
  pairs := [
    (.required, .min 2, [false, false, false, true, true, true, true], [false, false, false, true, true, true, true]),
    (.required, .max 4, [false, true, true, true, true, true, false], [false, true, true, true, true, true, false]),
    (.required, .length 3, [false, false, false, false, true, false, false], [false, false, false, false, true, false, false]),
    (.required, .nonempty, [false, false, true, true, true, true, true], [false, false, true, true, true, true, true]),
    (.min 2, .max 4, [true, false, false, true, true, true, false], [true, false, false, true, true, true, false]),
    (.min 2, .length 3, [true, false, false, false, true, false, false], [true, false, false, false, true, false, false]),
    (.min 2, .nonempty, [true, false, false, true, true, true, true], [true, false, false, true, true, true, true]),
    (.max 4, .length 3, [true, false, false, false, true, false, false], [true, false, false, false, true, false, false]),
    (.max 4, .nonempty, [true, false, true, true, true, true, false], [true, false, true, true, true, true, false]),
    (.length 3, .nonempty, [true, false, false, false, true, false, false], [true, false, false, false, true, false, false])
  ]

def tagBlock53 : Block where
  fty := ⟨true, .slice_ptr_string⟩
  probes := [.nil, .elems 0, .elems 1, .elems 2, .elems 3, .elems 4, .elems 5]
  singles := [
    (.required, [false, true, true, true, true, true, true]),
    (.min 2, [true, false, false, true, true, true, true]),
    (.max 4, [true, true, true, true, true, true, false]),
    (.length 3, [true, false, false, false, true, false, false]),
    (.nonempty, [true, false, true, true, true, true, true])
  ]
  pairs := [
    (.required, .min 2, [false, false, false, true, true, true, true], [false, false, false, true, true, true, true]),
    (.required, .max 4, [false, true, true, true, true, true, false], [false, true, true, true, true, true, false]),
    (.required, .length 3, [false, false, false, false, true, false, false], [false, false, false, false, true, false, false]),
    (.required, .nonempty, [false, false, true, true, true, true, true], [false, false, true, true, true, true, true]),
    (.min 2, .max 4, [true, false, false, true, true, true, false], [true, false, false, true, true, true, false]),
    (.min 2, .length 3, [true, false, false, false, true, false, false], [true, false, false, false, true, false, false]),
    (.min 2, .nonempty, [true, false, false, true, true, true, true], [true, false, false, true, true, true, true]),
    (.max 4, .length 3, [true, false, false, false, true, false, false], [true, false, false, false, true, false, false]),
    (.max 4, .nonempty, [true, false, true, true, true, true, false], [true, false, true, true, true, true, false]),
    (.length 3, .nonempty, [true, false, false, false, true, false, false], [true, false, false, false, true, false, false])
  ]

def tagBlock54 : Block where
  fty := ⟨true, .map_string_string⟩
  probes := [.nil, .elems 0, .elems 1, .elems 2]
  singles := [
    (.required, [false, true, true, true])
  ]
  pairs := [

  ]

def tagBlock55 : Block where
  fty := ⟨true, .map_string_int⟩
  probes := [.nil, .elems 0, .elems 1, .elems 2]
  singles := [
    (.required, [false, true, true, true])
  ]
  pairs := [

  ]

def tagBlock56 : Block where
  fty := ⟨true, .map_string_any⟩
  probes := [.nil, .elems 0, .elems 1, .elems 2]
  singles := [
    (.required, [false, true, true, true])
  ]
  pairs := [

  ]

def tagBlock57 : Block where
  fty := ⟨true, .map_string_float64⟩
  probes := [.nil, .elems 0, .elems 1, .elems 2]
  singles := [
    (.required, [false, true, true, true])
  ]
  pairs := [

  ]

def tagBlock58 : Block where
  fty := ⟨true, .struct⟩
  probes := [.nil, .inner true]
  singles := [
    (.required, [false, true])
  ]
  pairs := [

  ]

def tagBlock59 : Block where
  fty := ⟨true, .structT⟩
  probes := [.nil, .inner true, .inner false]
  singles := [
    (.required, [false, true, false])
  ]
  pairs := [

  ]

def tagTable : List Block := [tagBlock0, tagBlock1, tagBlock2, tagBlock3, tagBlock4, tagBlock5, tagBlock6, tagBlock7, tagBlock8, tagBlock9, tagBlock10, tagBlock11, tagBlock12, tagBlock13, tagBlock14, tagBlock15, tagBlock16, tagBlock17, tagBlock18, tagBlock19, tagBlock20, tagBlock21, tagBlock22, tagBlock23, tagBlock24, tagBlock25, tagBlock26, tagBlock27, tagBlock28, tagBlock29, tagBlock30, tagBlock31, tagBlock32, tagBlock33, tagBlock34, tagBlock35, tagBlock36, tagBlock37, tagBlock38, tagBlock39, tagBlock40, tagBlock41, tagBlock42, tagBlock43, tagBlock44, tagBlock45, tagBlock46, tagBlock47, tagBlock48, tagBlock49, tagBlock50, tagBlock51, tagBlock52, tagBlock53, tagBlock54, tagBlock55, tagBlock56, tagBlock57, tagBlock58, tagBlock59]

end Gozod.Gen
