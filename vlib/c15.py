"""C15 — Parse neither writes to caller data nor lets results alias schema-held state."""
from . import common as C

MANIFEST = dict(
   technique="Lean 4 proof over store models with caller-visible value graphs (cells for maps / slices / pointees, value-typed aggregate nodes for structs and arrays held by value; reach / ser / deep copy / rebuild / assign) + correspondence: a type-directed generator of Go value graphs drives (i) by-value inputs through Parse / ParseAny / StrictParse of generated schema trees with digests (contents + addresses, spare capacity included) of every cell of the input graph, (ii) typed default / prefault values through random Parse(nil) / deep-mutation histories over families of schemas sharing the value, (iii) pointers through Parse / StrictParse, (iii') the modelled schema language made value-typed / Optional / Nilable / XPtr with a generated pointee through a fresh pointer, the Lean model predicting verdict, same / own pointer and look, the statement evaluated in Lean from schema and pointee alone, (iv) a schema language in which every schema-owned cell is explicit (literals over any with slice / map members, defaults, objects / slices / records / unions embedding them) through Parse - mutate - Parse histories over fresh equal copies of generated inputs, the Lean model predicting verdict, look, aliasing and the state of the schemas",
   text="For the tree-unrolling clone Graph.copy (maps, slices, pointees and, field by field, structs and arrays; look-equivalent to the code's memoised clone by cloneIso_copy_look): g_copyOK (the deep copy of any graph with value-typed aggregates, to any depth, consists of fresh cells only, looks exactly like the original and writes nothing that existed), g_result_fresh (Parse(nil): everything reachable from the returned default / prefault is fresh), g_assign_frame and g_hist (any interleaving of Parse(nil) calls on a family of schemas and stores of arbitrary contents into cells outside the schema-owned region leaves every default graph, hence every later result, looking the same), g_parse_mutate_parse (Parse(nil), change every scalar of every reachable cell at any nesting and add entries, Parse(nil): same look; no side conditions), g_input_unchanged (Parse of a by-value input graph builds its result in fresh cells for EVERY rewriting of entries — strip, key canonicalisation, coercion — so every cell of the input holds what it held), For EVERY schema-owned cell, not only defaults (Model/Owned.lean: parseS over any / String / literal-over-any / Default / Object strip-loose-strict / Slice / Record / Union, transcribed from validateLiteral, resolveDefault, validateObject, validateSlice, validateRecord): own_parse_ext (Parse of any value with any schema writes nothing that existed), own_result_fresh (every cell of a result was allocated by the call or is a cell of the caller's own input - never a literal member, a default or anything else a schema holds), own_mutate_reach (deep in-place mutation changes no reference), own_hist (ANY history of Parse calls with any schema of a family on newly built equal copies of any input, interleaved with deep mutation of any earlier result: every cell that existed at the start - all the schemas hold and the caller's original inputs - holds bit-for-bit what it held and every result consists of cells allocated since; no hypothesis about where the caller writes), own_hist_schema_look (every literal member / default looks the same and is still owned). The relational half, in the property's own words (Proofs/C15Congr.lean): own_parse_congr (Parse with the same schema in two stores in which every cell the schema holds looks the same, of two inputs that look the same at every depth whatever cells they are made of: the same verdict, and answers that look the same - the cells the two calls allocate are forgotten by ser), copy_look (the deep copy a caller makes looks like the original at every depth), own_hist_same_answer (in ANY history of Parse calls and deep in-place mutations of earlier results, parsing a newly built copy of input i with schema j before and after any further such history gives the same verdict and answers that look the same: mutating a value returned by Parse never changes what a later Parse returns). Parse through a caller's pointer (Proofs/C15Ptr.lean; Graph.parsePtrS / sameV / sameEntriesV = validatePointer / sameValue / sameEntries as on /repo 3302475; Graph.parsePtrP = the same over the four ways a schema is made - value-typed, .Optional(), .Nilable(), XPtr - with defaults not applying to a pointee, literals refusing pointers, Any answering the pointer itself; Graph.wantSame = the second clause in its words, computed from schema and pointee alone: pointer-typed / optional / nilable and the documented answer looks like the pointee -> the same pointer; documented answer differs (strip-mode object given unknown keys) -> a pointer of its own; value-typed -> nothing asked): ptrP_input_unchanged / ptrP_pointee_unchanged (every variant, every schema, accepted or refused: only allocates - the caller's variable, the pointee's graph and every schema cell hold what they held), ptr_same_pointer_full (THE CLAUSE, a theorem for the code as it is, /repo 3302475: pointer-typed / optional / nilable schema with ANY root, objects included, accepted, wantSame = some true, pointee a well-formed any-typed value -> the caller's own pointer comes back; no hypothesis on the model's answer; non-object roots hand back the value they were given (parse_keeps, sameValue), an object's newly built map holds exactly the caller's entries when no key is dropped (fold_obj_all, obj_same_entries, sameEntries)), sameV_refl (round 5: sameValue is an identity test — reflexive on EVERY value: leaves of any content id, and the id of a float is the id of its bit pattern, so NaN of any payload, -0, the infinities; aggregates holding them to the fuel), sameV_leaf_bits, ptr_same_pointer_leaf (AnyPtr / Any().Optional() / .Nilable() given a pointer to a leaf of ANY bits: wantSame = some true and the caller's pointer is the answer), witnesses about sameValue written with == / reflect.Value.Equal (sameVBy goEq, in no theorem about the code): eq_variant_not_refl, eq_variant_conflates_zeros, eq_variant_nan_own_pointer, witness legacy_objptr_own_pointer (validatePointer before 3302475, parsePtrS0: ObjectPtr({a}).Parse(&{a:x}) answered with a pointer of its own - was open: ptr:parse:different-pointer:ZodObject), obj_builds_new (an object's answer is a map allocated by the call), ptr_clauses_exclusive + witness ptr_letter_conflict (a store that left the input unchanged shows through the caller's pointer what it showed: the same pointer can never carry an answer that looks different - why wantSame demands a pointer of its own there), own_ptr_input_unchanged / own_ptr_same_pointer / own_ptr_own_pointer (the lemmas over parsePtrS), witness legacy_ptr_pointee_replaced (the code before e584c0e re-pointed the caller's variable). Witness lit_member_shared (a literal that continues with its declared member hands out the schema's cell; one store through the result and an equal input is refused). The clone (Model/Clone.lean): /repo HEAD has the memoised deepCloneSeen (e9eb0f2) = Graph.cloneIso (the isomorphic image of the reachable graph, total on cyclic values; run by the classes hist and deep): cloneIso_ext, cloneIso_fresh (every cell reachable from the result, to ANY depth, on ANY graph, is new), cloneIso_iso (Proofs/C15Iso.lean: the clone LOOKS LIKE the original at every depth - same shape, keys and leaves, sharing and cycles included - when the memo collected every reachable cell), cloneIso_parse, cloneIso_hist (any interleaving of Parse(nil) and stores of arbitrary contents into cells the schema does not own: the default and every later answer look like the default at every depth; no depth bound), cloneIso_parse_mutate_parse, cloneIso_copy_look (the tree-unrolling Graph.copy that parseS (.dflt) and the g_* / own_* theorems run answers values that look the same as the memoised clone's; they differ in sharing inside one answer only). Witnesses about the clone BEFORE e9eb0f2 (Graph.copy at explicit fuel): legacy_clone_shares_below_fuel, legacy_clone_cyclic_shares. Plus the round-1 theorems over plain node graphs (copyOK, c15_result_fresh, c15_mut_frame, c15_hist; legacy_c15_input_unchanged / legacy_c15_same_pointer are about the write-back of the code before e584c0e and a hard-wired answer: kept as legacy, they tie nothing). Witnesses: bulk_agg_copy_shared (copying struct / array elements by assignment leaves the cells they refer to shared), today_nested_default_shared (one-level copy).",
   note="Run only (no Lean model of the schema type; judged on the implementation by digests / addresses / looks): Optional / Nilable / Prefault / Lazy INSIDE a tree, Struct, Map, Set, Tuple, Array, Intersection, DiscriminatedUnion, key-canonicalising records, StrictParse of by-value inputs - classes val / reparse / hist / ptr / ptr(gen) / ptr(ctor); for ptr* the second clause is evaluated by Graph.wantSameRun on what the answer looks like beside the pointee (nothing left unjudged for a pointer-typed answer; an answer that is no pointer of the caller's type is counted and not judged). Modelled and tied per case (schema and input in the op line): any / String / literal-over-any / Default / Object strip-loose-strict / Slice / Record(String) / Union (classes own, optr), each as value-typed, Optional, Nilable and XPtr at the root for the pointer clause (union roots excepted: what a member does with a *any is outside the model). Prefault is not in GSchema (its value goes through parsing): run only (hist, deep). The g_* / own_* theorems follow graphs to 16 nested levels (the classes val / hist / own build at most 13) and are about Graph.copy; the memoised clone has no depth bound (cloneIso_*). The model of by-value container parsing (`rebuild`) abstracts what each schema type does to entries into an arbitrary function rw; that the real containers only read the input is established per case by the digests, not by translation of the Go code; the val / reparse model columns are therefore not informative (val: rebuild on the encoded graph; reparse: constant). g_hist / cloneIso_hist take the caller's stores to be outside the schema-owned region (discharged for answers by g_result_fresh / cloneIso_parse). The two pointer clauses are read so that they can hold together (notes/C15.md): the input graph is unchanged always; the same pointer is demanded whenever the documented answer looks like what the pointer referred to; when it differs (stripped keys) a pointer of its own is demanded (ptr_clauses_exclusive). own_parse_congr / own_hist_same_answer ask that the inputs look the same at every depth and conclude that the answers look the same to depth 16. Struct fields that are unexported stay shared in a cloned default (limit of deepCloneSeen, not reachable by a caller outside the package). Trusted: Lean kernel, axioms propext/Classical.choice/Quot.sound, the Go harness (reflective generator, digests, mutator, graph encoder).",
   design="DESIGN.md §3.4, §5 C15; notes/C15.md")

MODULES = ["Gozod.Proofs.C15", "Gozod.Proofs.C15Agg", "Gozod.Proofs.C15Own", "Gozod.Proofs.C15Clone", "Gozod.Proofs.C15Congr", "Gozod.Proofs.C15Ptr", "Gozod.Proofs.C15Iso"]
THEOREMS = [
    "Gozod.C15.c15_result_fresh", "Gozod.C15.copyOK", "Gozod.C15.c15_mut_frame", "Gozod.C15.c15_hist",
    "Gozod.C15.legacy_c15_input_unchanged", "Gozod.C15.legacy_c15_same_pointer", "Gozod.C15.graph_frame",
    "Gozod.C15.today_nested_default_shared",
    # graphs with value-typed aggregates (structs / arrays held by value inside containers)
    "Gozod.C15.g_copyOK", "Gozod.C15.g_result_fresh", "Gozod.C15.g_assign_frame", "Gozod.C15.g_hist",
    "Gozod.C15.g_graph_frame", "Gozod.C15.rebuild_ext", "Gozod.C15.g_input_unchanged", "Gozod.C15.bulk_agg_copy_shared",
    "Gozod.C15.mutateAll_ext", "Gozod.C15.g_parse_mutate_parse",
    # every schema-owned cell (literal members, defaults of member schemas, embedded schemas): Model/Owned.lean
    "Gozod.C15.owned_ext", "Gozod.C15.own_parse_ext", "Gozod.C15.own_result_fresh", "Gozod.C15.own_mutate_reach",
    "Gozod.C15.own_hist", "Gozod.C15.own_hist_schema_look", "Gozod.C15.lit_member_shared",
    # the relational half (Proofs/C15Congr.lean): what Parse answers depends only on how the schema's cells and the input look
    "Gozod.C15.own_parse_congr", "Gozod.C15.copy_look", "Gozod.C15.own_hist_same_answer", "Gozod.C15.ser_of_unfold",
    "Gozod.C15.unfold_congr", "Gozod.C15.fold_congr",
    # Parse through a caller's pointer (validatePointer after /repo e584c0e): Proofs/C15Ptr.lean
    "Gozod.C15.own_ptr_input_unchanged", "Gozod.C15.own_ptr_same_pointer", "Gozod.C15.own_ptr_own_pointer",
    "Gozod.C15.legacy_ptr_pointee_replaced",
    # the pointer clause over every variant (value-typed / optional / nilable / pointer-typed) of every schema: parsePtrP, wantSame
    "Gozod.C15.ptrP_input_unchanged", "Gozod.C15.ptrP_pointee_unchanged", "Gozod.C15.parse_keeps", "Gozod.C15.ptr_same_pointer_nonobj",
    "Gozod.C15.fold_obj_all", "Gozod.C15.find_self", "Gozod.C15.obj_same_entries", "Gozod.C15.own_ptr_same_entries",
    "Gozod.C15.ptr_same_pointer_full", "Gozod.C15.legacy_objptr_own_pointer", "Gozod.C15.obj_builds_new",
    "Gozod.C15.ptr_clauses_exclusive", "Gozod.C15.ptr_letter_conflict",
    # identity is a matter of bits (round 5): sameValue is reflexive on every value, NaN leaves included; the == variant is not
    "Gozod.C15.sameV_refl", "Gozod.C15.sameV_refl_leaf", "Gozod.C15.sameV_leaf_bits", "Gozod.C15.ptr_same_pointer_leaf",
    "Gozod.C15.sameVBy_beq", "Gozod.C15.eq_variant_not_refl", "Gozod.C15.eq_variant_conflates_zeros", "Gozod.C15.eq_variant_nan_own_pointer",
    # the clone with its depth limit explicit; the memoised clone (Model/Clone.lean)
    "Gozod.C15.legacy_clone_shares_below_fuel", "Gozod.C15.legacy_clone_cyclic_shares", "Gozod.C15.cloneIso_ext",
    "Gozod.C15.cloneIso_fresh", "Gozod.C15.cloneIso_result_fresh", "Gozod.C15.cloneIso_parse_mutate",
    # the memoised clone (deepCloneSeen) looks like the original at every depth; Parse(nil) histories over it (Proofs/C15Iso.lean)
    "Gozod.C15.shift_look", "Gozod.C15.cloneIso_iso", "Gozod.C15.cloneIso_ser", "Gozod.C15.cloneIso_wf", "Gozod.C15.reach_closed",
    "Gozod.C15.defaultOK_frame", "Gozod.C15.cloneIso_parse", "Gozod.C15.cloneIso_hist", "Gozod.C15.cloneIso_parse_mutate_parse",
    "Gozod.C15.cloneIso_copy_look",
]


def key(op, impl, M, S):
    t = C.op_body(op).split(" ")
    cm = C.op_comment(op).split(" ")
    typ = cm[-1] if cm else "?"
    how = cm[0] if cm else "?"
    variant = how.split(".", 1)[1] if "." in how else how
    if t[1] == "ptr":
        u, same = (impl.split(" ") + ["?"])[:2]
        what = "input-written" if u == "W" else "different-pointer"
        if u == "W" and "how=pointee-replaced" in cm:
            # the pointee slot was re-pointed to the newly built result (`*ptr = v`); the caller's container is intact
            return "ptr:%s:pointee-replaced:%s" % (t[2], typ)
        return "ptr:%s:%s:%s:%s" % (t[2], what, typ, variant.split("/")[0])
    if t[1] == "optr":
        # the pointer clause over the modelled language: impl / spec = "<u|W> <r|s|d|v|t> <look>"
        iu, itok, ilook = (impl.split(" ") + ["?", "?"])[:3]
        su, stok, slook = ((S or "").split(" ") + ["?", "?"])[:3]
        if iu == "W":
            return "ptr:%s:input-written:%s:optr" % (t[2], typ)
        if itok == "d" and stok == "s":
            return "ptr:%s:different-pointer:%s:optr" % (t[2], typ)
        if itok != stok:
            return "ptr:%s:answer-%s-wanted-%s:%s:optr" % (t[2], itok, stok, typ)
        return "optr-look:%s:%s" % (t[2], typ)          # verdict / look of the answer differs from the model's
    if t[1] == "dflt":
        return "%s-aliased:%s:depth%s" % (t[2], typ, t[3])
    if t[1] == "val":
        # val:<entry>:input-written:<schema type>:<top-level kind of the tree>:<Go type of the first cell that changed>
        kind = how.split(":", 1)[1] if ":" in how else how
        diff = next((x[5:] for x in cm if x.startswith("diff=")), "?")
        return "val:%s:input-written:%s:%s:%s" % (t[2], typ, kind, diff)
    if t[1] == "hist":
        depth = next((x[6:] for x in cm if x.startswith("depth=")), "?")
        iv, ifr, ih = (impl.split("|") + ["", "", ""])[:3]
        sv, sfr, sh = ((S or "").split("|") + ["", "", ""])[:3]
        if iv == sv and ifr == sfr and ih != sh:
            return "%s-look:%s" % (t[2], typ)          # Parse(nil) returned something that does not look like the value
        return "%s-aliased:%s:depth%s" % (t[2], typ, depth)
    if t[1] == "deep":
        # deep-aliased:<kind of value: chain | selfmap | selfslice | ring | lasso | diamond>:<default|prefault>:<schema type>
        kind = how.split(":")[1] if ":" in how else how
        return "deep-aliased:%s:%s:%s" % (kind, t[2], typ)
    if t[1] == "own":
        # own:<what>:<schema type of the root>:<root of the modelled tree>
        iv, ifr, isw, ih = (impl.split("|") + ["", "", "", ""])[:4]
        sv, sfr, ssw, sh = ((S or "").split("|") + ["", "", "", ""])[:4]
        root = how.split(":", 1)[1].split("(")[0].split("{")[0].split("/")[0] if ":" in how else how
        if iv == sv and ifr == sfr and isw == ssw and ih != sh:
            return "own-look:%s:%s" % (typ, root)       # verdict / look of a first result differs from the model's
        what = "result-changed" if "CHANGED" in iv else ("schema-written" if isw != ssw else "aliased")
        return "own:%s:%s:%s" % (what, typ, root)
    if impl == "ALIASED":
        return "reparse-aliased:" + typ
    return "reparse-changed:" + typ


def describe(op):
    if C.op_body(op).split(" ")[1] == "deep":
        return ("deep: <default|prefault> <steps> | V — V = the value given to Default / Prefault (R label k (key V)^k cell, B label = a cell met before: "
                "a B inside its own R is a self-reference); after '#': deep:<kind>:<schema>.<method> levels=<nesting levels of the spine>; kinds: chain (N nested "
                "[]any / map[string]any), selfmap (m[\"self\"] = m), selfslice (xs[1] = xs), ring, lasso (chain ending in a ring), diamond (sharing, no cycle); "
                "steps: P = Parse(nil) on the schema or its Describe clone, M<j>@<k> = follow the first container-holding entry of the j-th result k levels down and "
                "mutate that cell in place; observation = <same|CHANGED per later P (look = tree unfolding to 90 levels)>|<fresh|ALIASED (iterative uncapped walk of "
                "addresses against the held value and earlier results)> (harness/cmd/c15/deep.go)")
    if C.op_body(op).split(" ")[1] == "optr":
        return ("optr: <parse|strict> <v|o|n|p> | T <content ids of the string scalars> | schema | pointer — the pointer clause over the modelled language "
                "(harness/cmd/c15/optr.go): schema T ::= any | str | lit k V^k | dflt V T | obj <s|l|x> k (key T)^k | slice T | rec T | union T T made as "
                "v = types.X(...), o = .Optional(), n = .Nilable(), p = types.XPtr(...); pointer = R <label> 1 0 <pointee graph> (a fresh variable of the root's Go type: "
                "map[string]any / []any / string / any); observation = <u|W: contents + addresses of everything reachable from the caller's pointer before / after> "
                "<r refused | s the caller's pointer came back | d another pointer of the same type | v a value | t something else> <h<storex.SerHash of the answer>|->; "
                "model = Gozod.Graph.parsePtrP, statement = Gozod.Graph.wantSame (schema and pointee alone); after '#': optr:<tree>.<variant>")
    if C.op_body(op).split(" ")[1] == "own":
        return ("own: <number of schema-owned cells m> <steps> | T <content ids of the string scalars> | schema ; schema ; ... | input ; input ; ... "
                "schemas: T ::= any | str | lit k V^k | dflt V T | obj <s|l|x> k (key T)^k | slice T | rec T | union T T (harness/cmd/c15/own.go; the family is "
                "root, root.Describe/RefineAny/Meta, Object{w:root}, Slice(root), Union(root|String) - all holding the same member / default cells, labels 1..m); "
                "V = graph (R label k (key V)^k map/slice cell, B label = cell met before, S id scalar, Z nil); steps P<j>.<i> = Parse with schema j of a fresh "
                "deep copy of input i, M<k> = deep in-place mutation of the k-th result; observation = <same|CHANGED per repeated (j,i)>|<fresh|ALIASED: a result "
                "contains a cell the schemas hold (storex.SchemaAddrs, unexported fields included) that the caller did not pass in, or a cell of an earlier result>|"
                "<schema-same|schema-written: storex.DeepHash of the family>|<a<look hash>|r for the first result of every (j,i)>; after '#': the root tree, shared=<the shared cell>")
    return ("after '#': <Base>.<variant> (harness/storex Bases(); variant = chaining call applied to the base), probe=<index into storex.Probes()>; "
            "ptr: a fresh pointer to the probe value goes through Parse / StrictParse; dflt: <Base>.<Default|Prefault>/<argument variant>, "
            "Parse(nil), deep mutation of the result, Parse(nil) on the schema and on schema.Describe(), mutate, Parse(nil); "
            "val: schema=<generated tree> (harness/cmd/c15/schemas.go) with the by-value input built by storex.GraphGen from seed=<hex> "
            "(the op body after '|' is the input graph: R=map/slice/pointee cell, A=struct/array by value, S=scalar, Z=nil, B=shared cell), "
            "at=<first cell of the input that differs after the call>; hist: <Base>.<Default|Prefault> given the value generated from seed=<hex> "
            "(graph after '|'), steps P = Parse(nil) on a member of the family (schema, derived schemas, a second schema given the same value), "
            "M<j> = deep in-place mutation of the j-th result; observation = <same|CHANGED per later P>|<fresh|ALIASED>|<look of the first result>")


def run(res):
    ok, detail = C.prove(res, MODULES, THEOREMS)
    if not ok:
        C.tie_broken(res, "proof Gozod.Proofs.C15", detail)
    # structure fingerprints of the Go functions the Lean definitions transcribe (vlib/fingerprints/C15.json). A function that
    # is gone is a broken tie. A changed one AIMS the run: the classes that reach it are generated at four times the size,
    # and the correspondence decides as usual; if no generated case reaches it, that is a broken tie.
    import os
    changed = C.fingerprint(res, "C15")
    gone = [c for c in changed if c[2] == "missing"]
    if gone:
        C.tie_broken(res, "fingerprint " + gone[0][0], "the Go function a Lean definition transcribes is gone / renamed:\n" +
                     "\n".join("  %s transcribed by %s" % (c[0], c[1]) for c in gone))
    if changed and res.tier == "quick":
        os.environ["C15_AIM"] = "4"
    else:
        os.environ.pop("C15_AIM", None)
    data, err = C.correspond(res, "C15")
    if data is None:
        C.tie_broken(res, "correspondence C15/parse-aliasing", err)
        return res.finish()
    C.decide(res, "C15", data, key, "C15/parse-aliasing", describe=describe)
    res.coverage["rule"] = ("val: random schema trees (depth 1-4; Object strip/strict/loose/catchall/ptr, Record/LooseRecord/PartialRecord/RecordPtr × 14 key-schema kinds, "
        "Slice[any|string|int|map|Rule], SlicePtr, Array, Tuple(+rest), Map/MapPtr, Set[any|string|int], Struct/StructPtr/FromStruct, Union, Xor, Intersection, "
        "DiscriminatedUnion, Lazy, coercing / optional / nilable / defaulted / pointer leaves, Any/Unknown with random graphs) × generated by-value inputs (any-typed and typed "
        "maps and slices, map[any]any, structs, pointers to scalars, non-canonical numeric keys, unknown keys, duplicates, spare capacity; accepted and rejected) × "
        "{Parse, ParseAny, StrictParse}: digest of every cell of the input graph before/after; then Parse – deep mutation of the result – Parse of an identical input. "
        "hist: every schema type (storex.Bases + 40 typed / shaped bases) × {Default, Prefault} × values generated from the parameter's Go type (typed composites to 13 nested levels): "
        "P0 M0 P0 + 5-8 random steps over the family {schema, Describe, Meta, Optional, Nilable, RefineAny, NonOptional, second schema given the same value, re-defaulted schema}; "
        "per later parse same/CHANGED, address disjointness of every result from the held value and from earlier results, digest of the held value, look of the first result vs the model. "
        "own: 900 (40000) root schemas of the modelled language (any / String / LiteralOf[any] with slice and map members / Default / Object strip-loose-strict / Slice / Record / Union, depth 0-3) "
        "+ the family around each (Describe-derived, Object{w:root}, Slice(root), Union(root|String)) x 2 generated inputs per member x histories P0.0 M0 P0.0 + 4-7 random P<j>.<i> / M<k> + closing parses "
        "on fresh equal copies; the Lean model (parseS / stepC) predicts verdicts, looks, aliasing and schema state. val / reparse additionally draw state-holding leaves (Literal[any] / LiteralOf[any] / "
        "LiteralTyped over composites of 11 Go types, their Optional / RefineAny / Default clones, FromJSONSchema const / enum / default with composite values) inside every container kind; reparse checks "
        "the result against storex.SchemaAddrs (every cell reachable from the schema). "
        "deep: 5 schema types x {Default, Prefault} x {chains of 20-48 nested any-typed containers, self-referential map / slice, rings of 2-5 cells, lassos, diamonds} x histories "
        "P M0@k P + random M<j>@<k> / P on the family with k around the clone's limit (31-34), at the end of the spine and beyond one turn of a cycle; iterative uncapped walkers. "
        "val inputs hand members over through pointers below the top level (map values / fields / elements that are *[]T, *map, *struct; Struct[Box], Slice[*Rule]). "
        "ptr(ctor): every exported XxxPtr constructor of package types (listed from the source by go/ast, 108) x every accepted value of a 70-value pool through a fresh pointer, Parse and StrictParse. ptr / ptr(ctor) pools end with pointees chosen adversarially for EQUALITY (eqvals.go: NaN in 3 bit patterns, -0 / +0, +-Inf, float32 / complex, arrays, comparable and non-comparable structs, interface-typed members, containers holding them) + 16 schema instances over those types; optr pointees carry such float leaves at every position; every float leaf of the type-directed generator (val / hist / ptr(gen)) is drawn from storex.FloatLeaves; digests, looks and content ids are bit-precise for NaN (storex.FloatRepr). "
        "ptr / dflt / reparse: the round-1 classes over storex.Probes(). distinct = distinct op bodies (graph shapes × histories).")
    # the same-pointer clause quantifies over every pointer-typed constructor: the harness lists them from the source (go/ast)
    st = data[3] if isinstance(data, (list, tuple)) and len(data) > 3 and isinstance(data[3], dict) else {}
    res.coverage["pointer_constructors"] = {k: st.get(k) for k in ("ptr_constructors_in_source", "ptr_constructors_run", "ptr_constructors_not_run")}
    if st.get("ptr_constructors_not_run"):
        C.tie_broken(res, "pointer constructors", "pointer-typed constructors of package types that no case runs (add them to ptrCtorTable in "
                     "harness/cmd/c15/ptrctors.go): " + " ".join(st["ptr_constructors_not_run"]))
    if not st.get("ptr_constructors_in_source"):
        C.tie_broken(res, "pointer constructors", "the harness found no XxxPtr constructor in the source of package types (build info / go/ast)")
    if changed:
        # which generated classes exercise the changed function (harness histogram keys)
        reach = {"types/literal.go": "own:schema-holds-composite-member-or-default", "internal/engine/modifiers.go": "own:root:dflt",
                 "internal/engine/parser.go": "ptr:gen", "types/object.go": "own:root:obj", "types/slice.go": "own:root:slice",
                 "types/array.go": "own:root:slice", "types/record.go": "own:root:rec"}
        hist = (data[3] if isinstance(data, (list, tuple)) and len(data) > 3 and isinstance(data[3], dict) else {}) or {}
        hist = hist.get("histogram", hist)
        for c in changed:
            hkey = reach.get(c[0].split(":")[0])
            res.notes.append("source of %s changed (%s: %s); transcribed by %s; classes reaching it run at 4x size" % (c[0], c[2], c[3], c[1]))
            if hkey and isinstance(hist, dict) and hist and not hist.get(hkey):
                C.tie_broken(res, "fingerprint " + c[0], "no generated case reaches the changed function (histogram key %s is empty)" % hkey)
    res.assumptions += [
        "the reflective mutator reaches everything a caller could reach through exported maps, slices (up to cap), pointers, arrays and struct fields; values reachable only through a non-addressable copy are reached through the references they hold",
        "user callbacks (DefaultFunc/PrefaultFunc results) are the caller's own data and are not required to be copied",
        "results whose value depends on map iteration order (two input keys canonicalising to one) are left out of the reparse comparison (their inputs are still digested)",
    ]
    return res.finish()
