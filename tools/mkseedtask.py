#!/usr/bin/env python3
"""tools/mkseedtask.py <round> <PROP>...: create /tmp/seed<round>-<PROP> (a worktree of /repo HEAD) with _seed/TASK.md for a
fresh sub-agent: the property text only, plus one line per earlier seeded change of that property (sites to avoid)."""
import json, sys, glob, os, subprocess
rnd = sys.argv[1]
props = {json.loads(l)['id']: json.loads(l) for l in open('/verif/properties.jsonl')}
prev = {}
for d in sorted(glob.glob('/verif/seeded/C*')):
    m = json.load(open(d + '/meta.json'))
    prev.setdefault(m['property'], []).append(m['summary'][:260].replace('\n', ' '))
for i in sys.argv[2:]:
    p = props[i]; wt = '/tmp/seed%s-%s' % (rnd, i)
    subprocess.run(['git', '-C', '/repo', 'worktree', 'add', '-q', '--detach', wt, 'HEAD'], check=True)
    os.makedirs(wt + '/_seed', exist_ok=True)
    avoid = '\n'.join('  - ' + s for s in prev.get(i, [])) or '  (none)'
    open(wt + '/_seed/TASK.md', 'w').write(f"""# Task: write a property-breaking change to kaptinlin/gozod

You are in a scratch git worktree of the Go library kaptinlin/gozod (a Go port of Zod v4): {wt}
Work ONLY inside this directory. Do not read or write /verif, /repo, or any other /tmp/seed* directory.
Shell: run `export GOFLAGS=-mod=mod GOPROXY=off` at the start of every shell command (no network; leave
GOTOOLCHAIN and GOSUMDB unset). `go build ./...` takes seconds; the full suite `go test -vet=off -count=1 ./...`
takes about a minute (other workers share the machine, it may take longer).

## The property (id {i}): {p['title']}

{p['statement']}

Quantifier: {p.get('quantifier','')}

Where it lives (anchors):
{json.dumps(p['anchors'], indent=1)}

## What to deliver

A realistic change to the library source (not to its tests) that BREAKS this property while
  (a) still compiling (`go build ./...`),
  (b) keeping the ENTIRE existing test suite green (`go test -vet=off -count=1 ./...`, unedited), and
  (c) looking like something a maintainer could plausibly write: an optimisation, a refactor, a "simplification",
      a caching layer, a fast path, a tidy-up of duplicated code — with a plausible code comment.
The break must need something SPECIFIC to manifest: a particular interleaving, a multi-step sequence of operations,
an unusual input, a boundary value, a particular combination of options, or two cooperating sites that each look fine
alone. It must NOT be something ordinary use would expose at once. Spend effort on subtlety: think about which
inputs the existing tests never exercise. Earlier exercises already produced these changes — pick a DIFFERENT site AND
a different mechanism (not another variant of the same idea):
{avoid}

Put into {wt}/_seed/ :
  * patch.diff   — `git diff` against HEAD of library files only (must apply with `git apply` on a clean checkout)
  * demo_test.go — a Go test (function name starting with TestSeed{rnd}{i}) that FAILS with the change and PASSES without it;
                   first line a comment `// copy to: <package directory relative to the repo root>`; use only the public API
                   where possible
  * meta.json    — {{"property": "{i}", "summary": "<what the change is and why it breaks the property>",
                    "needs": "<exactly what is needed for the break to manifest, and what is unaffected>",
                    "demo": "<exact commands to run the demonstration>"}}

Verify all of this yourself before finishing: with the patch applied — build OK, full suite green, demo fails;
without the patch — demo passes. Finally leave the worktree clean (`git checkout -- .`, remove your copy of the demo
test from the package directory) so that only _seed/ differs from HEAD.

Your final message: under 150 words — the site changed, what is needed to manifest, and the verification results.
""")
    print(wt)
