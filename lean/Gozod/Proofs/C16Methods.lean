/-
  C16, method by method: every comparison method of the integer and of the float schemas —
  Min, Max, Gt, Gte, Lt, Lte, the sign shorthands Positive, Negative, NonNegative, NonPositive, and
  Safe — as the regenerated tables wire it (`Gen.NumDispatch.integerMethods` / `floatMethods` through
  `checkCtors` to `validate.Lt/Lte/Gt/Gte`, `C16D.methods_table`), interpreted with the model's
  `implCmp`, decides the mathematical comparison its documentation states, for every input.

  * `c16_float_methods_exact` — float32/float64 schemas, for EVERY float input (negative zero,
    ±Inf and NaN included: the input ranges over all of `F`) and every float64 bound;
  * `c16_int_methods_exact`   — the ten integer schemas, every in-range input, every int64 bound;
  * `c16_float_specials`      — what that means on the special inputs, spelled out: a NaN input
    fails every method; −0 is 0 (NonNegative and NonPositive hold, Positive and Negative do not);
    +Inf passes Gt/Gte/Min/Positive/NonNegative against any finite bound and fails Lt/Lte/Max/…;
    symmetric for −Inf; +Inf ≤ +Inf and +Inf ≥ +Inf hold, +Inf < +Inf does not.
-/
import Gozod.Proofs.C16Dispatch
import Gozod.Model.NumFloat

set_option linter.unusedSimpArgs false
set_option maxRecDepth 100000
set_option exponentiation.threshold 2000
namespace Gozod.C16M
open Gozod Gozod.C16D Gozod.Gen.NumDispatch

/-- What the `validate` call a check constructor ends in decides, on the value `x` and the operand `b`
    the constructor received: the model's `implCmp` for the four comparisons, the model's
    `NumFloat.multipleOfNum` (exact integer branch / ε-rule) for `MultipleOf`. -/
def callHolds : String → Num → Num → Option Bool
  | "validate.Lt(payload.Value(), value)", x, b => some (implCmp .lt x b)
  | "validate.Lte(payload.Value(), value)", x, b => some (implCmp .lte x b)
  | "validate.Gt(payload.Value(), value)", x, b => some (implCmp .gt x b)
  | "validate.Gte(payload.Value(), value)", x, b => some (implCmp .gte x b)
  | "validate.MultipleOf(payload.Value(), divisor)", x, b => some (NumFloat.multipleOfNum x b)
  | _, _, _ => none

/-- The verdict of schema method `m` on the value `x`, with the method's own bound `arg`, as the
    regenerated tables wire it: every `validate` call of the chain must hold. `lit` turns a
    literal bound into the operand the method receives (`int64(n)` / `float64(n)`). -/
def methodVerdict (tbl : List (String × String × List (Bool × String × Dispatch.Arg))) (lit : Int → Num)
    (m : String) (x arg : Num) : Option Bool :=
  match resolve tbl 4 m none with
  | none => none
  | some calls => calls.foldr (fun c acc => do
      let rest ← acc
      let b := match c.2 with
        | some n => lit n
        | none => arg
      let v ← callHolds c.1 x b
      pure (v && rest)) (some true)

/-- The documented meaning of each method. -/
def methodSpec (lit : Int → Num) (m : String) (x arg : Num) : Option Bool :=
  match m with
  | "Min" => some (specCmp .gte x arg)
  | "Max" => some (specCmp .lte x arg)
  | "Gt" => some (specCmp .gt x arg)
  | "Gte" => some (specCmp .gte x arg)
  | "Lt" => some (specCmp .lt x arg)
  | "Lte" => some (specCmp .lte x arg)
  | "Positive" => some (specCmp .gt x (lit 0))
  | "Negative" => some (specCmp .lt x (lit 0))
  | "NonNegative" => some (specCmp .gte x (lit 0))
  | "NonPositive" => some (specCmp .lte x (lit 0))
  | "Safe" => some (specCmp .gte x (lit (-(2 ^ 53 - 1))) && specCmp .lte x (lit (2 ^ 53 - 1)))
  | _ => none

def cmpMethods : List String :=
  ["Min", "Max", "Gt", "Gte", "Lt", "Lte", "Positive", "Negative", "NonNegative", "NonPositive", "Safe"]

def flit (n : Int) : Num := .f (.fin n 0)
def ilit (n : Int) : Num := .i n

/-- **Every comparison method of the float schemas, on every float input** (−0, ±Inf, NaN
    included) **and every float64 bound, decides the mathematical comparison.** -/
theorem c16_float_methods_exact (m : String) (hm : m ∈ cmpMethods) (x b : F) :
    methodVerdict floatMethods flit m (.f x) (.f b) = methodSpec flit m (.f x) (.f b) := by
  simp only [cmpMethods, List.mem_cons, List.mem_nil_iff, or_false] at hm
  rcases hm with rfl | rfl | rfl | rfl | rfl | rfl | rfl | rfl | rfl | rfl | rfl
  · have hr := (methods_table.1 ("Min", [("validate.Gte(payload.Value(), value)", none)]) (by simp [documented])).2
    simp only [] at hr
    simp [methodVerdict, hr, callHolds, methodSpec, flit, C16.c16_float_cmp]
  · have hr := (methods_table.1 ("Max", [("validate.Lte(payload.Value(), value)", none)]) (by simp [documented])).2
    simp only [] at hr
    simp [methodVerdict, hr, callHolds, methodSpec, flit, C16.c16_float_cmp]
  · have hr := (methods_table.1 ("Gt", [("validate.Gt(payload.Value(), value)", none)]) (by simp [documented])).2
    simp only [] at hr
    simp [methodVerdict, hr, callHolds, methodSpec, flit, C16.c16_float_cmp]
  · have hr := (methods_table.1 ("Gte", [("validate.Gte(payload.Value(), value)", none)]) (by simp [documented])).2
    simp only [] at hr
    simp [methodVerdict, hr, callHolds, methodSpec, flit, C16.c16_float_cmp]
  · have hr := (methods_table.1 ("Lt", [("validate.Lt(payload.Value(), value)", none)]) (by simp [documented])).2
    simp only [] at hr
    simp [methodVerdict, hr, callHolds, methodSpec, flit, C16.c16_float_cmp]
  · have hr := (methods_table.1 ("Lte", [("validate.Lte(payload.Value(), value)", none)]) (by simp [documented])).2
    simp only [] at hr
    simp [methodVerdict, hr, callHolds, methodSpec, flit, C16.c16_float_cmp]
  · have hr := (methods_table.1 ("Positive", [("validate.Gt(payload.Value(), value)", some 0)]) (by simp [documented])).2
    simp only [] at hr
    simp [methodVerdict, hr, callHolds, methodSpec, flit, C16.c16_float_cmp]
  · have hr := (methods_table.1 ("Negative", [("validate.Lt(payload.Value(), value)", some 0)]) (by simp [documented])).2
    simp only [] at hr
    simp [methodVerdict, hr, callHolds, methodSpec, flit, C16.c16_float_cmp]
  · have hr := (methods_table.1 ("NonNegative", [("validate.Gte(payload.Value(), value)", some 0)]) (by simp [documented])).2
    simp only [] at hr
    simp [methodVerdict, hr, callHolds, methodSpec, flit, C16.c16_float_cmp]
  · have hr := (methods_table.1 ("NonPositive", [("validate.Lte(payload.Value(), value)", some 0)]) (by simp [documented])).2
    simp only [] at hr
    simp [methodVerdict, hr, callHolds, methodSpec, flit, C16.c16_float_cmp]
  · have hr := (methods_table.1 ("Safe", [("validate.Gte(payload.Value(), value)", some (-(2 ^ 53 - 1))), ("validate.Lte(payload.Value(), value)", some (2 ^ 53 - 1))]) (by simp [documented])).2
    simp only [] at hr
    simp [methodVerdict, hr, callHolds, methodSpec, flit, C16.c16_float_cmp]

/-- **Every comparison method of the ten integer schemas, on every in-range input and every
    int64 bound, decides the comparison of the integers** (sign shorthands: against 0). -/
theorem c16_int_methods_exact (m : String) (hm : m ∈ cmpMethods) (t : IntTy) (v b : Int)
    (hv : t.inRange v) (hb64 : IntTy.i64.inRange b) :
    methodVerdict integerMethods ilit m (Num.ofInt t v) (.i b) = methodSpec ilit m (Num.ofInt t v) (.i b) := by
  have hx : C16.Num.wf (Num.ofInt t v) := C16.ofInt_wf t v hv
  have hb : C16.Num.wf (.i b) := hb64
  have w0 : C16.Num.wf (.i 0) := by show IntTy.i64.inRange 0; decide
  have wlo : C16.Num.wf (.i (-(2 ^ 53 - 1))) := by show IntTy.i64.inRange (-(2 ^ 53 - 1)); decide
  have whi : C16.Num.wf (.i (2 ^ 53 - 1)) := by show IntTy.i64.inRange (2 ^ 53 - 1); decide
  have wlo' : C16.Num.wf (.i (-9007199254740991)) := wlo
  have whi' : C16.Num.wf (.i 9007199254740991) := whi
  simp only [cmpMethods, List.mem_cons, List.mem_nil_iff, or_false] at hm
  rcases hm with rfl | rfl | rfl | rfl | rfl | rfl | rfl | rfl | rfl | rfl | rfl
  · have hr := (methods_table.1 ("Min", [("validate.Gte(payload.Value(), value)", none)]) (by simp [documented])).1
    simp only [] at hr
    simp [methodVerdict, hr, callHolds, methodSpec, ilit, C16.c16_cmp _ _ _ hx hb, C16.c16_cmp _ _ (.i 0) hx w0,
      C16.c16_cmp _ _ (.i (-(2 ^ 53 - 1))) hx wlo, C16.c16_cmp _ _ (.i (2 ^ 53 - 1)) hx whi,
      C16.c16_cmp _ _ (.i (-9007199254740991)) hx wlo', C16.c16_cmp _ _ (.i 9007199254740991) hx whi']
  · have hr := (methods_table.1 ("Max", [("validate.Lte(payload.Value(), value)", none)]) (by simp [documented])).1
    simp only [] at hr
    simp [methodVerdict, hr, callHolds, methodSpec, ilit, C16.c16_cmp _ _ _ hx hb, C16.c16_cmp _ _ (.i 0) hx w0,
      C16.c16_cmp _ _ (.i (-(2 ^ 53 - 1))) hx wlo, C16.c16_cmp _ _ (.i (2 ^ 53 - 1)) hx whi,
      C16.c16_cmp _ _ (.i (-9007199254740991)) hx wlo', C16.c16_cmp _ _ (.i 9007199254740991) hx whi']
  · have hr := (methods_table.1 ("Gt", [("validate.Gt(payload.Value(), value)", none)]) (by simp [documented])).1
    simp only [] at hr
    simp [methodVerdict, hr, callHolds, methodSpec, ilit, C16.c16_cmp _ _ _ hx hb, C16.c16_cmp _ _ (.i 0) hx w0,
      C16.c16_cmp _ _ (.i (-(2 ^ 53 - 1))) hx wlo, C16.c16_cmp _ _ (.i (2 ^ 53 - 1)) hx whi,
      C16.c16_cmp _ _ (.i (-9007199254740991)) hx wlo', C16.c16_cmp _ _ (.i 9007199254740991) hx whi']
  · have hr := (methods_table.1 ("Gte", [("validate.Gte(payload.Value(), value)", none)]) (by simp [documented])).1
    simp only [] at hr
    simp [methodVerdict, hr, callHolds, methodSpec, ilit, C16.c16_cmp _ _ _ hx hb, C16.c16_cmp _ _ (.i 0) hx w0,
      C16.c16_cmp _ _ (.i (-(2 ^ 53 - 1))) hx wlo, C16.c16_cmp _ _ (.i (2 ^ 53 - 1)) hx whi,
      C16.c16_cmp _ _ (.i (-9007199254740991)) hx wlo', C16.c16_cmp _ _ (.i 9007199254740991) hx whi']
  · have hr := (methods_table.1 ("Lt", [("validate.Lt(payload.Value(), value)", none)]) (by simp [documented])).1
    simp only [] at hr
    simp [methodVerdict, hr, callHolds, methodSpec, ilit, C16.c16_cmp _ _ _ hx hb, C16.c16_cmp _ _ (.i 0) hx w0,
      C16.c16_cmp _ _ (.i (-(2 ^ 53 - 1))) hx wlo, C16.c16_cmp _ _ (.i (2 ^ 53 - 1)) hx whi,
      C16.c16_cmp _ _ (.i (-9007199254740991)) hx wlo', C16.c16_cmp _ _ (.i 9007199254740991) hx whi']
  · have hr := (methods_table.1 ("Lte", [("validate.Lte(payload.Value(), value)", none)]) (by simp [documented])).1
    simp only [] at hr
    simp [methodVerdict, hr, callHolds, methodSpec, ilit, C16.c16_cmp _ _ _ hx hb, C16.c16_cmp _ _ (.i 0) hx w0,
      C16.c16_cmp _ _ (.i (-(2 ^ 53 - 1))) hx wlo, C16.c16_cmp _ _ (.i (2 ^ 53 - 1)) hx whi,
      C16.c16_cmp _ _ (.i (-9007199254740991)) hx wlo', C16.c16_cmp _ _ (.i 9007199254740991) hx whi']
  · have hr := (methods_table.1 ("Positive", [("validate.Gt(payload.Value(), value)", some 0)]) (by simp [documented])).1
    simp only [] at hr
    simp [methodVerdict, hr, callHolds, methodSpec, ilit, C16.c16_cmp _ _ _ hx hb, C16.c16_cmp _ _ (.i 0) hx w0,
      C16.c16_cmp _ _ (.i (-(2 ^ 53 - 1))) hx wlo, C16.c16_cmp _ _ (.i (2 ^ 53 - 1)) hx whi,
      C16.c16_cmp _ _ (.i (-9007199254740991)) hx wlo', C16.c16_cmp _ _ (.i 9007199254740991) hx whi']
  · have hr := (methods_table.1 ("Negative", [("validate.Lt(payload.Value(), value)", some 0)]) (by simp [documented])).1
    simp only [] at hr
    simp [methodVerdict, hr, callHolds, methodSpec, ilit, C16.c16_cmp _ _ _ hx hb, C16.c16_cmp _ _ (.i 0) hx w0,
      C16.c16_cmp _ _ (.i (-(2 ^ 53 - 1))) hx wlo, C16.c16_cmp _ _ (.i (2 ^ 53 - 1)) hx whi,
      C16.c16_cmp _ _ (.i (-9007199254740991)) hx wlo', C16.c16_cmp _ _ (.i 9007199254740991) hx whi']
  · have hr := (methods_table.1 ("NonNegative", [("validate.Gte(payload.Value(), value)", some 0)]) (by simp [documented])).1
    simp only [] at hr
    simp [methodVerdict, hr, callHolds, methodSpec, ilit, C16.c16_cmp _ _ _ hx hb, C16.c16_cmp _ _ (.i 0) hx w0,
      C16.c16_cmp _ _ (.i (-(2 ^ 53 - 1))) hx wlo, C16.c16_cmp _ _ (.i (2 ^ 53 - 1)) hx whi,
      C16.c16_cmp _ _ (.i (-9007199254740991)) hx wlo', C16.c16_cmp _ _ (.i 9007199254740991) hx whi']
  · have hr := (methods_table.1 ("NonPositive", [("validate.Lte(payload.Value(), value)", some 0)]) (by simp [documented])).1
    simp only [] at hr
    simp [methodVerdict, hr, callHolds, methodSpec, ilit, C16.c16_cmp _ _ _ hx hb, C16.c16_cmp _ _ (.i 0) hx w0,
      C16.c16_cmp _ _ (.i (-(2 ^ 53 - 1))) hx wlo, C16.c16_cmp _ _ (.i (2 ^ 53 - 1)) hx whi,
      C16.c16_cmp _ _ (.i (-9007199254740991)) hx wlo', C16.c16_cmp _ _ (.i 9007199254740991) hx whi']
  · have hr := (methods_table.1 ("Safe", [("validate.Gte(payload.Value(), value)", some (-(2 ^ 53 - 1))), ("validate.Lte(payload.Value(), value)", some (2 ^ 53 - 1))]) (by simp [documented])).1
    simp only [] at hr
    simp [methodVerdict, hr, callHolds, methodSpec, ilit, C16.c16_cmp _ _ _ hx hb, C16.c16_cmp _ _ (.i 0) hx w0,
      C16.c16_cmp _ _ (.i (-(2 ^ 53 - 1))) hx wlo, C16.c16_cmp _ _ (.i (2 ^ 53 - 1)) hx whi,
      C16.c16_cmp _ _ (.i (-9007199254740991)) hx wlo', C16.c16_cmp _ _ (.i 9007199254740991) hx whi']

/-! ### MultipleOf and Step (round 4c, audit M10: "method-level MultipleOf and Step are not in `cmpMethods`") -/

def mulMethods : List String := ["MultipleOf", "Step"]

/-- **`MultipleOf` / `Step` of the ten integer schemas, as the regenerated tables wire them, decide integer
    divisibility** — for every in-range input and every int64 divisor (zero divisor: nothing passes). -/
theorem c16_int_methods_multiple_exact (m : String) (hm : m ∈ mulMethods) (t : IntTy) (v d : Int)
    (hv : t.inRange v) (hd : IntTy.i64.inRange d) :
    methodVerdict integerMethods ilit m (Num.ofInt t v) (.i d) = some (specMultipleOfInt v d) := by
  have hx : C16.Num.wf (Num.ofInt t v) := C16.ofInt_wf t v hv
  have hb : C16.Num.wf (.i d) := hd
  have hexact := C16.multipleOfInts_exact (Num.ofInt t v) (.i d) hx hb (C16.ofInt_isInt t v) rfl
  rw [C16.ofInt_ival] at hexact
  have hmul : NumFloat.multipleOfNum (Num.ofInt t v) (.i d) = multipleOfInts (Num.ofInt t v) (.i d) := by
    unfold Num.ofInt; split <;> rfl
  simp only [mulMethods, List.mem_cons, List.mem_nil_iff, or_false] at hm
  rcases hm with rfl | rfl
  · have hr := (methods_table.1 ("MultipleOf", [("validate.MultipleOf(payload.Value(), divisor)", none)]) (by simp [documented])).1
    simp only [] at hr
    simp [methodVerdict, hr, callHolds, hmul, hexact, C16.ival]
  · have hr := (methods_table.1 ("Step", [("validate.MultipleOf(payload.Value(), divisor)", none)]) (by simp [documented])).1
    simp only [] at hr
    simp [methodVerdict, hr, callHolds, hmul, hexact, C16.ival]

/-- `MultipleOf` / `Step` of the float schemas end in the documented ε-rule (`NumFloat.floatMultipleOf`; what that
    rule guarantees is `C16F.c16_float_multiple_complete` / `c16_float_multiple_sound_bound`). -/
theorem c16_float_methods_multiple (m : String) (hm : m ∈ mulMethods) (x d : F) :
    methodVerdict floatMethods flit m (.f x) (.f d) = some (NumFloat.floatMultipleOf x d) := by
  simp only [mulMethods, List.mem_cons, List.mem_nil_iff, or_false] at hm
  rcases hm with rfl | rfl
  · have hr := (methods_table.1 ("MultipleOf", [("validate.MultipleOf(payload.Value(), divisor)", none)]) (by simp [documented])).2
    simp only [] at hr
    simp [methodVerdict, hr, callHolds, NumFloat.multipleOfNum, NumFloat.numToF]
  · have hr := (methods_table.1 ("Step", [("validate.MultipleOf(payload.Value(), divisor)", none)]) (by simp [documented])).2
    simp only [] at hr
    simp [methodVerdict, hr, callHolds, NumFloat.multipleOfNum, NumFloat.numToF]

example : methodVerdict integerMethods ilit "Step" (Num.ofInt .i64 10000005) (.i 10000000) = some false ∧
    methodVerdict integerMethods ilit "MultipleOf" (Num.ofInt .u64 (2 ^ 64 - 2)) (.i (-2)) = some true ∧
    methodVerdict integerMethods ilit "MultipleOf" (Num.ofInt .i8 0) (.i 0) = some false := by
  decide

/-- On integers the specification is the order of the integers. -/
theorem specCmp_int (op : CmpOp) (t : IntTy) (v b : Int) (hv : t.inRange v) (hb : IntTy.i64.inRange b) :
    specCmp op (Num.ofInt t v) (.i b) = op.holdsInt v b := by
  rw [← C16.c16_cmp op _ _ (C16.ofInt_wf t v hv) (show C16.Num.wf (.i b) from hb)]
  exact C16.c16_int_cmp op t .i64 v b hv hb

/-- **The special float inputs, spelled out** (any finite bound `c/2^j`). -/
theorem c16_float_specials (op : CmpOp) (c : Int) (j : Nat) :
    -- NaN fails everything, as input and as bound
    specCmp op (.f .nan) (.f (.fin c j)) = false ∧ specCmp op (.f (.fin c j)) (.f .nan) = false ∧
    specCmp op (.f .nan) (flit 0) = false ∧
    -- +Inf / −Inf against a finite bound
    specCmp op (.f .pinf) (.f (.fin c j)) = (match op with | .gt | .gte => true | _ => false) ∧
    specCmp op (.f .ninf) (.f (.fin c j)) = (match op with | .lt | .lte => true | _ => false) ∧
    -- infinities against themselves
    specCmp op (.f .pinf) (.f .pinf) = (match op with | .gte | .lte => true | _ => false) ∧
    specCmp op (.f .ninf) (.f .ninf) = (match op with | .gte | .lte => true | _ => false) ∧
    -- negative zero is zero: against the literal 0 of the sign shorthands
    specCmp op (.f (F.ofBits (2 ^ 63))) (flit 0) = (match op with | .gte | .lte => true | _ => false) ∧
    specCmp op (.f (F.ofBits (2 ^ 63))) (.f (.fin c j)) = specCmp op (.f (F.ofBits 0)) (.f (.fin c j)) := by
  refine ⟨by cases op <;> rfl, by cases op <;> rfl, by cases op <;> rfl, by cases op <;> rfl, by cases op <;> rfl,
    by cases op <;> rfl, by cases op <;> rfl, by cases op <;> decide, rfl⟩

example : methodVerdict floatMethods flit "NonNegative" (.f (F.ofBits (2 ^ 63))) (.f .nan) = some true ∧
    methodVerdict floatMethods flit "Positive" (.f (F.ofBits (2 ^ 63))) (.f .nan) = some false ∧
    methodVerdict floatMethods flit "Max" (.f .pinf) (.f (.fin 5 0)) = some false ∧
    methodVerdict integerMethods ilit "Gt" (Num.ofInt .i64 (2 ^ 53 + 1)) (.i (2 ^ 53)) = some true := by
  decide

end Gozod.C16M
