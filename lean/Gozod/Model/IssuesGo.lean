/-
  C19 — "for EVERY ZodError": the Go-level domain of the formatters.

  `Gozod.Issues` (Model/Issues.lean) works over *positions*: `Seg = key String | idx Nat`.  A Go path is
  `[]any`, and the library itself puts values of ANY comparable type there: struct/object field names
  (string), slice/array/tuple indices (int ≥ 0), and — types/map.go `collectErrors(…, pathKey any, …)`,
  types/set.go — map keys and set elements as they are (negative ints, int64, float64, bool, structs, nil…;
  the regenerated table `Gen/C19PathTypes.lean` lists every site).  A user can build any path too (struct
  literal, `issues.WithPath`).  And a `*ZodError` can be nil.  This file brings all of that in:

  * `El`       a Go path element, as far as the four formatters can tell elements apart:
               a `string`, an `int` (any sign), or a value of any other dynamic type, which every
               formatter reads through `fmt.Sprintf("%v", el)` only (`other r`, r = that text);
  * `IssueGo`  core.ZodIssue with Go paths; `Err = Option (List IssueGo)` (none = a nil `*ZodError`);
  * the four formatters AS THE GO CODE COMPUTES THEM on such errors.  Three places were repaired in
    round 4b (c65f4c0 processIssueInTree, 6ff3a13 ToDotPath, e8b2b50 nil guards); both states are kept (`Cfg`):
        processIssueInTree   negative int  → `current.Items[element]` PANICS   | filed as the property "-n"
        processIssueInTree   other type    → element IGNORED (message filed at the enclosing node,
                                             or the level skipped)              | filed as the property "%v"
        utils.ToDotPath      other type    → `[%v]` raw (`int64(0)` prints like the index 0, a value
                                             whose text is `"a.b"` like the key a.b) | written as the key "%v"
        nil *ZodError        Flatten/Treeify/Format/PrettifyError dereference it: PANIC | reports of an empty error
    The code AS IT STANDS is the unsuffixed definition (`treeInsertGo`, `dotCharsGo`, …); the code
    before the three commits is `…Cur` / `Cfg.head`, kept for the witness theorems.  Proofs/C19Go.lean
    proves the full statements of the former, the partial statements (+ witnesses) of the latter.
    The harness names `cfg=1111` in every op line: the driver is pinned to the code as it stands.
  * `El.pos`   the position an element denotes in the Flatten / Treeify / Format reports (READING
               DECISION, notes/C19.md): a string is a key, a non-negative int an index, anything else
               the key its `%v` text is — which is how FlattenError and FormatError have always keyed
               them (`fmt.Sprintf("%v", pathEl)`).
-/
import Gozod.Model.Issues
namespace Gozod.Issues

/-- a Go path element (`any`) as the formatters see it -/
inductive El where
  | str (s : String)
  | int (z : Int)
  | other (r : String)
  deriving DecidableEq, Repr, Inhabited

/-- `strconv.Itoa` -/
def itoa : Int → String
  | .ofNat n => toString n
  | .negSucc n => "-" ++ toString (n + 1)

/-- `fmt.Sprintf("%v", el)` -/
def El.render : El → String
  | .str s => s
  | .int z => itoa z
  | .other r => r

/-- the position the element denotes in the reports (see the header) -/
def El.pos : El → Seg
  | .str s => .key s
  | .int (.ofNat n) => .idx n
  | .int (.negSucc n) => .key (itoa (.negSucc n))
  | .other r => .key r

/-- string or int: the dynamic types the type switches of errors.go / utils.go name -/
def El.typed : El → Bool
  | .other _ => false
  | _ => true

/-- string or NON-NEGATIVE int: what the formatters of /repo HEAD handle -/
def El.plain : El → Bool
  | .str _ => true
  | .int (.ofNat _) => true
  | _ => false

def El.isNeg : El → Bool
  | .int (.negSucc _) => true
  | _ => false

/-- core.ZodIssue with a Go path -/
inductive IssueGo where
  | mk (code : Code) (path : List El) (msg : String) (errors : List (List IssueGo)) (issues : List IssueGo)
  deriving Repr, Inhabited

namespace IssueGo
def code : IssueGo → Code | mk c _ _ _ _ => c
def path : IssueGo → List El | mk _ p _ _ _ => p
def msg : IssueGo → String | mk _ _ m _ _ => m
end IssueGo

mutual
/-- the issue with every path element replaced by the position it denotes -/
def IssueGo.norm : IssueGo → Issue
  | .mk c p m es is => .mk c (p.map El.pos) m (normBranches es) (normList is)
def normList : List IssueGo → List Issue
  | [] => []
  | i :: r => i.norm :: normList r
def normBranches : List (List IssueGo) → List (List Issue)
  | [] => []
  | b :: bs => normList b :: normBranches bs
end

/-- a `*ZodError` as far as the formatters read it: nil, or its Issues -/
abbrev Err := Option (List IssueGo)

/-! ## FlattenError / FormatError: both read an element through `fmt.Sprintf("%v", el)` only -/

/-- errors.go FlattenErrorWithMapper, one iteration (`fieldPath := fmt.Sprintf("%v", issue.Path[0])`) -/
def flattenStepGo (f : Flat) (i : IssueGo) : Flat :=
  match i.path with
  | [] => { f with form := f.form ++ [i.msg] }
  | s :: _ => { f with fields := addField s.render i.msg f.fields }

def flattenGo (is : List IssueGo) : Flat := is.foldl flattenStepGo ⟨[], []⟩

mutual
/-- errors.go FormatErrorWithMapper / processError, one iteration (`key := fmt.Sprintf("%v", pathEl)`) -/
def fmtIssueGo (pre : List El) : IssueGo → Fmt → Fmt
  | .mk code path msg errors issues, t =>
    match code with
    | .invalidUnion =>
      if anyNonEmptyGo errors then fmtBranchesGo (pre ++ path) errors t
      else Fmt.fileAt ((pre ++ path).map El.render) msg t
    | .invalidKey =>
      match issues with
      | [] => Fmt.fileAt ((pre ++ path).map El.render) msg t
      | i :: r => fmtIssuesGo (pre ++ path) (i :: r) t
    | .invalidElement =>
      match issues with
      | [] => Fmt.fileAt ((pre ++ path).map El.render) msg t
      | i :: r => fmtIssuesGo (pre ++ path) (i :: r) t
    | _ => Fmt.fileAt ((pre ++ path).map El.render) msg t
def fmtIssuesGo (pre : List El) : List IssueGo → Fmt → Fmt
  | [], t => t
  | i :: r, t => fmtIssuesGo pre r (fmtIssueGo pre i t)
def fmtBranchesGo (pre : List El) : List (List IssueGo) → Fmt → Fmt
  | [], t => t
  | b :: bs, t => fmtBranchesGo pre bs (fmtIssuesGo pre b t)
def anyNonEmptyGo : List (List IssueGo) → Bool
  | [] => false
  | [] :: r => anyNonEmptyGo r
  | (_ :: _) :: _ => true
end

def formatGo (is : List IssueGo) : Fmt := fmtIssuesGo [] is Fmt.empty

/-! ## TreeifyError: the type switch of processIssueInTree -/

/-- processIssueInTree AS IT STANDS (since c65f4c0):
    `case string` → property; `case int` → item when ≥ 0, else the property `%v`; `default` → the property `%v`. -/
def treeInsertGo : List El → String → Tree → Tree
  | [], m, t => t.addErr m
  | .str k :: r, m, .node e p i => .node e (updProp k (treeInsertGo r m) p) i
  | .int (.ofNat n) :: r, m, .node e p i => .node e p (updItem (treeInsertGo r m) n i)
  | .int (.negSucc n) :: r, m, .node e p i => .node e (updProp (itoa (.negSucc n)) (treeInsertGo r m) p) i
  | .other s :: r, m, .node e p i => .node e (updProp s (treeInsertGo r m) p) i

def treeifyGo (is : List IssueGo) : Tree := is.foldl (fun t i => treeInsertGo i.path i.msg t) Tree.empty

/-- `updProp` when the continuation can panic -/
def updPropM (k : String) (f : Tree → Option Tree) : List (String × Tree) → Option (List (String × Tree))
  | [] => (f Tree.empty).map (fun t => [(k, t)])
  | (k', t) :: r =>
    if k' = k then (f t).map (fun t' => (k', t') :: r)
    else (updPropM k f r).map (fun r' => (k', t) :: r')

def updItemM (f : Tree → Option Tree) : Nat → List Tree → Option (List Tree)
  | 0, [] => (f Tree.empty).map (fun t => [t])
  | 0, t :: r => (f t).map (fun t' => t' :: r)
  | n + 1, [] => (updItemM f n []).map (fun r' => Tree.empty :: r')
  | n + 1, t :: r => (updItemM f n r).map (fun r' => t :: r')

/-- processIssueInTree BEFORE c65f4c0 (`none` = the call panics):
    `case string`, `case int` (no sign test: `current.Items[element]` with element < 0 is an index
    out of range), no `default` (the element is ignored: `current` stays; when it is the last
    element the message is appended to `current.Errors` all the same). -/
def treeInsertOld : List El → String → Tree → Option Tree
  | [], m, t => some (t.addErr m)
  | .str k :: r, m, .node e p i => (updPropM k (treeInsertOld r m) p).map (fun p' => .node e p' i)
  | .int (.ofNat n) :: r, m, .node e p i => (updItemM (treeInsertOld r m) n i).map (fun i' => .node e p i')
  | .int (.negSucc _) :: _, _, _ => none
  | .other _ :: r, m, t => treeInsertOld r m t

def treeifyOldFrom : List IssueGo → Tree → Option Tree
  | [], t => some t
  | i :: r, t => (treeInsertOld i.path i.msg t).bind (treeifyOldFrom r)

def treeifyOld (is : List IssueGo) : Option Tree := treeifyOldFrom is Tree.empty

/-! ## utils.ToDotPath on Go paths -/

def bracketed (cs : List Char) : List Char := '[' :: cs ++ [']']

/-- the `case string` arm of ToDotPath (`first` = it is segment 0) -/
def keyDot (first : Bool) (s : String) : List Char := segDotEsc first (.key s)

/-- one segment of utils.ToDotPath AS IT STANDS (since 6ff3a13): a value that is
    neither int nor string is written as the key its `%v` text is -/
def segDotGo (first : Bool) : El → List Char
  | .int z => bracketed (itoa z).toList
  | .str s => keyDot first s
  | .other r => keyDot first r

/-- one segment of utils.ToDotPath BEFORE 6ff3a13: `default: fmt.Fprintf(&b, "[%v]", v)` -/
def segDotOld (first : Bool) : El → List Char
  | .int z => bracketed (itoa z).toList
  | .str s => keyDot first s
  | .other r => bracketed r.toList

def dotRestWith (seg : Bool → El → List Char) : List El → List Char
  | [] => []
  | s :: r => seg false s ++ dotRestWith seg r

def dotCharsWith (seg : Bool → El → List Char) : List El → List Char
  | [] => []
  | s :: r => seg true s ++ dotRestWith seg r

def dotCharsGo : List El → List Char := dotCharsWith segDotGo
def dotPathGo (p : List El) : String := String.ofList (dotCharsGo p)
def dotPathOld (p : List El) : String := String.ofList (dotCharsWith segDotOld p)

/-- what the pretty report can tell apart: an element of another type IS the key of its text -/
def El.dnorm : El → El
  | .other r => .str r
  | e => e

def prettySegWith (dot : List El → String) (i : IssueGo) : String :=
  match i.path with
  | [] => i.msg
  | p => dot p ++ ": " ++ i.msg

def prettifyWith (dot : List El → String) (is : List IssueGo) : String :=
  "; ".intercalate (match is with | [] => ["Validation failed"] | is => is.map (prettySegWith dot))

def prettifyGo : List IssueGo → String := prettifyWith dotPathGo
def prettifyOld : List IssueGo → String := prettifyWith dotPathOld

/-! ## the four reports of an error, per state of the code -/

/-- the state of the three repaired places (named in every op line; `true` = as it stands since
    c65f4c0 / 6ff3a13 / e8b2b50, which is what the harness names: `cfg=1111`) -/
structure Cfg where
  treeNeg : Bool     -- processIssueInTree: negative int filed as a property (false: panics)
  treeOther : Bool   -- processIssueInTree: `default` arm files the element as a property (false: ignored)
  dotOther : Bool    -- ToDotPath: other types written as keys (false: `[%v]`)
  nilSafe : Bool     -- the four entry points accept a nil *ZodError (false: nil dereference)
  deriving Repr, DecidableEq

def Cfg.fixed : Cfg := ⟨true, true, true, true⟩
def Cfg.head : Cfg := ⟨false, false, false, false⟩

/-- drop the elements the HEAD type switch ignores -/
def dropOther : List El → List El
  | [] => []
  | .other _ :: r => dropOther r
  | e :: r => e :: dropOther r

/-- negative ints made keys (what the fixed `case int` does), for the mixed states of `Cfg` -/
def negAsKey : List El → List El
  | [] => []
  | .int (.negSucc n) :: r => .str (itoa (.negSucc n)) :: negAsKey r
  | e :: r => e :: negAsKey r

/-- the path processIssueInTree effectively walks in state `c`, fed to the HEAD transcription -/
def treePathFor (c : Cfg) (p : List El) : List El :=
  let p := if c.treeOther then p.map El.dnorm else p
  if c.treeNeg then negAsKey p else p

def treeifyCfgFrom (c : Cfg) : List IssueGo → Tree → Option Tree
  | [], t => some t
  | i :: r, t => (treeInsertOld (treePathFor c i.path) i.msg t).bind (treeifyCfgFrom c r)

/-- TreeifyError in state `c` (`none` = panic).  `Cfg.fixed` gives `treeifyGo`, `Cfg.head` gives
    `treeifyOld` (Proofs/C19Go.lean: `treeifyCfg_fixed`, `treeifyCfg_head`). -/
def treeifyCfg (c : Cfg) (is : List IssueGo) : Option Tree := treeifyCfgFrom c is Tree.empty

def prettifyCfg (c : Cfg) : List IssueGo → String := if c.dotOther then prettifyGo else prettifyOld

structure Reports where
  flat : Option Flat
  tree : Option Tree
  fmt : Option Fmt
  pretty : Option String

/-- the four reports of gozod.FlattenError / TreeifyError / FormatError / PrettifyError (`none` = panic) -/
def reportsCfg (c : Cfg) : Err → Reports
  | none =>
    if c.nilSafe then ⟨some (flattenGo []), some (treeifyGo []), some (formatGo []), some (prettifyGo [])⟩
    else ⟨none, none, none, none⟩
  | some is => ⟨some (flattenGo is), treeifyCfg c is, some (formatGo is), some (prettifyCfg c is)⟩

end Gozod.Issues
