/-
  C19 — the dot notation as a GRAMMAR: a parser for what utils.ToDotPath writes, with the round trip

      parseDotGo  (dotPathGo p)  = some (p.map El.dnorm)     every Go path (any element types)
      parseDotPath (dotPathEsc p) = some p                    every position path (Proofs/C19Dot.lean's domain)

  so the notation determines the path: injectivity (`c19_dotpath_go_injective`, and again
  `c19_dotpath_esc_injective'`) is a corollary, for paths with negative ints too (`[-1]`), and with
  ToDotPath as it stands (6ff3a13) for elements of every other type (read as the key their text is).

      path    := ε | first rest*
      first   := ident | bracket
      rest    := '.' ident | bracket
      bracket := '[' digits ']' | '[' '-' digits ']' | '[' '"' (plain | '\' any)* '"' ']'
      ident   := a non-empty run of [A-Za-z0-9_] that does not start with a digit
  A quoted key must need its quotes (be empty, start with a digit, or hold a non-identifier character).
-/
import Gozod.Proofs.C19Go
namespace Gozod.C19
open Gozod.Issues

/-! ## the parser -/

/-- read an escaped key up to its closing quote: (key, what follows the quote);
    the flag says that the previous character was the escaping backslash -/
def unescAux : Bool → List Char → Option (List Char × List Char)
  | _, [] => none
  | true, c :: r => (unescAux false r).map (fun x => (c :: x.1, x.2))
  | false, c :: r =>
    if c = '"' then some ([], r)
    else if c = '\\' then unescAux true r
    else (unescAux false r).map (fun x => (c :: x.1, x.2))

def unesc : List Char → Option (List Char × List Char) := unescAux false

def takeIdent : List Char → List Char × List Char
  | [] => ([], [])
  | c :: r => if isIdentChar c then ((c :: (takeIdent r).1), (takeIdent r).2) else ([], c :: r)

def takeDigits : List Char → List Char × List Char
  | [] => ([], [])
  | c :: r => if c.isDigit then ((c :: (takeDigits r).1), (takeDigits r).2) else ([], c :: r)

/-- digits then `]` -/
def parseNum (cs : List Char) : Option (Nat × List Char) :=
  match (takeDigits cs).1, (takeDigits cs).2 with
  | [], _ => none
  | d :: ds, ']' :: u => some (Nat.ofDigitChars 10 (d :: ds) 0, u)
  | _, _ => none

/-- what follows a `[` -/
def parseBracket : List Char → Option (El × List Char)
  | [] => none
  | c :: cs =>
    if c = '"' then
      match unesc cs with
      | some (k, ']' :: u) => if quotedKey (String.ofList k) then some (.str (String.ofList k), u) else none
      | _ => none
    else if c = '-' then
      match parseNum cs with
      | some (n + 1, u) => some (.int (.negSucc n), u)
      | _ => none
    else (parseNum (c :: cs)).map (fun x => (.int (.ofNat x.1), x.2))

/-- a bare key -/
def parseIdent (cs : List Char) : Option (El × List Char) :=
  if quotedKey (String.ofList (takeIdent cs).1) then none
  else some (.str (String.ofList (takeIdent cs).1), (takeIdent cs).2)

def parseSegs : Nat → Bool → List Char → Option (List El)
  | _, _, [] => some []
  | 0, _, _ :: _ => none
  | f + 1, first, c :: cs =>
    if c = '[' then (parseBracket cs).bind (fun x => (parseSegs f false x.2).map (x.1 :: ·))
    else if first then (parseIdent (c :: cs)).bind (fun x => (parseSegs f false x.2).map (x.1 :: ·))
    else if c = '.' then (parseIdent cs).bind (fun x => (parseSegs f false x.2).map (x.1 :: ·))
    else none

/-- the parser of the dot notation: Go paths (strings and ints) -/
def parseDotGo (s : String) : Option (List El) := parseSegs s.toList.length true s.toList

def toSeg? : El → Option Seg
  | .str s => some (.key s)
  | .int (.ofNat n) => some (.idx n)
  | _ => none

def toSegs : List El → Option (List Seg)
  | [] => some []
  | e :: r => (toSeg? e).bind (fun s => (toSegs r).map (s :: ·))

/-- the parser of the dot notation: position paths (keys and indices) -/
def parseDotPath (s : String) : Option (List Seg) := (parseDotGo s).bind toSegs

-- (tests of the parser on literals: `#eval` in notes/C19.md; `decide` does not evaluate String.toList cheaply)

/-! ## reading back one token -/

theorem unescAux_esc : ∀ (k u : List Char), unescAux false (escChars k ++ '"' :: u) = some (k, u)
  | [], u => by simp [escChars, unescAux]
  | c :: r, u => by
    rcases escChar_cases c with ⟨h1, h2, he⟩ | ⟨h, he⟩
    · simp [escChars, he, unescAux, h1, h2, unescAux_esc r u]
    · have hq : ('\\' : Char) ≠ '"' := by decide
      simp [escChars, he, unescAux, hq, unescAux_esc r u]

theorem unesc_esc (k u : List Char) : unesc (escChars k ++ '"' :: u) = some (k, u) := unescAux_esc k u

theorem takeIdent_append : ∀ (a u : List Char), (∀ c ∈ a, isIdentChar c = true) → delimited u →
    takeIdent (a ++ u) = (a, u)
  | [], [], _, _ => rfl
  | [], d :: u, _, hu => by
    have : isIdentChar d = false := by
      cases hd : isIdentChar d
      · rfl
      · have := ident_ne_delim hd
        cases hu with
        | inl x => exact absurd x this.1
        | inr x => exact absurd x this.2
    simp [takeIdent, this]
  | c :: a, u, ha, hu => by
    have ih := takeIdent_append a u (fun x hx => ha x (by simp [hx])) hu
    simp [takeIdent, ha c (by simp), ih]

theorem takeDigits_append : ∀ (d u : List Char), (∀ c ∈ d, c.isDigit = true) →
    takeDigits (d ++ ']' :: u) = (d, ']' :: u)
  | [], u, _ => by
    have : (']' : Char).isDigit = false := by decide
    simp [takeDigits, this]
  | c :: d, u, hd => by
    have ih := takeDigits_append d u (fun x hx => hd x (by simp [hx]))
    simp [takeDigits, hd c (by simp), ih]

theorem ofDigitChars_repr (n : Nat) : Nat.ofDigitChars 10 (toString n).toList 0 = n := by
  rw [Nat.toString_eq_repr, Nat.toList_repr]
  exact Nat.ofDigitChars_ten_toDigits

theorem repr_ne_nil (n : Nat) : (toString n).toList ≠ [] := by
  intro h
  have := ofDigitChars_repr n
  rw [h] at this
  have hn : n = 0 := by simpa [Nat.ofDigitChars_nil] using this.symm
  subst hn
  revert h; decide

/-- a non-empty run of digits followed by `]` is read as its value -/
theorem parseNum_digits (ds : List Char) (hne : ds ≠ []) (hd : ∀ c ∈ ds, c.isDigit = true) (u : List Char) :
    parseNum (ds ++ ']' :: u) = some (Nat.ofDigitChars 10 ds 0, u) := by
  unfold parseNum
  rw [takeDigits_append ds u hd]
  cases ds with
  | nil => exact absurd rfl hne
  | cons d r => rfl

/-! ## reading back one segment -/

theorem parseBracket_digits (ds : List Char) (hne : ds ≠ []) (hd : ∀ c ∈ ds, c.isDigit = true) (u : List Char) :
    parseBracket (ds ++ ']' :: u) = some (.int (.ofNat (Nat.ofDigitChars 10 ds 0)), u) := by
  have hp := parseNum_digits ds hne hd u
  cases ds with
  | nil => exact absurd rfl hne
  | cons d r =>
    have hdd : d.isDigit = true := hd d (by simp)
    have h1 : d ≠ '"' := digit_ne_quote hdd
    have h2 : d ≠ '-' := by intro e; subst e; revert hdd; decide
    simp only [List.cons_append] at hp ⊢
    simp only [parseBracket, h1, h2, if_false, hp, Option.map]

theorem parseBracket_neg (ds : List Char) (hne : ds ≠ []) (hd : ∀ c ∈ ds, c.isDigit = true) (u : List Char)
    (n : Nat) (hn : Nat.ofDigitChars 10 ds 0 = n + 1) :
    parseBracket ('-' :: (ds ++ ']' :: u)) = some (.int (.negSucc n), u) := by
  have hq : ('-' : Char) ≠ '"' := by decide
  have hp := parseNum_digits ds hne hd u
  rw [hn] at hp
  simp only [parseBracket, hq, if_false, if_true, hp]

theorem parseBracket_int (z : Int) (u : List Char) :
    parseBracket ((itoa z).toList ++ ']' :: u) = some (.int z, u) := by
  cases z with
  | ofNat n =>
    have := parseBracket_digits (toString n).toList (repr_ne_nil n) (repr_digits n) u
    rw [ofDigitChars_repr] at this
    exact this
  | negSucc n =>
    have ht : (itoa (Int.negSucc n)).toList = '-' :: (toString (n + 1)).toList := by
      simp only [itoa, String.toList_append]; rfl
    rw [ht]
    exact parseBracket_neg (toString (n + 1)).toList (repr_ne_nil _) (repr_digits _) u n (ofDigitChars_repr _)

theorem parseBracket_key (k : String) (hq : quotedKey k = true) (u : List Char) :
    parseBracket ('"' :: escChars k.toList ++ '"' :: ']' :: u) = some (.str k, u) := by
  simp [parseBracket, unesc_esc, String.ofList_toList, hq]

theorem parseIdent_key (k : String) (hq : quotedKey k = false) (u : List Char) (hu : delimited u) :
    parseIdent (k.toList ++ u) = some (.str k, u) := by
  obtain ⟨_, hid, _⟩ := plainKey_chars (plain_of_not_quoted hq)
  simp [parseIdent, takeIdent_append k.toList u hid hu, String.ofList_toList, hq]

/-- **one segment is read back**: the parser, one fuel unit richer, consumes exactly the segment -/
theorem parseSegs_seg (f : Nat) (first : Bool) (e : El) (he : e.typed = true) (u : List Char) (hu : delimited u) :
    parseSegs (f + 1) first (segDotGo first e ++ u) = (parseSegs f false u).map (e :: ·) := by
  cases e with
  | other r => simp [El.typed] at he
  | int z =>
    have := parseBracket_int z u
    simp [segDotGo, bracketed, parseSegs, this]
  | str k =>
    cases hq : quotedKey k
    · obtain ⟨hne, hid, _⟩ := plainKey_chars (plain_of_not_quoted hq)
      cases first
      · have hd : ('.' : Char) ≠ '[' := by decide
        simp [segDotGo, keyDot, segDotEsc, hq, parseSegs, hd, parseIdent_key k hq u hu]
      · cases hk : k.toList with
        | nil => exact absurd hk hne
        | cons c cs =>
          have hc : c ≠ '[' := (ident_ne_delim (hid c (by simp [hk]))).2
          have := parseIdent_key k hq u hu
          rw [hk] at this
          simp only [List.cons_append] at this
          simp [segDotGo, keyDot, segDotEsc, hq, hk, parseSegs, hc, this]
    · have := parseBracket_key k hq u
      simp only [List.cons_append] at this
      simp [segDotGo, keyDot, segDotEsc, hq, parseSegs, this]

/-! ## whole paths -/

theorem segDotGo_delimited (e : El) (u : List Char) : delimited (segDotGo false e ++ u) := by
  cases e with
  | int z => simp [segDotGo, bracketed, delimited]
  | str k => exact segDotEsc_delimited (.key k) u
  | other r => exact segDotEsc_delimited (.key r) u

theorem dotRestGo_delimited (p : List El) : delimited (dotRestWith segDotGo p) := by
  cases p with
  | nil => simp [dotRestWith, delimited]
  | cons e r => exact segDotGo_delimited e _

theorem segDotGo_dnorm (first : Bool) (e : El) : segDotGo first e.dnorm = segDotGo first e := by
  cases e <;> rfl

theorem dnorm_typed (e : El) : e.dnorm.typed = true := by cases e <;> rfl

theorem parseSegs_rest : ∀ (p : List El) (f : Nat), p.length ≤ f →
    parseSegs f false (dotRestWith segDotGo p) = some (p.map El.dnorm)
  | [], f, _ => by cases f <;> simp [dotRestWith, parseSegs]
  | e :: r, 0, h => by simp at h
  | e :: r, f + 1, h => by
    have ih := parseSegs_rest r f (by simpa using h)
    simp only [dotRestWith]
    rw [← segDotGo_dnorm, parseSegs_seg f false e.dnorm (dnorm_typed e) _ (dotRestGo_delimited r), ih]
    simp

theorem parseSegs_path (p : List El) (f : Nat) (h : p.length ≤ f) :
    parseSegs f true (dotCharsGo p) = some (p.map El.dnorm) := by
  cases p with
  | nil => cases f <;> simp [dotCharsGo, dotCharsWith, parseSegs]
  | cons e r =>
    cases f with
    | zero => simp at h
    | succ f =>
      simp only [dotCharsGo, dotCharsWith]
      rw [← segDotGo_dnorm, parseSegs_seg f true e.dnorm (dnorm_typed e) _ (dotRestGo_delimited r),
        parseSegs_rest r f (by simpa using h)]
      simp

theorem segDotGo_ne_nil (first : Bool) (e : El) : segDotGo first e ≠ [] := by
  cases e with
  | int z => simp [segDotGo, bracketed]
  | str k => have := segDotEsc_ne_nil first (.key k) []; simpa [segDotGo, keyDot] using this
  | other r => have := segDotEsc_ne_nil first (.key r) []; simpa [segDotGo, keyDot] using this

theorem length_le_dotRest : ∀ (p : List El), p.length ≤ (dotRestWith segDotGo p).length
  | [] => by simp
  | e :: r => by
    have := length_le_dotRest r
    have h1 : 0 < (segDotGo false e).length := List.length_pos_iff.mpr (segDotGo_ne_nil false e)
    simp only [dotRestWith, List.length_cons, List.length_append]
    omega

theorem length_le_dotChars (p : List El) : p.length ≤ (dotCharsGo p).length := by
  cases p with
  | nil => simp
  | cons e r =>
    have := length_le_dotRest r
    have h1 : 0 < (segDotGo true e).length := List.length_pos_iff.mpr (segDotGo_ne_nil true e)
    simp only [dotCharsGo, dotCharsWith, List.length_cons, List.length_append]
    omega

/-- **round trip, Go paths**: what ToDotPath (since 6ff3a13, for other element types too) writes
    for ANY path parses back to the path — elements of other types as the keys their text is -/
theorem c19_parse_dotpath_go (p : List El) : parseDotGo (dotPathGo p) = some (p.map El.dnorm) := by
  unfold parseDotGo dotPathGo
  rw [String.toList_ofList]
  exact parseSegs_path p _ (length_le_dotChars p)

/-- **ToDotPath identifies the path — every element type**: two Go paths that render alike differ
    at most in elements of other types that have the text of a string key at the same place -/
theorem c19_dotpath_go_injective (p q : List El) (h : dotPathGo p = dotPathGo q) :
    p.map El.dnorm = q.map El.dnorm := by
  have hp := c19_parse_dotpath_go p
  rw [h, c19_parse_dotpath_go q] at hp
  exact (Option.some.inj hp).symm

/-- on strings and ints (any sign) it is plain injectivity -/
theorem c19_dotpath_typed_injective (p q : List El) (hp : p.all El.typed = true) (hq : q.all El.typed = true)
    (h : dotPathGo p = dotPathGo q) : p = q := by
  have hn : ∀ r : List El, r.all El.typed = true → r.map El.dnorm = r := by
    intro r hr
    induction r with
    | nil => rfl
    | cons e r ih =>
      simp only [List.all_cons, Bool.and_eq_true] at hr
      cases e with
      | other s => simp [El.typed] at hr
      | str k => simp [El.dnorm, ih hr.2]
      | int z => simp [El.dnorm, ih hr.2]
  have := c19_dotpath_go_injective p q h
  rwa [hn p hp, hn q hq] at this

example : dotPathGo [.int (-1), .str "-1", .other "1.5", .int 0, .other "0"] = "[-1][\"-1\"][\"1.5\"][0][\"0\"]" := by decide

/-! ## position paths (keys and indices): the statement of Proofs/C19Dot.lean, by parsing -/

def ofSeg : Seg → El
  | .key s => .str s
  | .idx n => .int (.ofNat n)

theorem segDotGo_ofSeg (first : Bool) (s : Seg) : segDotGo first (ofSeg s) = segDotEsc first s := by
  cases s with
  | key k => rfl
  | idx n => simp [ofSeg, segDotGo, bracketed, itoa, segDotEsc]

theorem dotRestGo_ofSeg (p : List Seg) : dotRestWith segDotGo (p.map ofSeg) = dotRestEsc p := by
  induction p with
  | nil => rfl
  | cons s r ih => simp [dotRestWith, dotRestEsc, segDotGo_ofSeg, ih]

theorem dotPathGo_ofSeg (p : List Seg) : dotPathGo (p.map ofSeg) = dotPathEsc p := by
  cases p with
  | nil => rfl
  | cons s r => simp [dotPathGo, dotCharsGo, dotCharsWith, dotPathEsc, dotCharsEsc, segDotGo_ofSeg, dotRestGo_ofSeg]

theorem toSegs_ofSeg (p : List Seg) : toSegs ((p.map ofSeg).map El.dnorm) = some p := by
  induction p with
  | nil => rfl
  | cons s r ih =>
    cases s with
    | key k => simp only [List.map_cons, ofSeg, El.dnorm, toSegs, toSeg?, Option.bind, ih, Option.map]
    | idx n => simp only [List.map_cons, ofSeg, El.dnorm, toSegs, toSeg?, Option.bind, ih, Option.map]

/-- **round trip, position paths**: `parseDotPath (dotPathEsc p) = some p` for every path -/
theorem c19_parse_dotpath (p : List Seg) : parseDotPath (dotPathEsc p) = some p := by
  unfold parseDotPath
  rw [← dotPathGo_ofSeg, c19_parse_dotpath_go]
  simpa using toSegs_ofSeg p

/-- injectivity of the rendering, as a corollary of the round trip -/
theorem c19_dotpath_esc_injective' (p q : List Seg) (h : dotPathEsc p = dotPathEsc q) : p = q := by
  have hp := c19_parse_dotpath p
  rw [h, c19_parse_dotpath q] at hp
  exact (Option.some.inj hp).symm

/-! ## the code before 6ff3a13: other element types were written `[%v]` raw -/

/-- witness: `int64(0)` (a map key) prints like the index 0, yet TreeifyError/FormatError file them apart;
    a value whose text is `"a.b"` prints like the key a.b -/
theorem old_dotpath_other_conflates :
    dotPathOld [.other "0"] = dotPathOld [.int 0] ∧ dotPathOld [.other "\"a.b\""] = dotPathOld [.str "a.b"] := by
  decide

/-- … and on typed paths (strings, ints) the old code IS the current code, so the round trip
    and injectivity held of it there (PARTIAL statement for the code before 6ff3a13) -/
theorem dotPathOld_typed (p : List El) (hp : p.all El.typed = true) : dotPathOld p = dotPathGo p := by
  have hs : ∀ first (e : El), e.typed = true → segDotOld first e = segDotGo first e := by
    intro first e he
    cases e with
    | other s => simp [El.typed] at he
    | str k => rfl
    | int z => rfl
  have hr : ∀ r : List El, r.all El.typed = true → dotRestWith segDotOld r = dotRestWith segDotGo r := by
    intro r hr
    induction r with
    | nil => rfl
    | cons e r ih =>
      simp only [List.all_cons, Bool.and_eq_true] at hr
      simp [dotRestWith, hs false e hr.1, ih hr.2]
  cases p with
  | nil => rfl
  | cons e r =>
    simp only [List.all_cons, Bool.and_eq_true] at hp
    simp [dotPathOld, dotPathGo, dotCharsGo, dotCharsWith, hs true e hp.1, hr r hp.2]

theorem c19_old_dotpath_partial (p q : List El) (hp : p.all El.typed = true) (hq : q.all El.typed = true)
    (h : dotPathOld p = dotPathOld q) : p = q := by
  rw [dotPathOld_typed p hp, dotPathOld_typed q hq] at h
  exact c19_dotpath_typed_injective p q hp hq h

def c19_old_dotpath_full : Prop := ∀ p q : List El, dotPathOld p = dotPathOld q → p.map El.dnorm = q.map El.dnorm

theorem c19_old_dotpath_full_false : ¬ c19_old_dotpath_full := by
  intro h
  have := h [.other "0"] [.int 0] old_dotpath_other_conflates.1
  revert this; decide

end Gozod.C19
