/-
  Gozod.Model.ChecksC — `validatePointer`'s extra pass as container schemas reach it (C10, round 4).

  `ZodSlice/ZodObject/ZodStruct/ZodMap/ZodArray/ZodSet/ZodTuple.extract…PtrForEngine` turn a plain value
  into a pointer to it (`if s, ok := value.([]T); ok { return &s, true }`), so `parseComplexValue` hands
  EVERY input of these schemas to `validatePointer` (internal/engine/parser.go:949). With an overwrite
  in the check list, `validatePointerWithOverwrite` first runs all checks with the POINTER as payload:

    * an overwrite wrapper converts the pointer, applies the user function and stores a plain value:
      from then on the payload is a value and every later check behaves as usual;
    * until then ("raw" payload), the built-in length checks and the `Check(fn)` wrappers find neither a
      measurable value nor a value of the schema's type in the payload and return without an issue and
      without calling anything (`vac p`); typed `Refine` wrappers convert the pointer and do run;
      when-guards are user functions and do run;
    * up to /repo 49e6e91 (`legacyRunChecksC`): if this pass ended without an issue its value was
      returned and the regular pass was skipped, so a vacuous check attached before the first overwrite
      was never evaluated: `Slice[int](Int()).Max(0).Overwrite(id).Parse([]int{7})` succeeded;
    * since 49e6e91 (`runChecksC`): the regular pass runs first and decides; the pass over the pointer
      runs only after it accepted and only supplies the result value (callbacks are called again).
-/
import Gozod.Model.Checks
namespace Gozod

section
variable {P O T V : Type}

/-- The extra pass on a container: `raw` = the payload is still the pointer (no overwrite has run). -/
def firstPassC (env : Env P O T V) (vac : P → Bool) :
    Nat → List (Check P O) → V → Bool → List Nat → List (Ev V) → Run V
  | _, [], val, _, iss, log => ⟨val, iss, log⟩
  | i, .overwrite o :: cs, val, _, iss, log =>
      firstPassC env vac (i + 1) cs (env.apply o val) false iss (log ++ [.over i val])
  | i, .pred p abort none :: cs, val, raw, iss, log =>
      if raw && vac p then firstPassC env vac (i + 1) cs val raw iss log
      else if env.holds p val then firstPassC env vac (i + 1) cs val raw iss (log ++ [.check i val])
      else if abort then ⟨val, iss ++ [i], log ++ [.check i val]⟩
      else firstPassC env vac (i + 1) cs val raw (iss ++ [i]) (log ++ [.check i val])
  | i, .pred p abort (some w) :: cs, val, raw, iss, log =>
      if iss ≠ [] then firstPassC env vac (i + 1) cs val raw iss log
      else if env.holds w val = false then firstPassC env vac (i + 1) cs val raw iss (log ++ [.when i val])
      else if raw && vac p then firstPassC env vac (i + 1) cs val raw iss (log ++ [.when i val])
      else if env.holds p val then firstPassC env vac (i + 1) cs val raw iss (log ++ [.when i val, .check i val])
      else if abort then ⟨val, iss ++ [i], log ++ [.when i val, .check i val]⟩
      else firstPassC env vac (i + 1) cs val raw (iss ++ [i]) (log ++ [.when i val, .check i val])

/-- Up to /repo 49e6e91: the extra pass ran first and was taken when it had no issue. -/
def legacyRunChecksC (env : Env P O T V) (vac : P → Bool) (cs : List (Check P O)) (v : V) : Run V :=
  if hasOverwrite cs then
    let fp := firstPassC env vac 0 cs v true [] []
    if fp.issues = [] then ⟨fp.val, [], fp.log⟩                    -- first pass accepted: regular pass skipped
    else
      let r := runChecks env cs v
      ⟨r.val, r.issues, fp.log ++ r.log⟩
  else runChecks env cs v

/-- The checks of a container schema applied to an input (value or pointer alike), since /repo 49e6e91:
    the regular pass decides; when it accepts and an overwrite is attached the pass over the pointer
    runs afterwards and supplies the result when it has no issue. -/
def runChecksC (env : Env P O T V) (vac : P → Bool) (cs : List (Check P O)) (v : V) : Run V :=
  let r := runChecks env cs v
  if hasOverwrite cs then
    if r.issues ≠ [] then r
    else
      let fp := firstPassC env vac 0 cs v true [] []
      if fp.issues = [] then ⟨fp.val, [], r.log ++ fp.log⟩ else ⟨r.val, [], r.log ++ fp.log⟩
  else r

/-- No vacuous check is attached before the first overwrite. -/
def vacFree (vac : P → Bool) : List (Check P O) → Bool
  | [] => true
  | .overwrite _ :: _ => true
  | .pred p _ _ :: cs => !vac p && vacFree vac cs

/-- Pipelines whose base schemas say whether they are containers. -/
inductive PipelineK (P O T : Type) where
  | base (tag : Nat) (ptrSchema container : Bool) (cs : List (Check P O))
  | transform (src : PipelineK P O T) (id : Nat) (t : T)
  | pipe (src dst : PipelineK P O T)

def PipelineK.erase : PipelineK P O T → Pipeline P O T
  | .base tag ps _ cs => .base tag ps cs
  | .transform s i t => .transform s.erase i t
  | .pipe a b => .pipe a.erase b.erase

def PipelineK.noContainer : PipelineK P O T → Bool
  | .base _ _ c _ => !c
  | .transform s _ _ => s.noContainer
  | .pipe a b => a.noContainer && b.noContainer

def parsePipelineK (env : Env P O T V) (vac : P → Bool) : PipelineK P O T → V → Bool → Res V
  | .base tag ptrSchema container cs, v, ptrIn =>
    let r := if container then runChecksC env vac cs v else runChecksOn env ptrSchema ptrIn cs v
    ⟨if r.issues = [] then .ok r.val else .error (tag, r.issues), ptrSchema, r.log.map (.chk tag)⟩
  | .transform src i t, v, ptrIn =>
    let r := parsePipelineK env vac src v ptrIn
    match r.out with
    | .ok x => ⟨.ok (env.trans t x), false, r.log ++ [.tr i x]⟩
    | .error e => ⟨.error e, false, r.log⟩
  | .pipe a b, v, ptrIn =>
    let r := parsePipelineK env vac a v ptrIn
    match r.out with
    | .ok x =>
      let r2 := parsePipelineK env vac b x r.isPtr
      ⟨r2.out, r2.isPtr, r.log ++ r2.log⟩
    | .error e => ⟨.error e, false, r.log⟩

/-- The same with the type dispatch of each base schema made explicit: `ty tag v` says whether the base
    schema number `tag` takes `v` as a value of its own type (`parsePrimitiveValue` / `parseComplexValue`:
    anything else — a nil or a value of another kind handed on by a Transform or a Pipe — is an
    invalid_type error of that schema, reported as `(typeErrTag, [0])`, and none of its checks run). -/
def typeErrTag : Nat := 999999

def parsePipelineT (env : Env P O T V) (vac : P → Bool) (ty : Nat → V → Bool) : PipelineK P O T → V → Bool → Res V
  | .base tag ptrSchema container cs, v, ptrIn =>
    if ty tag v then
      let r := if container then runChecksC env vac cs v else runChecksOn env ptrSchema ptrIn cs v
      ⟨if r.issues = [] then .ok r.val else .error (tag, r.issues), ptrSchema, r.log.map (.chk tag)⟩
    else ⟨.error (typeErrTag, [0]), ptrSchema, []⟩
  | .transform src i t, v, ptrIn =>
    let r := parsePipelineT env vac ty src v ptrIn
    match r.out with
    | .ok x => ⟨.ok (env.trans t x), false, r.log ++ [.tr i x]⟩
    | .error e => ⟨.error e, false, r.log⟩
  | .pipe a b, v, ptrIn =>
    let r := parsePipelineT env vac ty a v ptrIn
    match r.out with
    | .ok x =>
      let r2 := parsePipelineT env vac ty b x r.isPtr
      ⟨r2.out, r2.isPtr, r.log ++ r2.log⟩
    | .error e => ⟨.error e, false, r.log⟩

/-! ### The pass over the pointer, for every schema type (round 4b)

  What a check does with the raw pointer payload depends on the schema type's wrappers, not on the engine:
    * `vac`    it returns without an issue and without calling anything (size checks: their built-in `When`
               `HasSize‖HasLength` is false on a pointer; `Check(fn)` wrappers whose `payload.Value().(R)` fails);
    * `issue`  it reports an issue without calling the user (numeric and string built-ins: `validate.*` reject a
               pointer; `ZodString.Refine` wrappers return false);
    * `run`    it converts the pointer and evaluates as usual (`Refine` wrappers of Int / Slice / Object,
               `RefineAny` callbacks, `Check(fn)` of a pointer-typed schema).
  and an overwrite on a raw payload either returns it unchanged (`skip`: `ZodString[string]`), applies and stores a
  new POINTER (`stay`: `ZodString[*string]`), or applies and stores a plain VALUE (`cook`: Int, Slice, Object, …:
  from then on every check behaves as in the regular pass).
  `firstPassFrom` (strings) and `firstPassC` (containers) are the two instances that existed before
  (`firstPassG_string`, `firstPassG_container`); the theorems of Proofs/C10G.lean hold for EVERY classification,
  so the classification the driver uses matters for the callback log only, never for verdict, issues or value. -/

inductive RawB where
  | vac | issue | run
  deriving Repr, DecidableEq

inductive OwB where
  | skip | stay | cook
  deriving Repr, DecidableEq

def OwB.applies : OwB → Bool
  | .skip => false
  | _ => true

def OwB.staysRaw : OwB → Bool
  | .cook => false
  | _ => true

/-- How the check at hand behaves: by its raw class while the payload is the pointer, as usual afterwards. -/
def effB (rawB : P → RawB) (raw : Bool) (p : P) : RawB := if raw then rawB p else .run

def firstPassG (env : Env P O T V) (rawB : P → RawB) (ow : OwB) :
    Nat → List (Check P O) → V → Bool → List Nat → List (Ev V) → Run V
  | _, [], val, _, iss, log => ⟨val, iss, log⟩
  | i, .overwrite o :: cs, val, raw, iss, log =>
      if raw && !ow.applies then firstPassG env rawB ow (i + 1) cs val raw iss log
      else firstPassG env rawB ow (i + 1) cs (env.apply o val) (raw && ow.staysRaw) iss (log ++ [.over i val])
  | i, .pred p abort none :: cs, val, raw, iss, log =>
      match effB rawB raw p with
      | .vac => firstPassG env rawB ow (i + 1) cs val raw iss log
      | .issue =>
        if abort then ⟨val, iss ++ [i], log⟩ else firstPassG env rawB ow (i + 1) cs val raw (iss ++ [i]) log
      | .run =>
        if env.holds p val then firstPassG env rawB ow (i + 1) cs val raw iss (log ++ [.check i val])
        else if abort then ⟨val, iss ++ [i], log ++ [.check i val]⟩
        else firstPassG env rawB ow (i + 1) cs val raw (iss ++ [i]) (log ++ [.check i val])
  | i, .pred p abort (some w) :: cs, val, raw, iss, log =>
      if iss ≠ [] then firstPassG env rawB ow (i + 1) cs val raw iss log
      else if env.holds w val = false then firstPassG env rawB ow (i + 1) cs val raw iss (log ++ [.when i val])
      else
        match effB rawB raw p with
        | .vac => firstPassG env rawB ow (i + 1) cs val raw iss (log ++ [.when i val])
        | .issue =>
          if abort then ⟨val, iss ++ [i], log ++ [.when i val]⟩
          else firstPassG env rawB ow (i + 1) cs val raw (iss ++ [i]) (log ++ [.when i val])
        | .run =>
          if env.holds p val then firstPassG env rawB ow (i + 1) cs val raw iss (log ++ [.when i val, .check i val])
          else if abort then ⟨val, iss ++ [i], log ++ [.when i val, .check i val]⟩
          else firstPassG env rawB ow (i + 1) cs val raw (iss ++ [i]) (log ++ [.when i val, .check i val])

/-- `validatePointer` (parser.go:951) for any schema type: the validator (regular pass) decides; when it accepts, the
    input went through a pointer (`viaPtr`: a pointer input, or any input of a container schema, whose
    `extract…PtrForEngine` wraps values) and an overwrite is attached, `validatePointerWithOverwrite` runs the
    checks over the pointer; its value is the result when it ends without an issue and produced another pointer. -/
def runChecksG (env : Env P O T V) (rawB : P → RawB) (ow : OwB) (viaPtr : Bool) (cs : List (Check P O)) (v : V) : Run V :=
  let r := runChecks env cs v
  if viaPtr && hasOverwrite cs then
    if r.issues ≠ [] then r
    else
      let fp := firstPassG env rawB ow 0 cs v true [] []
      if ow.applies && fp.issues.isEmpty then ⟨fp.val, [], r.log ++ fp.log⟩ else ⟨r.val, [], r.log ++ fp.log⟩
  else r

/-- What the pipeline needs to know about a base schema's type. -/
structure BaseClass (P : Type) where
  rawB : P → RawB
  ow : OwB
  wraps : Bool            -- container schemas hand EVERY input to `validatePointer`

/-- The position reported for an invalid_type issue of a stage (no check of the stage has that position). -/
def typeErrPos : Nat := 999999

/-- Pipelines with the type dispatch and the pointer pass of every base schema: `cls tag` classifies base schema
    `tag`; a stage that receives a value it does not take as its own type fails with `(tag, [typeErrPos])` — the
    error names the stage. -/
def parsePipelineG (env : Env P O T V) (cls : Nat → BaseClass P) (ty : Nat → V → Bool) : PipelineK P O T → V → Bool → Res V
  | .base tag ptrSchema _ cs, v, ptrIn =>
    if ty tag v then
      let c := cls tag
      let r := runChecksG env c.rawB c.ow (ptrIn || c.wraps) cs v
      ⟨if r.issues = [] then .ok r.val else .error (tag, r.issues), ptrSchema, r.log.map (.chk tag)⟩
    else ⟨.error (tag, [typeErrPos]), ptrSchema, []⟩
  | .transform src i t, v, ptrIn =>
    let r := parsePipelineG env cls ty src v ptrIn
    match r.out with
    | .ok x => ⟨.ok (env.trans t x), false, r.log ++ [.tr i x]⟩
    | .error e => ⟨.error e, false, r.log⟩
  | .pipe a b, v, ptrIn =>
    let r := parsePipelineG env cls ty a v ptrIn
    match r.out with
    | .ok x =>
      let r2 := parsePipelineG env cls ty b x r.isPtr
      ⟨r2.out, r2.isPtr, r.log ++ r2.log⟩
    | .error e => ⟨.error e, false, r.log⟩

end
end Gozod
