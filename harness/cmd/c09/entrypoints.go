// Translator for C09 (round 4): go/ast over types/*.go of the library source tree.
//
// For every schema type (a struct type of package types that has, or inherits through an embedded
// schema, a Parse method) and every entry point (Parse, StrictParse, ParseAny, MustParse,
// MustStrictParse, MustParseAny) it extracts HOW the entry point is implemented:
//
//	engine F        the result comes from a call of engine.F (ParsePrimitive, ParsePrimitiveStrict,
//	                ParseComplex, ParseComplexStrict); `pre` = number of statements in front of the
//	                call that are not the `typ := …; if typ == "" {…}` prelude, `post` = number of
//	                statements behind it (result conversion), `arg` = the expression handed over as
//	                the input, `code` = the type-code argument, `validator` = the validator argument
//	fwd X           `return z.X(input, ctx...)` (also through an embedded schema: `z.ZodString.X`)
//	must X          `r, err := z.X(input, ctx...); if err != nil { panic(err) }; return r`
//	inherit E       the method is promoted from the embedded schema type E
//	own             anything else (the calls it makes are listed)
//	absent          the type has no such method
//
// The table is written to lean/Gozod/Gen/EntryPoints.lean; Gozod.Proofs.C09Table proves over the
// whole regenerated table that every entry point of every type is routed to the engine function the
// agreement theorems are about, or is one of the listed type-local implementations.
package main

import (
	"bytes"
	"fmt"
	"go/ast"
	"go/parser"
	"go/printer"
	"go/token"
	"os"
	"path/filepath"
	"sort"
	"strings"
)

var epOrder = []string{"Parse", "StrictParse", "ParseAny", "MustParse", "MustStrictParse", "MustParseAny"}

type epRow struct {
	ty, file, ep         string
	shape, target        string
	arg, code, validator string
	pre, post            int
	calls                []string
	callS                string   // engine rows: the engine call expression
	preS, postS          []string // engine rows: the source text of every statement in front of / behind the engine statement
}

func exprStr(fset *token.FileSet, e ast.Expr) string {
	var b bytes.Buffer
	_ = printer.Fprint(&b, fset, e)
	return strings.Join(strings.Fields(b.String()), " ")
}

// stmtStr: the statement's source text, comments dropped, white space normalised.
func stmtStr(fset *token.FileSet, s ast.Stmt) string {
	var b bytes.Buffer
	_ = printer.Fprint(&b, fset, s)
	return strings.Join(strings.Fields(b.String()), " ")
}

// recvType returns the receiver's type name ("ZodString") for a method declaration.
func recvType(fd *ast.FuncDecl) string {
	if fd.Recv == nil || len(fd.Recv.List) != 1 {
		return ""
	}
	t := fd.Recv.List[0].Type
	if s, ok := t.(*ast.StarExpr); ok {
		t = s.X
	}
	switch x := t.(type) {
	case *ast.Ident:
		return x.Name
	case *ast.IndexExpr:
		if id, ok := x.X.(*ast.Ident); ok {
			return id.Name
		}
	case *ast.IndexListExpr:
		if id, ok := x.X.(*ast.Ident); ok {
			return id.Name
		}
	}
	return ""
}

func recvName(fd *ast.FuncDecl) string {
	if fd.Recv == nil || len(fd.Recv.List) != 1 || len(fd.Recv.List[0].Names) != 1 {
		return ""
	}
	return fd.Recv.List[0].Names[0].Name
}

// stripIndex removes explicit type arguments: engine.ParseComplex[[]any] -> engine.ParseComplex.
func stripIndex(e ast.Expr) ast.Expr {
	switch x := e.(type) {
	case *ast.IndexExpr:
		return x.X
	case *ast.IndexListExpr:
		return x.X
	}
	return e
}

// calleeName renders the callee of a call without type arguments ("engine.ParseComplex", "z.Parse",
// "z.ZodString.StrictParse", "panic", "convertToArrayType").
func calleeName(fset *token.FileSet, c *ast.CallExpr) string {
	return exprStr(fset, stripIndex(c.Fun))
}

func isEngineParse(name string) bool {
	switch name {
	case "engine.ParsePrimitive", "engine.ParsePrimitiveStrict", "engine.ParseComplex", "engine.ParseComplexStrict":
		return true
	}
	return false
}

// selfEP: "z.Parse" -> ("", "Parse"); "z.ZodString.StrictParse" -> ("ZodString", "StrictParse").
func selfEP(recv, name string) (via, ep string, ok bool) {
	parts := strings.Split(name, ".")
	if len(parts) < 2 || parts[0] != recv {
		return "", "", false
	}
	ep = parts[len(parts)-1]
	found := false
	for _, e := range epOrder {
		if e == ep {
			found = true
		}
	}
	if !found {
		return "", "", false
	}
	if len(parts) == 3 {
		via = parts[1]
	} else if len(parts) != 2 {
		return "", "", false
	}
	return via, ep, true
}

// forwardsArgs: the call hands over exactly (input, ctx...).
func forwardsArgs(c *ast.CallExpr) bool {
	if len(c.Args) != 2 || !c.Ellipsis.IsValid() {
		return false
	}
	a, ok1 := c.Args[0].(*ast.Ident)
	b, ok2 := c.Args[1].(*ast.Ident)
	return ok1 && ok2 && a.Name == "input" && b.Name == "ctx"
}

// isTypPrelude: `typ := z.internals.Type` or `if typ == "" { typ = … }`.
func isTypPrelude(fset *token.FileSet, s ast.Stmt) bool {
	switch x := s.(type) {
	case *ast.AssignStmt:
		if len(x.Lhs) == 1 && len(x.Rhs) == 1 {
			if id, ok := x.Lhs[0].(*ast.Ident); ok && id.Name == "typ" {
				return exprStr(fset, x.Rhs[0]) == "z.internals.Type"
			}
		}
	case *ast.IfStmt:
		if x.Init == nil && x.Else == nil && exprStr(fset, x.Cond) == `typ == ""` && len(x.Body.List) == 1 {
			if a, ok := x.Body.List[0].(*ast.AssignStmt); ok && len(a.Lhs) == 1 {
				if id, ok := a.Lhs[0].(*ast.Ident); ok && id.Name == "typ" {
					return true
				}
			}
		}
	}
	return false
}

// touchesInputOrReturns: the statement mentions the identifier `input` or contains a return.
func touchesInputOrReturns(s ast.Stmt) bool {
	hit := false
	ast.Inspect(s, func(x ast.Node) bool {
		switch y := x.(type) {
		case *ast.Ident:
			if y.Name == "input" {
				hit = true
			}
		case *ast.ReturnStmt:
			hit = true
		}
		return !hit
	})
	return hit
}

// returnsEngineDirectly: `return engine.F(...)`, or a (type) switch all of whose clauses end so.
func returnsEngineDirectly(fset *token.FileSet, s ast.Stmt) bool {
	isRet := func(x ast.Stmt) bool {
		r, ok := x.(*ast.ReturnStmt)
		if !ok || len(r.Results) != 1 {
			return false
		}
		c, ok := r.Results[0].(*ast.CallExpr)
		return ok && isEngineParse(calleeName(fset, c))
	}
	if isRet(s) {
		return true
	}
	var clauses []ast.Stmt
	switch x := s.(type) {
	case *ast.TypeSwitchStmt:
		clauses = x.Body.List
	case *ast.SwitchStmt:
		clauses = x.Body.List
	default:
		return false
	}
	if len(clauses) == 0 {
		return false
	}
	for _, c := range clauses {
		cc, ok := c.(*ast.CaseClause)
		if !ok || len(cc.Body) != 1 || !isRet(cc.Body[0]) {
			return false
		}
	}
	return true
}

func callsIn(fset *token.FileSet, n ast.Node) []*ast.CallExpr {
	var out []*ast.CallExpr
	ast.Inspect(n, func(x ast.Node) bool {
		if c, ok := x.(*ast.CallExpr); ok {
			out = append(out, c)
		}
		return true
	})
	return out
}

func classify(fset *token.FileSet, fd *ast.FuncDecl) epRow {
	row := epRow{ty: recvType(fd), ep: fd.Name.Name, shape: "own"}
	recv := recvName(fd)
	body := fd.Body.List
	seen := map[string]bool{}
	for _, c := range callsIn(fset, fd.Body) {
		n := calleeName(fset, c)
		if !seen[n] {
			seen[n] = true
			row.calls = append(row.calls, n)
		}
	}
	// must X
	if len(body) == 3 {
		if as, ok := body[0].(*ast.AssignStmt); ok && as.Tok == token.DEFINE && len(as.Lhs) == 2 && len(as.Rhs) == 1 {
			if c, ok := as.Rhs[0].(*ast.CallExpr); ok && forwardsArgs(c) {
				if via, ep, ok := selfEP(recv, calleeName(fset, c)); ok {
					r0, e0 := exprStr(fset, as.Lhs[0]), exprStr(fset, as.Lhs[1])
					ifs, ok1 := body[1].(*ast.IfStmt)
					ret, ok2 := body[2].(*ast.ReturnStmt)
					if ok1 && ok2 && ifs.Init == nil && ifs.Else == nil && exprStr(fset, ifs.Cond) == e0+" != nil" &&
						len(ifs.Body.List) == 1 && len(ret.Results) == 1 && exprStr(fset, ret.Results[0]) == r0 {
						if es, ok := ifs.Body.List[0].(*ast.ExprStmt); ok && exprStr(fset, es.X) == "panic("+e0+")" {
							row.shape, row.target = "must", ep
							if via != "" {
								row.target = via + "." + ep
							}
							return row
						}
					}
				}
			}
		}
	}
	// fwd X
	if len(body) == 1 {
		if ret, ok := body[0].(*ast.ReturnStmt); ok && len(ret.Results) == 1 {
			if c, ok := ret.Results[0].(*ast.CallExpr); ok && forwardsArgs(c) {
				if via, ep, ok := selfEP(recv, calleeName(fset, c)); ok {
					row.shape, row.target = "fwd", ep
					if via != "" {
						row.target = via + "." + ep
					}
					return row
				}
			}
		}
	}
	// engine F: the statement that contains the engine call
	for i, s := range body {
		var ec *ast.CallExpr
		for _, c := range callsIn(fset, s) {
			if isEngineParse(calleeName(fset, c)) {
				ec = c
				break
			}
		}
		if ec == nil {
			continue
		}
		name := calleeName(fset, ec)
		row.shape, row.target = "engine", strings.TrimPrefix(name, "engine.")
		// pre: statements in front of the engine statement that look at the input or may return early
		for _, p := range body[:i] {
			if !isTypPrelude(fset, p) && touchesInputOrReturns(p) {
				row.pre++
			}
			if !isTypPrelude(fset, p) {
				row.preS = append(row.preS, stmtStr(fset, p))
			}
		}
		for _, p := range body[i+1:] {
			row.postS = append(row.postS, stmtStr(fset, p))
		}
		row.callS = exprStr(fset, ec)
		// post: what follows the engine statement (result conversion). `return engine.F(...)`, and a
		// switch whose clauses all end in `return engine.F(...)`, hand the engine's answer on unchanged.
		row.post = len(body) - i - 1
		if !returnsEngineDirectly(fset, s) && row.post == 0 {
			row.post = 1
		}
		if len(ec.Args) > 0 {
			row.arg = exprStr(fset, ec.Args[0])
		}
		if len(ec.Args) > 2 {
			row.code = exprStr(fset, ec.Args[2])
		}
		vi := 3
		if strings.HasPrefix(row.target, "ParseComplex") {
			vi = 5
		}
		if len(ec.Args) > vi {
			v := ec.Args[vi]
			if fl, ok := v.(*ast.FuncLit); ok {
				// func(value T, checks …, ctx …) (T, error) { return z.validateX(value, checks, ctx) } -> z.validateX
				var inner []string
				for _, c := range callsIn(fset, fl.Body) {
					inner = append(inner, calleeName(fset, c))
				}
				row.validator = "func:" + strings.Join(inner, "+")
			} else {
				row.validator = exprStr(fset, stripIndex(v))
			}
		}
		return row
	}
	return row
}

// genEntryPoints writes Gen/EntryPoints.lean from <repo>/types/*.go.
func genEntryPoints(repo, outPath string) error {
	fset := token.NewFileSet()
	files, err := filepath.Glob(filepath.Join(repo, "types", "*.go"))
	if err != nil {
		return err
	}
	sort.Strings(files)
	methods := map[string]map[string]epRow{} // type -> ep -> row
	embeds := map[string][]string{}          // type -> embedded type names
	fileOf := map[string]string{}
	for _, f := range files {
		if strings.HasSuffix(f, "_test.go") {
			continue
		}
		af, err := parser.ParseFile(fset, f, nil, 0)
		if err != nil {
			return err
		}
		for _, d := range af.Decls {
			switch x := d.(type) {
			case *ast.GenDecl:
				for _, sp := range x.Specs {
					ts, ok := sp.(*ast.TypeSpec)
					if !ok {
						continue
					}
					st, ok := ts.Type.(*ast.StructType)
					if !ok {
						continue
					}
					fileOf[ts.Name.Name] = filepath.Base(f)
					for _, fl := range st.Fields.List {
						if len(fl.Names) != 0 {
							continue
						}
						t := fl.Type
						if s, ok := t.(*ast.StarExpr); ok {
							t = s.X
						}
						t = stripIndex(t)
						if id, ok := t.(*ast.Ident); ok {
							embeds[ts.Name.Name] = append(embeds[ts.Name.Name], id.Name)
						}
					}
				}
			case *ast.FuncDecl:
				ty := recvType(x)
				if ty == "" || x.Body == nil {
					continue
				}
				isEP := false
				for _, e := range epOrder {
					if x.Name.Name == e {
						isEP = true
					}
				}
				if !isEP {
					continue
				}
				if methods[ty] == nil {
					methods[ty] = map[string]epRow{}
				}
				r := classify(fset, x)
				r.file = filepath.Base(f)
				methods[ty][x.Name.Name] = r
			}
		}
	}
	// resolve inheritance: which embedded schema provides an entry point the type does not declare
	var provides func(ty, ep string, depth int) bool
	provides = func(ty, ep string, depth int) bool {
		if depth > 4 {
			return false
		}
		if _, ok := methods[ty][ep]; ok {
			return true
		}
		for _, e := range embeds[ty] {
			if provides(e, ep, depth+1) {
				return true
			}
		}
		return false
	}
	var types []string
	for ty := range fileOf {
		if strings.HasPrefix(ty, "Zod") && provides(ty, "Parse", 0) {
			types = append(types, ty)
		}
	}
	sort.Strings(types)
	if len(types) < 20 {
		return fmt.Errorf("only %d schema types with a Parse method found under %s/types", len(types), repo)
	}
	var rows []epRow
	for _, ty := range types {
		for _, ep := range epOrder {
			if r, ok := methods[ty][ep]; ok {
				rows = append(rows, r)
				continue
			}
			r := epRow{ty: ty, file: fileOf[ty], ep: ep, shape: "absent"}
			for _, e := range embeds[ty] {
				if provides(e, ep, 1) {
					r.shape, r.target = "inherit", e
					break
				}
			}
			rows = append(rows, r)
		}
	}
	q := func(s string) string {
		return "\"" + strings.ReplaceAll(strings.ReplaceAll(s, "\\", "\\\\"), "\"", "\\\"") + "\""
	}
	var b strings.Builder
	b.WriteString("/- REGENERATED by harness/cmd/c09 -gen-entrypoints (go/ast over types/*.go) on every run of ./check C09. Do not edit. -/\n")
	b.WriteString("import Gozod.Model.EntryPoints\nnamespace Gozod.Gen.EntryPoints\nopen Gozod.EntryPoints\n\n")
	b.WriteString(fmt.Sprintf("/-- %d schema types × 6 entry points. -/\n", len(types)))
	b.WriteString("def table : List Row := [\n")
	for i, r := range rows {
		sep := ","
		if i == len(rows)-1 {
			sep = ""
		}
		var shape string
		switch r.shape {
		case "engine":
			shape = fmt.Sprintf(".engine %s %d %d %s %s %s", q(r.target), r.pre, r.post, q(r.arg), q(r.code), q(r.validator))
		case "fwd":
			shape = ".fwd " + q(r.target)
		case "must":
			shape = ".must " + q(r.target)
		case "inherit":
			shape = ".inherit " + q(r.target)
		case "absent":
			shape = ".absent"
		default:
			shape = ".own [" + strings.Join(mapStr(r.calls, q), ", ") + "]"
		}
		b.WriteString(fmt.Sprintf("  ⟨%s, %s, %s, %s⟩%s\n", q(r.ty), q(r.file), q(r.ep), shape, sep))
	}
	b.WriteString("]\n\n/-- The statements around the engine call of every entry point that has any (source text, white space normalised). -/\n")
	b.WriteString("def stmts : List Stmts := [\n")
	first := true
	for _, r := range rows {
		if r.shape != "engine" || len(r.preS)+len(r.postS) == 0 {
			continue
		}
		if !first {
			b.WriteString(",\n")
		}
		first = false
		b.WriteString(fmt.Sprintf("  ⟨%s, %s, %s,\n    [%s],\n    [%s]⟩", q(r.ty), q(r.ep), q(r.callS), strings.Join(mapStr(r.preS, q), ",\n     "), strings.Join(mapStr(r.postS, q), ",\n     ")))
	}
	b.WriteString("\n]\n\nend Gozod.Gen.EntryPoints\n")
	old, _ := os.ReadFile(outPath)
	if string(old) == b.String() {
		return nil
	}
	return os.WriteFile(outPath, []byte(b.String()), 0o644)
}

func mapStr(xs []string, f func(string) string) []string {
	out := make([]string, len(xs))
	for i, x := range xs {
		out[i] = f(x)
	}
	return out
}
