/-
  Gozod.Model.ChecksC — `validatePointer`'s extra pass as container schemas reach it (C10, round 4).

  `ZodSlice/ZodObject/ZodStruct/ZodMap/ZodArray/ZodSet/ZodTuple.extract…PtrForEngine` turn a plain value
  into a pointer to it (`if s, ok := value.([]T); ok { return &s, true }`), so `parseComplexValue` hands
  EVERY input of these schemas to `validatePointer` (internal/engine/parser.go:949). With an overwrite
  in the check list, `validatePointerWithOverwrite` first runs all checks with the POINTER as payload:

    * an overwrite wrapper converts the pointer, applies the user function and stores a plain value:
      from then on the payload is a value and every later check behaves as usual;
    * until then ("raw" payload), the built-in length checks and the `Check(fn)` wrappers find neither a
      measurable value nor a value of the schema's type in the payload and return without an issue and
      without calling anything (`vac p`); typed `Refine` wrappers convert the pointer and do run;
      when-guards are user functions and do run;
    * up to /repo 49e6e91 (`legacyRunChecksC`): if this pass ended without an issue its value was
      returned and the regular pass was skipped, so a vacuous check attached before the first overwrite
      was never evaluated: `Slice[int](Int()).Max(0).Overwrite(id).Parse([]int{7})` succeeded;
    * since 49e6e91 (`runChecksC`): the regular pass runs first and decides; the pass over the pointer
      runs only after it accepted and only supplies the result value (callbacks are called again).
-/
import Gozod.Model.Checks
namespace Gozod

section
variable {P O T V : Type}

/-- The extra pass on a container: `raw` = the payload is still the pointer (no overwrite has run). -/
def firstPassC (env : Env P O T V) (vac : P → Bool) :
    Nat → List (Check P O) → V → Bool → List Nat → List (Ev V) → Run V
  | _, [], val, _, iss, log => ⟨val, iss, log⟩
  | i, .overwrite o :: cs, val, _, iss, log =>
      firstPassC env vac (i + 1) cs (env.apply o val) false iss (log ++ [.over i val])
  | i, .pred p abort none :: cs, val, raw, iss, log =>
      if raw && vac p then firstPassC env vac (i + 1) cs val raw iss log
      else if env.holds p val then firstPassC env vac (i + 1) cs val raw iss (log ++ [.check i val])
      else if abort then ⟨val, iss ++ [i], log ++ [.check i val]⟩
      else firstPassC env vac (i + 1) cs val raw (iss ++ [i]) (log ++ [.check i val])
  | i, .pred p abort (some w) :: cs, val, raw, iss, log =>
      if iss ≠ [] then firstPassC env vac (i + 1) cs val raw iss log
      else if env.holds w val = false then firstPassC env vac (i + 1) cs val raw iss (log ++ [.when i val])
      else if raw && vac p then firstPassC env vac (i + 1) cs val raw iss (log ++ [.when i val])
      else if env.holds p val then firstPassC env vac (i + 1) cs val raw iss (log ++ [.when i val, .check i val])
      else if abort then ⟨val, iss ++ [i], log ++ [.when i val, .check i val]⟩
      else firstPassC env vac (i + 1) cs val raw (iss ++ [i]) (log ++ [.when i val, .check i val])

/-- Up to /repo 49e6e91: the extra pass ran first and was taken when it had no issue. -/
def legacyRunChecksC (env : Env P O T V) (vac : P → Bool) (cs : List (Check P O)) (v : V) : Run V :=
  if hasOverwrite cs then
    let fp := firstPassC env vac 0 cs v true [] []
    if fp.issues = [] then ⟨fp.val, [], fp.log⟩                    -- first pass accepted: regular pass skipped
    else
      let r := runChecks env cs v
      ⟨r.val, r.issues, fp.log ++ r.log⟩
  else runChecks env cs v

/-- The checks of a container schema applied to an input (value or pointer alike), since /repo 49e6e91:
    the regular pass decides; when it accepts and an overwrite is attached the pass over the pointer
    runs afterwards and supplies the result when it has no issue. -/
def runChecksC (env : Env P O T V) (vac : P → Bool) (cs : List (Check P O)) (v : V) : Run V :=
  let r := runChecks env cs v
  if hasOverwrite cs then
    if r.issues ≠ [] then r
    else
      let fp := firstPassC env vac 0 cs v true [] []
      if fp.issues = [] then ⟨fp.val, [], r.log ++ fp.log⟩ else ⟨r.val, [], r.log ++ fp.log⟩
  else r

/-- No vacuous check is attached before the first overwrite. -/
def vacFree (vac : P → Bool) : List (Check P O) → Bool
  | [] => true
  | .overwrite _ :: _ => true
  | .pred p _ _ :: cs => !vac p && vacFree vac cs

/-- Pipelines whose base schemas say whether they are containers. -/
inductive PipelineK (P O T : Type) where
  | base (tag : Nat) (ptrSchema container : Bool) (cs : List (Check P O))
  | transform (src : PipelineK P O T) (id : Nat) (t : T)
  | pipe (src dst : PipelineK P O T)

def PipelineK.erase : PipelineK P O T → Pipeline P O T
  | .base tag ps _ cs => .base tag ps cs
  | .transform s i t => .transform s.erase i t
  | .pipe a b => .pipe a.erase b.erase

def PipelineK.noContainer : PipelineK P O T → Bool
  | .base _ _ c _ => !c
  | .transform s _ _ => s.noContainer
  | .pipe a b => a.noContainer && b.noContainer

def parsePipelineK (env : Env P O T V) (vac : P → Bool) : PipelineK P O T → V → Bool → Res V
  | .base tag ptrSchema container cs, v, ptrIn =>
    let r := if container then runChecksC env vac cs v else runChecksOn env ptrSchema ptrIn cs v
    ⟨if r.issues = [] then .ok r.val else .error (tag, r.issues), ptrSchema, r.log.map (.chk tag)⟩
  | .transform src i t, v, ptrIn =>
    let r := parsePipelineK env vac src v ptrIn
    match r.out with
    | .ok x => ⟨.ok (env.trans t x), false, r.log ++ [.tr i x]⟩
    | .error e => ⟨.error e, false, r.log⟩
  | .pipe a b, v, ptrIn =>
    let r := parsePipelineK env vac a v ptrIn
    match r.out with
    | .ok x =>
      let r2 := parsePipelineK env vac b x r.isPtr
      ⟨r2.out, r2.isPtr, r.log ++ r2.log⟩
    | .error e => ⟨.error e, false, r.log⟩

/-- The same with the type dispatch of each base schema made explicit: `ty tag v` says whether the base
    schema number `tag` takes `v` as a value of its own type (`parsePrimitiveValue` / `parseComplexValue`:
    anything else — a nil or a value of another kind handed on by a Transform or a Pipe — is an
    invalid_type error of that schema, reported as `(typeErrTag, [0])`, and none of its checks run). -/
def typeErrTag : Nat := 999999

def parsePipelineT (env : Env P O T V) (vac : P → Bool) (ty : Nat → V → Bool) : PipelineK P O T → V → Bool → Res V
  | .base tag ptrSchema container cs, v, ptrIn =>
    if ty tag v then
      let r := if container then runChecksC env vac cs v else runChecksOn env ptrSchema ptrIn cs v
      ⟨if r.issues = [] then .ok r.val else .error (tag, r.issues), ptrSchema, r.log.map (.chk tag)⟩
    else ⟨.error (typeErrTag, [0]), ptrSchema, []⟩
  | .transform src i t, v, ptrIn =>
    let r := parsePipelineT env vac ty src v ptrIn
    match r.out with
    | .ok x => ⟨.ok (env.trans t x), false, r.log ++ [.tr i x]⟩
    | .error e => ⟨.error e, false, r.log⟩
  | .pipe a b, v, ptrIn =>
    let r := parsePipelineT env vac ty a v ptrIn
    match r.out with
    | .ok x =>
      let r2 := parsePipelineT env vac ty b x r.isPtr
      ⟨r2.out, r2.isPtr, r.log ++ r2.log⟩
    | .error e => ⟨.error e, false, r.log⟩

end
end Gozod
