package main

// Type information for the translator (round 4b).
//
// The library is loaded through golang.org/x/tools/go/packages (v0.50.0 from the module cache; this directory is a
// module of its own so that the dependency does not leak into the harness module, whose go.sum is a copy of the
// library's).  Every library package is parsed and type-checked FROM SOURCE in one universe (NeedDeps), so an object
// seen from two packages is one object.  The scanner walks exactly the syntax trees the type checker annotated.
//
// What is resolved through go/types instead of by name:
//   * the callee of every call: a *types.Func of the library names ONE function (pkg.Func / pkg.Recv.Method);
//     a method of an interface type is dynamic dispatch: every concrete method of that name whose receiver type
//     implements the interface (types.Implements), not "every method of that name";
//   * a field selector x.f: the selected field object and the struct that declares it (types.Info.Selections) —
//     two structs with equally named fields no longer alias;
//   * what is a mutex / an atomic / a Once: the type of the receiver expression;
//   * package-level variables: the object's parent scope is the package scope (shadowing handled by the checker).
// The location and mutex NAMES written to the tables stay the short ones (pkg.Struct.field, pkg.mutex); if two
// distinct objects would get the same name the translator refuses to write a table (a broken tie).

import (
	"fmt"
	"go/ast"
	"go/types"
	"os"
	"path/filepath"
	"sort"
	"strings"

	"golang.org/x/tools/go/packages"
)

type typed struct {
	info   *types.Info
	tpkg   *types.Package
	owner  map[*types.Var]string // field object -> name of the named struct type that declares it
	byPath map[string]*pkg       // import path -> scanned package
}

// loadTypedPackages replaces the go/parser walk: the same *pkg records, filled from go/packages.
func loadTypedPackages(repo string) ([]*pkg, error) {
	abs, err := filepath.Abs(repo)
	if err != nil {
		return nil, err
	}
	if r, err := filepath.EvalSymlinks(abs); err == nil {
		abs = r
	}
	cfg := &packages.Config{
		Mode: packages.NeedName | packages.NeedFiles | packages.NeedCompiledGoFiles | packages.NeedSyntax | packages.NeedTypes |
			packages.NeedTypesInfo | packages.NeedImports | packages.NeedDeps,
		Dir: abs, Env: os.Environ(), Tests: false,
	}
	loaded, err := packages.Load(cfg, "./...")
	if err != nil {
		return nil, fmt.Errorf("go/packages: %v", err)
	}
	byPath := map[string]*pkg{}
	var out []*pkg
	for _, lp := range loaded {
		if len(lp.GoFiles) == 0 {
			continue
		}
		rel, err := filepath.Rel(abs, filepath.Dir(lp.GoFiles[0]))
		if err != nil {
			return nil, err
		}
		dir := filepath.ToSlash(rel)
		skip := false
		for _, part := range strings.Split(dir, "/") {
			if part != "." && skipDir(part) {
				skip = true
			}
		}
		if skip {
			continue
		}
		if len(lp.Errors) > 0 {
			return nil, fmt.Errorf("go/packages: %s: %v", lp.PkgPath, lp.Errors[0])
		}
		if lp.TypesInfo == nil || lp.Types == nil || len(lp.Syntax) != len(lp.CompiledGoFiles) {
			return nil, fmt.Errorf("go/packages: %s: no type information / syntax", lp.PkgPath)
		}
		pk := &pkg{dir: dir, name: lp.Name, vars: map[string]string{}, topSpecs: map[*ast.ValueSpec]bool{},
			mutexes: map[string]bool{}, fieldKind: map[string]string{}, onceField: map[string]bool{}, owner: map[string]string{},
			funcs: map[string]*ast.FuncDecl{}, refElem: map[string]bool{}, atomicField: map[string]bool{},
			ty: &typed{info: lp.TypesInfo, tpkg: lp.Types, owner: map[*types.Var]string{}, byPath: byPath}}
		for i, f := range lp.Syntax {
			if strings.HasSuffix(lp.CompiledGoFiles[i], "_test.go") {
				continue
			}
			r, _ := filepath.Rel(abs, lp.CompiledGoFiles[i])
			pk.files = append(pk.files, f)
			pk.rels = append(pk.rels, filepath.ToSlash(r))
		}
		// field object -> declaring named struct
		sc := lp.Types.Scope()
		for _, n := range sc.Names() {
			tn, ok := sc.Lookup(n).(*types.TypeName)
			if !ok {
				continue
			}
			if st, ok := tn.Type().Underlying().(*types.Struct); ok {
				for i := 0; i < st.NumFields(); i++ {
					pk.ty.owner[st.Field(i).Origin()] = tn.Name()
				}
			}
		}
		byPath[lp.PkgPath] = pk
		out = append(out, pk)
	}
	sort.Slice(out, func(i, j int) bool { return out[i].dir < out[j].dir })
	if len(out) == 0 {
		return nil, fmt.Errorf("go/packages: no library package under %s", abs)
	}
	return out, nil
}

func namedTypeName(t types.Type) (pkgPath, name string) {
	if t == nil {
		return "", ""
	}
	t = types.Unalias(t)
	if p, ok := t.(*types.Pointer); ok {
		t = types.Unalias(p.Elem())
	}
	if n, ok := t.(*types.Named); ok {
		o := n.Origin().Obj()
		if o.Pkg() != nil {
			return o.Pkg().Path(), o.Name()
		}
		return "", o.Name()
	}
	return "", ""
}

// syncKindOf: mutex | atomic | once | "" from the TYPE of the expression.
func (pk *pkg) syncKindOf(e ast.Expr) string {
	p, n := namedTypeName(pk.ty.info.TypeOf(e))
	switch {
	case p == "sync" && (n == "Mutex" || n == "RWMutex"):
		return "mutex"
	case p == "sync" && n == "Once":
		return "once"
	case p == "sync/atomic":
		return "atomic"
	}
	return ""
}

// fieldOwner: the named struct that declares the field a selector selects ("" if the selector is not a field).
func (pk *pkg) fieldOwner(se *ast.SelectorExpr) (string, *pkg, bool) {
	sel := pk.ty.info.Selections[se]
	if sel == nil || sel.Kind() != types.FieldVal {
		return "", nil, false
	}
	v, ok := sel.Obj().(*types.Var)
	if !ok {
		return "", nil, false
	}
	v = v.Origin()
	if v.Pkg() == nil {
		return "", nil, true
	}
	tp := pk.ty.byPath[v.Pkg().Path()]
	if tp == nil {
		return "", nil, true // a field of a foreign struct
	}
	return tp.ty.owner[v], tp, true
}

// isField: the selector selects the field `name` of the struct this package recorded as its owner.
func (pk *pkg) isOwnedField(se *ast.SelectorExpr) bool {
	o, tp, isF := pk.fieldOwner(se)
	if !isF || tp != pk {
		return false
	}
	return o == pk.owner[se.Sel.Name]
}

// typedPkgVar: the identifier denotes a package-level variable of a library package.
func (pk *pkg) typedPkgVar(id *ast.Ident) (*pkg, bool) {
	v, ok := pk.ty.info.Uses[id].(*types.Var)
	if !ok {
		if d, ok2 := pk.ty.info.Defs[id].(*types.Var); ok2 {
			v, ok = d, true
		}
	}
	if !ok || v.Pkg() == nil || v.IsField() || v.Parent() != v.Pkg().Scope() {
		return nil, false
	}
	tp := pk.ty.byPath[v.Pkg().Path()]
	return tp, tp != nil
}

type calleeRes struct {
	names   []string // table names: pkg.Func / pkg.Recv.Method
	dynamic bool     // interface method: names are the implementations
	foreign bool     // a function outside the library
	value   bool     // a call of a function VALUE (field, variable, parameter, result)
}

// callee resolves the function a call expression calls.
func (pk *pkg) callee(call *ast.CallExpr, all []*pkg) calleeRes {
	fun := ast.Unparen(call.Fun)
	switch f := fun.(type) {
	case *ast.IndexExpr:
		fun = ast.Unparen(f.X)
	case *ast.IndexListExpr:
		fun = ast.Unparen(f.X)
	}
	var id *ast.Ident
	switch f := fun.(type) {
	case *ast.Ident:
		id = f
	case *ast.SelectorExpr:
		id = f.Sel
	default:
		if tv, ok := pk.ty.info.Types[fun]; ok && tv.IsType() {
			return calleeRes{foreign: true} // a conversion
		}
		return calleeRes{value: true}
	}
	obj := pk.ty.info.Uses[id]
	fn, ok := obj.(*types.Func)
	if !ok {
		switch obj.(type) {
		case *types.Builtin, *types.TypeName, *types.Nil:
			return calleeRes{foreign: true}
		}
		if tv, ok := pk.ty.info.Types[fun]; ok && tv.IsType() {
			return calleeRes{foreign: true}
		}
		return calleeRes{value: true}
	}
	fn = fn.Origin()
	sig := fn.Type().(*types.Signature)
	if recv := sig.Recv(); recv != nil {
		if it, isIface := types.Unalias(recv.Type()).Underlying().(*types.Interface); isIface {
			// dynamic dispatch: every concrete library method of that name on a type that implements the interface
			var names []string
			for _, tp := range all {
				sc := tp.ty.tpkg.Scope()
				for _, n := range sc.Names() {
					tn, ok := sc.Lookup(n).(*types.TypeName)
					if !ok || tn.IsAlias() {
						continue
					}
					if _, isI := tn.Type().Underlying().(*types.Interface); isI {
						continue
					}
					named, ok := tn.Type().(*types.Named)
					if !ok {
						continue
					}
					var m *types.Func
					for i := 0; i < named.NumMethods(); i++ {
						if named.Method(i).Name() == fn.Name() {
							m = named.Method(i)
						}
					}
					if m == nil {
						continue
					}
					// generic types cannot be tested with Implements without instantiation: keep them (over-approximation)
					if named.TypeParams().Len() == 0 && it.NumMethods() > 0 {
						if !types.Implements(named, it) && !types.Implements(types.NewPointer(named), it) {
							continue
						}
					}
					names = append(names, tp.name+"."+tn.Name()+"."+fn.Name())
				}
			}
			sort.Strings(names)
			return calleeRes{names: names, dynamic: true}
		}
		if fn.Pkg() == nil || pk.ty.byPath[fn.Pkg().Path()] == nil {
			return calleeRes{foreign: true}
		}
		_, rn := namedTypeName(recv.Type())
		return calleeRes{names: []string{pk.ty.byPath[fn.Pkg().Path()].name + "." + rn + "." + fn.Name()}}
	}
	if fn.Pkg() == nil || pk.ty.byPath[fn.Pkg().Path()] == nil {
		return calleeRes{foreign: true}
	}
	return calleeRes{names: []string{pk.ty.byPath[fn.Pkg().Path()].name + "." + fn.Name()}}
}

// clashes: distinct objects that the tables would give one name (mutexes by short name within a package; shared
// fields by name within a package).
func nameClashes(pkgs []*pkg) []string {
	var out []string
	for _, pk := range pkgs {
		mu := map[string][]string{}
		fields := map[string]map[string]bool{}
		sc := pk.ty.tpkg.Scope()
		for _, n := range sc.Names() {
			switch o := sc.Lookup(n).(type) {
			case *types.Var:
				if p, tn := namedTypeName(o.Type()); p == "sync" && (tn == "Mutex" || tn == "RWMutex") {
					mu[o.Name()] = append(mu[o.Name()], "var "+o.Name())
				}
			case *types.TypeName:
				st, ok := o.Type().Underlying().(*types.Struct)
				if !ok {
					continue
				}
				for i := 0; i < st.NumFields(); i++ {
					f := st.Field(i)
					if p, tn := namedTypeName(f.Type()); p == "sync" && (tn == "Mutex" || tn == "RWMutex") {
						mu[f.Name()] = append(mu[f.Name()], o.Name()+"."+f.Name())
					}
					if pk.fieldKind[f.Name()] != "" || pk.onceField[f.Name()] || pk.atomicField[f.Name()] {
						if fields[f.Name()] == nil {
							fields[f.Name()] = map[string]bool{}
						}
						fields[f.Name()][o.Name()] = true
					}
				}
			}
		}
		for n, os_ := range mu {
			if len(os_) > 1 {
				sort.Strings(os_)
				out = append(out, fmt.Sprintf("%s: mutexes %s would all be named %s.%s", pk.dir, strings.Join(os_, ", "), pk.name, n))
			}
		}
		_ = fields // equally named fields of different structs are told apart by fieldOwner; no clash
	}
	sort.Strings(out)
	return out
}

// isPkgVarFunc: the identifier is a package-level variable (of function type) of a library package.
func (pk *pkg) isPkgVarFunc(id *ast.Ident) bool {
	_, ok := pk.typedPkgVar(id)
	return ok
}
