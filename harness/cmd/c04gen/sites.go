package main

func genPanicSites(repo, dir string) {}
