package main

// C13, round 2 — (1) the generator's own tag splitter / rule parser, observed directly through a hook
// file added to the build of cmd/gozodgen with `go build -overlay` (nothing is written into the
// library tree; the hook only ADDS an init() that answers on stdin/stdout when an environment
// variable is set), and (2) wide programs: several files, many structs per file, many fields per
// struct, the same tag text on several fields of one run, permuted rule orders, every rule with
// parameters full of brackets, braces, commas, quotes, backslashes, '=' and spaces.
//
// Op lines:
//
//	c13 split <runes of tag> | <rules pkg/tagparser reads>     parts=<..> rules=<..|err:param|err:name>   (what gozodgen reads)
//	c13 wcompile <type> <names> <runes of tag>                 ok | noparse | notypecheck | schema-panics   (one struct per tag)
//	c13 wexpr <type> <names> <runes of tag>                    expr=<runes of the emitted schema expression>
//	c13 wsame <type> <names> <runes of tag>                    same | differ   (expression in a many-field struct vs alone)
//	c13 wbuild                                                 ok | fail        (the wide package compiles)
//	c13 wcell <type> <names> <runes of tag> <runes of probe> | <rules tagparser reads>   g=<0|1|p|e> r=<0|1|p|e>
import (
	"bufio"
	"bytes"
	"encoding/json"
	"fmt"
	"os"
	"os/exec"
	"path/filepath"
	"regexp"
	"sort"
	"strconv"
	"strings"
	"time"

	"github.com/kaptinlin/gozod/pkg/tagparser"

	"verifharness/hx"
)

const hookSrc = `// added to the build of cmd/gozodgen by the C13 harness (go build -overlay); not part of the library
package main

import (
	"bufio"
	"encoding/json"
	"errors"
	"fmt"
	"os"
	"reflect"
	"strconv"
)

type verifRule struct {
	N string   ` + "`json:\"n\"`" + `
	P []string ` + "`json:\"p\"`" + `
}

type verifRes struct {
	Parts []string    ` + "`json:\"parts\"`" + `
	Rules []verifRule ` + "`json:\"rules\"`" + `
	Err   string      ` + "`json:\"err\"`" + `
}

// verifKind renders a reflect.Type by Kind (what GenTerm.RT.render writes): interface{} is "any", the marker struct
// timeType is "time"; every basic type by its name.
func verifKind(t reflect.Type) string {
	switch t.Kind() {
	case reflect.Pointer:
		return "*" + verifKind(t.Elem())
	case reflect.Slice:
		return "[]" + verifKind(t.Elem())
	case reflect.Map:
		return "map[" + verifKind(t.Key()) + "]" + verifKind(t.Elem())
	case reflect.Interface:
		return "any"
	case reflect.Struct:
		if t == reflect.TypeFor[timeType]() {
			return "time"
		}
	}
	return t.String()
}

// GOZODGEN_VERIF_TYPES=<dir>: run the real analyzer on the package and print, per struct, the reflect.Type
// typesToReflectType built for every field (the result of the conversion whose termination C13 is about).
func verifTypes(dir string) {
	a, err := NewStructAnalyzer()
	if err != nil {
		fmt.Fprintln(os.Stderr, err)
		os.Exit(3)
	}
	infos, err := a.AnalyzePackage(dir)
	if err != nil {
		fmt.Fprintln(os.Stderr, err)
		os.Exit(3)
	}
	res := map[string][]string{}
	for _, in := range infos {
		var ts []string
		for _, f := range in.Fields {
			ts = append(ts, verifKind(f.Type))
		}
		res[in.Name] = ts
	}
	b, _ := json.Marshal(res)
	fmt.Println("VERIFTYPES " + string(b))
	os.Exit(0)
}

func init() {
	if d := os.Getenv("GOZODGEN_VERIF_TYPES"); d != "" {
		verifTypes(d)
	}
	if os.Getenv("GOZODGEN_VERIF_RULES") == "" {
		return
	}
	a, err := NewStructAnalyzer()
	if err != nil {
		fmt.Fprintln(os.Stderr, err)
		os.Exit(3)
	}
	sc := bufio.NewScanner(os.Stdin)
	sc.Buffer(make([]byte, 1<<20), 1<<20)
	w := bufio.NewWriter(os.Stdout)
	for sc.Scan() {
		s, err := strconv.Unquote(sc.Text())
		if err != nil {
			fmt.Fprintln(os.Stderr, err)
			os.Exit(3)
		}
		var res verifRes
		func() {
			defer func() {
				if r := recover(); r != nil {
					res.Err = "panic"
				}
			}()
			res.Parts = smartSplitTagRules(s)
			rules, err := a.parseTagRules(s)
			switch {
			case err == nil:
			case errors.Is(err, errRuleRequiresParam):
				res.Err = "err:param"
			case errors.Is(err, errEmptyRuleName):
				res.Err = "err:name"
			default:
				res.Err = "err:other"
			}
			for _, r := range rules {
				res.Rules = append(res.Rules, verifRule{N: r.Name, P: r.Params})
			}
		}()
		b, _ := json.Marshal(res)
		w.Write(b)
		w.WriteByte('\n')
	}
	w.Flush()
	os.Exit(0)
}
`

// buildGen builds cmd/gozodgen of the library tree with the hook file overlaid.
func buildGen(repo, tmp string) string {
	gen := filepath.Join(tmp, "gozodgen")
	hook := filepath.Join(tmp, "zz_verif_hook.go")
	os.WriteFile(hook, []byte(hookSrc), 0o644)
	abs, err := filepath.Abs(repo)
	if err != nil {
		die("%v", err)
	}
	if r, err := filepath.EvalSymlinks(abs); err == nil {
		abs = r
	}
	ov, _ := json.Marshal(map[string]any{"Replace": map[string]string{filepath.Join(abs, "cmd", "gozodgen", "zz_verif_hook.go"): hook}})
	ovp := filepath.Join(tmp, "overlay.json")
	os.WriteFile(ovp, ov, 0o644)
	if out, rc, _ := goBuild(abs, 10*time.Minute, "build", "-overlay", ovp, "-o", gen, "./cmd/gozodgen"); rc != 0 {
		die("gozodgen (+ the overlaid hook calling smartSplitTagRules / parseTagRules) does not build:\n%s", out)
	}
	return gen
}

type hookRule struct {
	N string   `json:"n"`
	P []string `json:"p"`
}

type hookRes struct {
	Parts []string   `json:"parts"`
	Rules []hookRule `json:"rules"`
	Err   string     `json:"err"`
}

func runHook(gen string, inputs []string) []hookRes {
	var in bytes.Buffer
	for _, s := range inputs {
		in.WriteString(strconv.Quote(s))
		in.WriteByte('\n')
	}
	cmd := exec.Command(gen)
	cmd.Env = append(os.Environ(), "GOZODGEN_VERIF_RULES=1")
	cmd.Stdin = &in
	var out, errb bytes.Buffer
	cmd.Stdout, cmd.Stderr = &out, &errb
	if err := cmd.Run(); err != nil {
		die("hook run failed: %v\n%s", err, firstN(errb.String(), 2000))
	}
	res := make([]hookRes, 0, len(inputs))
	sc := bufio.NewScanner(&out)
	sc.Buffer(make([]byte, 1<<22), 1<<22)
	for sc.Scan() {
		var r hookRes
		if err := json.Unmarshal(sc.Bytes(), &r); err != nil {
			die("hook output: %v", err)
		}
		res = append(res, r)
	}
	if len(res) != len(inputs) {
		die("hook answered %d of %d lines", len(res), len(inputs))
	}
	return res
}

func renderList(xs []string) string {
	if len(xs) == 0 {
		return "~"
	}
	ys := make([]string, len(xs))
	for i, x := range xs {
		ys[i] = runes(x)
	}
	return strings.Join(ys, ";")
}

func renderRule(name string, params []string) string {
	if params == nil {
		return runes(name) + ":~"
	}
	ys := make([]string, len(params))
	for i, x := range params {
		ys[i] = runes(x)
	}
	return runes(name) + ":" + strings.Join(ys, "/")
}

func renderHookRules(r hookRes) string {
	if r.Err != "" {
		return r.Err
	}
	if len(r.Rules) == 0 {
		return "~"
	}
	ys := make([]string, len(r.Rules))
	for i, x := range r.Rules {
		ys[i] = renderRule(x.N, x.P)
	}
	return strings.Join(ys, ";")
}

func renderRefRules(tag string) (string, []tagparser.TagRule) {
	rs, err := safeParseTag(tag)
	if err != nil {
		return "panic", nil
	}
	if len(rs) == 0 {
		return "~", rs
	}
	ys := make([]string, len(rs))
	for i, x := range rs {
		ys[i] = renderRule(x.Name, x.Params)
	}
	return strings.Join(ys, ";"), rs
}

var splitAlpha = []string{",", "=", "[", "]", "{", "}", "'", "\"", "\\", " ", "a", "b"}

var splitCorpus = []string{
	"required,regex=^[^\\]]{1,8}$", "regex=^[a-z]{2,4}$,min=3", "default=[1,2,3],max=5", "default={\"a\":\"b\",\"c\":1}", "enum=a b c,default=a",
	"uuid,required", "required, min=3 ,max = 9", "regex=^\\d{5}$", "regex=^(dev|staging|prod)$", "default='a,b',min=1", "default=a\\,b", "min=", "=3", "a==b",
	"regex=a b", "default=[1, 2]", "enum=[a] b", "default=\"x,y\",min=2", "default=\\\"x,y", "regex=\\\\\",a", "x= y ", "enum=a\tb", "é=ü,ü", ",,", " , ",
}

func splitStrings(rng *hx.Rng, thorough bool) []string {
	maxLen := 4
	nRand := 4000
	if thorough {
		maxLen = 5
		nRand = 60000
	}
	out := []string{""}
	out = append(out, splitCorpus...)
	level := []string{""}
	for l := 1; l <= maxLen; l++ {
		var next []string
		for _, p := range level {
			for _, a := range splitAlpha {
				next = append(next, p+a)
			}
		}
		out = append(out, next...)
		level = next
	}
	names := []string{"min", "regex", "enum", "default", "r", "", " ", "uuid"}
	extra := []string{"\t", " ", "é", "1", "^", "$", "|", "\n"}
	for i := 0; i < nRand; i++ {
		var sb strings.Builder
		if rng.Chance(50) { // rule-shaped
			k := 1 + rng.Intn(3)
			for j := 0; j < k; j++ {
				if j > 0 {
					sb.WriteString(",")
				}
				sb.WriteString(hx.Pick(rng, names))
				if rng.Chance(80) {
					sb.WriteString("=")
					m := rng.Intn(7)
					for q := 0; q < m; q++ {
						if rng.Chance(12) {
							sb.WriteString(hx.Pick(rng, extra))
						} else {
							sb.WriteString(hx.Pick(rng, splitAlpha))
						}
					}
				}
			}
		} else {
			m := 5 + rng.Intn(10)
			for q := 0; q < m; q++ {
				if rng.Chance(8) {
					sb.WriteString(hx.Pick(rng, extra))
				} else {
					sb.WriteString(hx.Pick(rng, splitAlpha))
				}
			}
		}
		out = append(out, sb.String())
	}
	return out
}

func emitSplit(o *hx.Out, gen string, rng *hx.Rng, thorough bool) {
	ins := splitStrings(rng, thorough)
	res := runHook(gen, ins)
	for i, s := range ins {
		ref, _ := renderRefRules(s)
		obs := "parts=" + renderList(res[i].Parts) + " rules=" + renderHookRules(res[i])
		o.Emit(fmt.Sprintf("c13 split %s | %s # smartSplitTagRules/parseTagRules(%q) of cmd/gozodgen vs tagparser.ParseTagString", runes(s), ref, s), obs)
		switch {
		case res[i].Err != "":
			o.Count("split:" + res[i].Err)
		case renderHookRules(res[i]) == ref:
			o.Count("split:same-rules")
		default:
			o.Count("split:different-rules")
		}
	}
}

// ---------------------------------------------------------------------------------------------
// wide programs

type wcand struct {
	k        int
	gotype   string
	tag      string
	probes   []string // values as text: a string value, or a number
	names    string
	solo     string
	errmsg   string
	expr     string
	hasX     bool
	soloOnly bool     // a field type of round 4 (time.Time, nested / self-referential structs, slices, maps …): type-checked alone only
	place    []string // Struct.Field of every occurrence in the wide package
	g, r     map[string][]string
}

var strProbes = []string{"", "a", "b", "c", "ab", "abc", "abcd", "abcde", "abcdefghi", "A", "a b", "a,b", "a]", "x", "z", "7", "12345", "red", "x,y",
	"a@b.co", "550e8400-e29b-41d4-a716-446655440000", "]", "ab]", "\"", "a\"b", "\\", "'a'", "[a]", "{y}", "k=v"}
var intProbes = []string{"-5", "-1", "0", "1", "2", "3", "4", "5", "6", "9", "10", "11", "100"}

type atom struct {
	src     string
	samples []string
}

var reAtoms = []atom{
	{"a", []string{"a"}}, {"b", []string{"b"}}, {"[ab]", []string{"a", "b"}}, {"[a-c]", []string{"a", "c"}}, {"[^\\]]", []string{"x", "a"}},
	{"\\]", []string{"]"}}, {"\\[", []string{"["}}, {"\\{", []string{"{"}}, {"\\}", []string{"}"}}, {"\\d", []string{"7", "1"}}, {"\\.", []string{"."}},
	{"\"", []string{"\""}}, {"'", []string{"'"}}, {",", []string{","}}, {"[,]", []string{","}}, {" ", []string{" "}}, {"\\\\", []string{"\\"}},
	{"(a|b)", []string{"a", "b"}}, {"[\\]x]", []string{"]", "x"}}, {"[{}]", []string{"{", "}"}}, {"=", []string{"="}}, {".", []string{"z", "a"}},
}

type quant struct {
	src    string
	counts []int
}

var reQuants = []quant{{"", []int{1}}, {"", []int{1}}, {"+", []int{1, 2}}, {"*", []int{0, 2}}, {"?", []int{0, 1}}, {"{1,3}", []int{1, 3}}, {"{2}", []int{2}}, {"{2,}", []int{2, 3}}, {"{1,8}", []int{1, 8}}}

var reCorpus = []struct {
	pat     string
	samples []string
}{
	{"^[^\\]]{1,8}$", []string{"abc", "a", "123456789", "a]"}}, {"^[a-z]{2,4}$", []string{"ab", "abcd", "abcde", "a"}}, {"^\\d{5}$", []string{"12345", "1234"}},
	{"^(a|b|c)$", []string{"a", "c", "d"}}, {"^[A-Z][a-z]+$", []string{"Ab", "ab"}}, {"^a{1,2},b$", []string{"a,b", "aa,b", "aaa,b"}}, {"^\\[a\\]{1,2}$", []string{"[a]", "[a]]"}},
	{"^x\\}{1,2}$", []string{"x}", "x}}", "x"}}, {"^[\\]]{1,2}$", []string{"]", "]]", "]]]"}}, {"^\"a\"$", []string{"\"a\"", "a"}}, {"^a\\\"b$", []string{"a\"b"}},
	{"^a b$", []string{"a b", "a"}}, {"^'a'$", []string{"'a'", "a"}}, {"^k=v$", []string{"k=v"}}, {"^[a-z0-9\\-]+\\.[a-z]{2,}$", []string{"a-b.co", "ab"}},
}

func genRegex(rng *hx.Rng) (string, []string) {
	n := 1 + rng.Intn(3)
	pat := "^"
	samples := []string{"", "", ""}
	for i := 0; i < n; i++ {
		a := hx.Pick(rng, reAtoms)
		q := hx.Pick(rng, reQuants)
		pat += a.src + q.src
		for j := range samples {
			c := q.counts[(j+i)%len(q.counts)]
			for x := 0; x < c; x++ {
				samples[j] += a.samples[(j+x)%len(a.samples)]
			}
		}
	}
	pat += "$"
	samples = append(samples, samples[0]+"z", samples[1]+samples[1]+samples[1]+samples[1]+samples[1])
	if len(samples[2]) > 0 {
		samples = append(samples, samples[2][1:])
	}
	return pat, samples
}

var enumPools = [][]string{
	{"a", "b", "c"}, {"red", "green", "blue"}, {"x"}, {"k=v", "a"}, {"[a]", "b"}, {"a", "{y}"}, {"it's", "a"}, {"a\\b", "c"}, {"a", "b]"}, {"A", "a"}, {"a\"b", "c"},
}

var strDefaults = []string{"a", "abc", "a b", "he\"llo", "a\\b", "[a", "a]", "[a,b]", "{\"k\":\"v\"}", "a=b", "it's", "a\"+\"b", "%s", "x}"}

type ruleGen func(rng *hx.Rng) (rule string, probes []string)

func pickN(rng *hx.Rng, lo, hi int) string { return strconv.Itoa(lo + rng.Intn(hi-lo+1)) }

func strRules() map[string]ruleGen {
	return map[string]ruleGen{
		"required": func(*hx.Rng) (string, []string) { return "required", nil },
		"min":      func(r *hx.Rng) (string, []string) { return "min=" + pickN(r, 1, 4), nil },
		"max":      func(r *hx.Rng) (string, []string) { return "max=" + pickN(r, 3, 8), nil },
		"email":    func(*hx.Rng) (string, []string) { return "email", nil },
		"uuid":     func(*hx.Rng) (string, []string) { return "uuid", nil },
		"enum": func(r *hx.Rng) (string, []string) {
			p := hx.Pick(r, enumPools)
			return "enum=" + strings.Join(p, " "), p
		},
		"regex": func(r *hx.Rng) (string, []string) {
			if r.Chance(40) {
				c := reCorpus[r.Intn(len(reCorpus))]
				return "regex=" + c.pat, c.samples
			}
			p, s := genRegex(r)
			return "regex=" + p, s
		},
		"default": func(r *hx.Rng) (string, []string) { d := hx.Pick(r, strDefaults); return "default=" + d, []string{d} },
	}
}

func numRules() map[string]ruleGen {
	return map[string]ruleGen{
		"required": func(*hx.Rng) (string, []string) { return "required", nil },
		"min":      func(r *hx.Rng) (string, []string) { return "min=" + pickN(r, 0, 4), nil },
		"max":      func(r *hx.Rng) (string, []string) { return "max=" + pickN(r, 5, 10), nil },
		"gt":       func(r *hx.Rng) (string, []string) { return "gt=" + pickN(r, 0, 3), nil },
		"lte":      func(r *hx.Rng) (string, []string) { return "lte=" + pickN(r, 5, 10), nil },
		"default":  func(r *hx.Rng) (string, []string) { return "default=" + pickN(r, 1, 9), nil },
	}
}

func permutations(xs []string) [][]string {
	if len(xs) <= 1 {
		return [][]string{append([]string{}, xs...)}
	}
	var out [][]string
	for i := range xs {
		rest := append(append([]string{}, xs[:i]...), xs[i+1:]...)
		for _, p := range permutations(rest) {
			out = append(out, append([]string{xs[i]}, p...))
		}
	}
	return out
}

func wideCandidates(rng *hx.Rng, thorough bool) []*wcand {
	var cs []*wcand
	seen := map[string]bool{}
	add := func(gotype, tag string, extra []string) {
		if seen[gotype+"\x00"+tag] || strings.ContainsAny(tag, "`\n") {
			return
		}
		seen[gotype+"\x00"+tag] = true
		base := intProbes
		if strings.HasSuffix(gotype, "string") {
			base = strProbes
		}
		ps := append([]string{}, base...)
		have := map[string]bool{}
		for _, p := range ps {
			have[p] = true
		}
		for _, p := range extra {
			if !have[p] {
				have[p] = true
				ps = append(ps, p)
			}
		}
		if strings.HasPrefix(gotype, "*") {
			ps = append(ps, "\x00nil")
		}
		cs = append(cs, &wcand{k: len(cs), gotype: gotype, tag: tag, probes: ps, g: map[string][]string{}, r: map[string][]string{}})
	}
	sep := func() string {
		if rng.Chance(15) {
			return ", "
		}
		return ","
	}
	// every rule with every tricky parameter, alone
	for _, c := range reCorpus {
		add("string", "regex="+c.pat, c.samples)
	}
	for _, p := range enumPools {
		add("string", "enum="+strings.Join(p, " "), p)
	}
	for _, d := range strDefaults {
		add("string", "default="+d, []string{d})
	}
	for _, r := range []string{"required", "min=2", "max=4", "email", "uuid"} {
		add("string", r, nil)
	}
	for _, r := range []string{"required", "min=2", "max=9", "gt=1", "lte=9", "default=3"} {
		add("int", r, nil)
		add("float64", r, nil)
	}
	// combinations, in every order of their rules
	nCombo := 36
	if thorough {
		nCombo = 220
	}
	types := []string{"string", "string", "string", "int", "float64", "int64", "*string"}
	for i := 0; i < nCombo; i++ {
		gotype := hx.Pick(rng, types)
		table := numRules()
		if strings.HasSuffix(gotype, "string") {
			table = strRules()
		}
		var keys []string
		for k := range table {
			keys = append(keys, k)
		}
		sort.Strings(keys)
		n := 2 + rng.Intn(2)
		var rules, extra []string
		used := map[string]bool{}
		if strings.HasSuffix(gotype, "string") && rng.Chance(50) { // uuid / enum take the generator's special constructor path
			k := "enum"
			if rng.Bool() {
				k = "uuid"
			}
			used[k] = true
			r, e := table[k](rng)
			rules, extra = append(rules, r), append(extra, e...)
		}
		for len(rules) < n {
			k := hx.Pick(rng, keys)
			if used[k] || (k == "uuid" && used["enum"]) || (k == "enum" && used["uuid"]) {
				continue
			}
			used[k] = true
			r, e := table[k](rng)
			rules, extra = append(rules, r), append(extra, e...)
		}
		s := sep()
		for _, p := range permutations(rules) {
			add(gotype, strings.Join(p, s), extra)
		}
	}
	// round 5: rule pairs whose parameters are RELATED — equal (a degenerate interval), adjacent (N, N+1) and reversed
	// (min > max: unsatisfiable) — on every field type the wide runner compares behaviour for, in both orders of the rules,
	// with probes at N-1, N, N+1. N is drawn per run; nothing here depends on its value.
	for _, gotype := range []string{"string", "*string", "int", "int64", "float64"} {
		n := 2 + rng.Intn(7)
		isStr := strings.HasSuffix(gotype, "string")
		var around []string
		for d := -1; d <= 2; d++ {
			if isStr {
				around = append(around, strings.Repeat("q", n+d))
			} else {
				around = append(around, strconv.Itoa(n+d))
			}
		}
		lo, hi := [][2]string{{"min", "max"}}, 0
		if isStr {
			lo = append(lo, [2]string{"min", "length"}, [2]string{"length", "max"})
		} else {
			lo = append(lo, [2]string{"gte", "lte"}, [2]string{"gt", "lt"}, [2]string{"min", "lte"}, [2]string{"gte", "max"})
		}
		for _, pr := range lo {
			for _, rel := range [][2]int{{0, 0}, {0, 1}, {1, 0}, {2, 0}} { // equal, adjacent, reversed by one, reversed by two
				a, b := pr[0]+"="+strconv.Itoa(n+rel[0]), pr[1]+"="+strconv.Itoa(n+rel[1])
				add(gotype, a+","+b, around)
				add(gotype, b+","+a, around)
				if hi < 2 { // and as a triple with `required`
					add(gotype, "required,"+a+","+b, around)
					hi++
				}
			}
		}
	}
	// round 4: every kind of field type the writer distinguishes (basicTypeConstructors, time.Time, named structs, pointers,
	// slices, maps, nestings of those, references to the enclosing struct = SELF), each with tags of its kind; these are
	// emitted and type-checked one struct at a time (texpr: emitted text and compile status against the Lean typing judgement)
	for _, k := range kinds {
		tags := kindTags[k.cls]
		if !thorough && k.cls == "num" { // quick: a rotating third of the numeric tags per type
			var sub []string
			for i, t := range tags {
				if (i+len(k.ty)+int(rng.Intn(3)))%3 == 0 || i < 2 {
					sub = append(sub, t)
				}
			}
			tags = sub
		}
		for _, t := range tags {
			if seen[k.ty+"\x00"+t] {
				continue
			}
			add(k.ty, t, nil)
			cs[len(cs)-1].soloOnly = true
		}
	}
	return cs
}

// THE KIND × TAG TABLE (round 4): every kind of field type the writer distinguishes, with the tags of its class.
// Written to kindrows.json on every run; vlib/c13.py renders it as lean/Gozod/Gen/KindRows.lean, the table the theorems
// c13_rows_* of Proofs/C13Typed.lean are stated over (round 4c: regenerated, no hand copy in Lean).
var kindTags = map[string][]string{
	"num": {"", "required", "min=1", "max=100", "gt=0,lte=9", "default=3", "min=1,max=5,required", "gte=2.5", "max=300", "min=-1", "max=4294967296", "max=9223372036854775808", "lt=1.0",
		"positive", "length=2", "gt=-0.5", "lte=+7", "min=007", "max=2.50", "nonnegative,negative"},
	"bool": {"", "required", "default=true", "prefault=false", "min=1"},
	// JSON-valued default= / prefault= parameters (generateSliceValue / generateMapValue)
	"json":  {`default=["a","b"]`, `prefault=[]`, `default=[1,2,3]`, `default=["a",1,true]`, `prefault=[true,false]`, `default=[-5]`, `required,default=["x"],min=1`, `default={"k":"v"}`, `default=[1.5]`, `default=abc`},
	"other": {"", "required", "min=1", "max=3", "required,min=1", "nilable", "length=2", "nonempty", "max=1.5"},
	"str": {"", "nilable,min=1", "prefault=x", "min=1.5", "gt=1", "uuid,email", "enum=a b,required", "enum=a", "regex=^a$,uuid", "default=a b c", "email,email",
		"url", "url,min=3", "required,url", "uuid,url", "enum=a b,min=2", "enum=a b,url", "length=3", "nonempty", "length=x", "positive",
		// round 4c: an import written for a rule whose call is not (regex on the Enum path), or for the TEXT of a parameter
		"regex=^a$,enum=a b", "enum=a b,regex=^a$,required", "default=time.Time", "enum=time.Time other"},
}
var kinds = []struct{ ty, cls string }{
	{"int8", "num"}, {"int16", "num"}, {"int32", "num"}, {"uint", "num"}, {"uint8", "num"}, {"uint16", "num"}, {"uint32", "num"}, {"uint64", "num"},
	{"float32", "num"}, {"*float32", "num"}, {"*int8", "num"}, {"*uint64", "num"}, {"int", "num"}, {"float64", "num"}, {"*int64", "num"},
	{"bool", "bool"}, {"*bool", "bool"}, {"string", "str"}, {"*string", "str"},
	{"complex128", "other"}, {"time.Time", "other"}, {"*time.Time", "other"}, {"[]time.Time", "other"}, {"Inner", "other"}, {"*Inner", "other"}, {"[]Inner", "other"}, {"[]*Inner", "other"},
	{"map[string]Inner", "other"}, {"map[string]*Inner", "other"}, {"[]string", "other"}, {"[]*string", "other"}, {"[][]int", "other"}, {"*[]int", "other"}, {"*[]*Inner", "other"},
	{"map[string]int", "other"}, {"map[string][]int", "other"}, {"map[string]map[string]bool", "other"}, {"*map[string]string", "other"}, {"map[int]string", "other"}, {"**int", "other"},
	{"map[string]*time.Time", "other"}, {"map[string]*string", "other"}, {"map[string]*[]int", "other"}, {"map[string]time.Time", "other"}, {"any", "other"}, {"[]any", "other"},
	{"map[string]any", "other"}, {"*map[string]*Inner", "other"}, {"[]*time.Time", "other"}, {"map[string][]*Inner", "other"}, {"[]map[string]int", "other"},
	{"[]string", "json"}, {"[]int", "json"}, {"[]bool", "json"}, {"[]int64", "json"}, {"*[]string", "json"}, {"[]*string", "json"}, {"map[string]string", "json"},
	{"*SELF", "other"}, {"[]SELF", "other"}, {"[]*SELF", "other"}, {"map[string]SELF", "other"}, {"map[string]*SELF", "other"}, {"[][]*SELF", "other"}, {"*[]SELF", "other"},
}

func writeKindRows(path string) {
	type row struct {
		Ty  string `json:"ty"`
		Tag string `json:"tag"`
	}
	var rows []row
	for _, k := range kinds {
		for _, t := range kindTags[k.cls] {
			rows = append(rows, row{k.ty, t})
		}
	}
	b, _ := json.Marshal(rows)
	os.WriteFile(path, b, 0o644)
}

func ruleNames(tag string) string {
	_, rs := renderRefRules(tag)
	if len(rs) == 0 {
		return "-"
	}
	ns := make([]string, len(rs))
	for i, r := range rs {
		n := regexp.MustCompile(`[^A-Za-z0-9_]`).ReplaceAllString(r.Name, "?")
		if n == "" {
			n = "?"
		}
		ns[i] = n
	}
	return strings.Join(ns, "+")
}

var wLine = regexp.MustCompile(`^\t\t"([A-Za-z0-9_]+)": (.*),$`)

// rawExprs reads the schema expression of every field of a generated file as TEXT (the file need not parse).
func rawExprs(path string) map[string]string {
	res := map[string]string{}
	b, err := os.ReadFile(path)
	if err != nil {
		return res
	}
	for _, line := range strings.Split(string(b), "\n") {
		if m := wLine.FindStringSubmatch(line); m != nil {
			res[m[1]] = m[2]
		}
	}
	return res
}

var wErrLine = regexp.MustCompile(`(?m)^(?:\./)?(?:ws/)?(s\d+)_gen\.go:\d+:\d+: (.*)$`)
var mustCompileArg = regexp.MustCompile(`regexp\.MustCompile\(("(?:[^"\\]|\\.)*")\)`)

type wplace struct {
	st, field string
	c         *wcand
}

func runWide(o *hx.Out, tmp, gen string, rng *hx.Rng, thorough bool) {
	cs := wideCandidates(rng, thorough)
	for _, c := range cs {
		c.names = ruleNames(c.tag)
	}
	// ---- alone: one struct per candidate, many structs per file, two files
	dirS := filepath.Join(tmp, "ws")
	os.MkdirAll(dirS, 0o755)
	var f [2]strings.Builder
	for _, c := range cs {
		c.gotype = strings.ReplaceAll(c.gotype, "SELF", fmt.Sprintf("S%d", c.k))
		if c.tag == "" { // an untagged field is only looked at under a //go:generate directive
			fmt.Fprintf(&f[c.k%2], "//go:generate gozodgen\ntype S%d struct {\n\tF %s\n}\n\n", c.k, c.gotype)
			continue
		}
		fmt.Fprintf(&f[c.k%2], "type S%d struct {\n\tF %s %s\n}\n\n", c.k, c.gotype, structTag(c.tag))
	}
	f[0].WriteString("type Inner struct{ A string }\n\n")
	for i := range f {
		head := "package main\n\n"
		if strings.Contains(f[i].String(), "time.Time") {
			head += "import \"time\"\n\n"
		}
		body := f[i].String()
		f[i].Reset()
		f[i].WriteString(head + body)
	}
	os.WriteFile(filepath.Join(dirS, "cells_a.go"), []byte(f[0].String()), 0o644)
	os.WriteFile(filepath.Join(dirS, "cells_b.go"), []byte(f[1].String()), 0o644)
	if out, rc, to := goRun(tmp, 2*time.Minute, gen, dirS); rc != 0 || to {
		o.Emit("c13 gen # wide candidates, one struct each: "+strconv.Itoa(len(cs))+" structs in two files; "+firstLine(out), "exit:"+strconv.Itoa(rc))
		return
	}
	aside := filepath.Join(tmp, "ws-aside")
	os.MkdirAll(aside, 0o755)
	for _, c := range cs {
		name := fmt.Sprintf("s%d_gen.go", c.k)
		path := filepath.Join(dirS, name)
		raw := rawExprs(path)
		c.expr, c.hasX = raw["F"]
		_, _, err := fieldExprs(path)
		if err != nil {
			c.solo, c.errmsg = "noparse", firstLine(err.Error())
			os.Rename(path, filepath.Join(aside, name))
			continue
		}
		c.solo = "ok"
	}
	os.WriteFile(filepath.Join(dirS, "zz_stop.go"), []byte("package main\n\nfunc main() {}\n\nvar zzStopAfterTypeCheck int = \"type-check only\"\n"), 0o644)
	out, rc, _ := goRun(tmp, 20*time.Minute, "go", "build", "-gcflags=-e", "-o", os.DevNull, "./ws")
	if rc == 0 {
		die("type-check-only build of the wide candidates unexpectedly succeeded")
	}
	bad := map[string]string{}
	for _, m := range wErrLine.FindAllStringSubmatch(out, -1) {
		if _, seen := bad[m[1]]; !seen {
			bad[m[1]] = m[2]
		}
	}
	for _, line := range strings.Split(out, "\n") {
		if strings.Contains(line, ".go:") && !strings.Contains(line, "zz_stop.go") && !wErrLine.MatchString(line) {
			die("wide candidates: an error could not be attributed to a generated file: %s", line)
		}
	}
	for _, c := range cs {
		if msg, ok := bad[fmt.Sprintf("s%d", c.k)]; ok && c.solo == "ok" {
			c.solo, c.errmsg = "notypecheck", firstLine(msg)
		}
		if c.solo == "ok" { // regexp.MustCompile("…") of a pattern that does not compile panics inside Schema()
			for _, m := range mustCompileArg.FindAllStringSubmatch(c.expr, -1) {
				if s, err := strconv.Unquote(m[1]); err == nil {
					if _, err := regexp.Compile(s); err != nil {
						c.solo, c.errmsg = "schema-panics", firstLine(err.Error())
					}
				}
			}
		}
	}
	// ---- wide: several files, several structs per file, many fields per struct, the same tag more than once
	var okc []*wcand
	for _, c := range cs {
		if c.solo == "ok" && !c.soloOnly {
			okc = append(okc, c)
		}
	}
	for i := len(okc) - 1; i > 0; i-- {
		j := rng.Intn(i + 1)
		okc[i], okc[j] = okc[j], okc[i]
	}
	const distinctPer = 10
	var structs [][]wplace
	var earlier []*wcand
	for i := 0; i < len(okc); i += distinctPer {
		end := i + distinctPer
		if end > len(okc) {
			end = len(okc)
		}
		own := okc[i:end]
		var members []*wcand
		members = append(members, own...)
		for j := 0; j < 4 && j < len(own); j++ { // the same tag again in the same struct
			members = append(members, own[rng.Intn(len(own))])
		}
		for j := 0; j < 3 && len(earlier) > 0; j++ { // … and tags of earlier structs (other struct, maybe other file)
			members = append(members, earlier[rng.Intn(len(earlier))])
		}
		for x := len(members) - 1; x > 0; x-- {
			y := rng.Intn(x + 1)
			members[x], members[y] = members[y], members[x]
		}
		st := fmt.Sprintf("W%d", len(structs))
		var ps []wplace
		for fi, c := range members {
			ps = append(ps, wplace{st: st, field: fmt.Sprintf("F%d", fi), c: c})
		}
		structs = append(structs, ps)
		earlier = append(earlier, own...)
	}
	if len(structs) > 1 { // one struct declared twice over (same fields, same tags) under another name, in another file
		src := structs[rng.Intn(len(structs))]
		st := fmt.Sprintf("W%d", len(structs))
		var ps []wplace
		for _, p := range src {
			ps = append(ps, wplace{st: st, field: p.field, c: p.c})
		}
		structs = append(structs, ps)
	}
	dirW := filepath.Join(tmp, "ww")
	os.MkdirAll(dirW, 0o755)
	const nFiles = 3
	var wf [nFiles]strings.Builder
	for i := range wf {
		wf[i].WriteString("package main\n\n")
	}
	for si, ps := range structs {
		b := &wf[si%nFiles]
		fmt.Fprintf(b, "type %s struct {\n", ps[0].st)
		for _, p := range ps {
			fmt.Fprintf(b, "\t%s %s %s\n", p.field, p.c.gotype, structTag(p.c.tag))
		}
		b.WriteString("}\n\n")
	}
	for i := range wf {
		os.WriteFile(filepath.Join(dirW, fmt.Sprintf("models_%d.go", i)), []byte(wf[i].String()), 0o644)
	}
	wgen := "ok"
	if out, rc, to := goRun(tmp, 2*time.Minute, gen, dirW); rc != 0 || to {
		wgen = "exit:" + strconv.Itoa(rc)
		fmt.Fprintln(os.Stderr, firstN(out, 2000))
	}
	nf := 0
	for _, ps := range structs {
		nf += len(ps)
	}
	o.Emit(fmt.Sprintf("c13 gen # wide package: %d structs in %d files, %d fields, every tag accepted when alone", len(structs), nFiles, nf), wgen)
	// ---- reports on the candidates
	for _, c := range cs {
		o.Emit(fmt.Sprintf("c13 wcompile %s %s %s # struct S%d { F %s %s } err=%q expr=%s", c.gotype, c.names, runes(c.tag), c.k, c.gotype, structTag(c.tag), c.errmsg, c.expr), c.solo)
		o.Count("wcompile:" + c.solo)
		if c.hasX && !c.soloOnly {
			o.Emit(fmt.Sprintf("c13 wexpr %s %s %s # F %s %s -> %s", c.gotype, c.names, runes(c.tag), c.gotype, structTag(c.tag), c.expr), "expr="+runes(c.expr))
		}
		if c.hasX {
			st := c.solo
			if st == "schema-panics" {
				st = "ok" // the file type-checks
			}
			o.Emit(fmt.Sprintf("c13 texpr %s %s %s S%d # type S%d struct { F %s %s } -> %s   %s", c.gotype, c.names, runes(c.tag), c.k, c.k, c.gotype, structTag(c.tag), c.expr, c.errmsg), "st="+st+" expr="+runes(c.expr))
			o.Count("texpr:" + st)
		}
	}
	if wgen != "ok" {
		return
	}
	normaliseStamps(dirW)
	occ := map[int]int{}
	for _, ps := range structs {
		raw := rawExprs(filepath.Join(dirW, strings.ToLower(ps[0].st)+"_gen.go"))
		for _, p := range ps {
			occ[p.c.k]++
			obs := "same"
			if raw[p.field] != p.c.expr {
				obs = "differ"
			}
			o.Emit(fmt.Sprintf("c13 wsame %s %s %s # %s.%s (occurrence %d of this tag text in the run; struct of %d fields): %s   alone: %s", p.c.gotype, p.c.names, runes(p.c.tag),
				p.st, p.field, occ[p.c.k], len(ps), raw[p.field], p.c.expr), obs)
			o.Count("wsame:" + obs)
		}
	}
	// ---- runner
	var rb strings.Builder
	rb.WriteString(strings.Replace(strings.Replace(runnerHead, "func runBlock", "func runBlockUnused", 1), "\"verifharness/hx\"", "\"strconv\"\n\n\t\"verifharness/hx\"", 1))
	rb.WriteString("\nvar _ = strconv.Itoa\n\nfunc sp(s string) *string { return &s }\n\n")
	for _, ps := range structs {
		st := ps[0].st
		maxN := 0
		fmt.Fprintf(&rb, "func run%s() {\n\tvar g, r *gozod.ZodStruct[%s, %s]\n\tif p := hx.Safely(func() { g = %s{}.Schema() }); p != \"\" {\n\t\tg = nil\n\t}\n\tif p := hx.Safely(func() { r = gozod.FromStruct[%s]() }); p != \"\" {\n\t\tr = nil\n\t}\n", st, st, st, st, st)
		for _, p := range ps {
			if len(p.c.probes) > maxN {
				maxN = len(p.c.probes)
			}
			var lits []string
			for _, v := range p.c.probes {
				switch {
				case v == "\x00nil":
					lits = append(lits, "nil")
				case p.c.gotype == "*string":
					lits = append(lits, "sp("+strconv.Quote(v)+")")
				case p.c.gotype == "string":
					lits = append(lits, strconv.Quote(v))
				default:
					lits = append(lits, v)
				}
			}
			fmt.Fprintf(&rb, "\tp%s := []%s{%s}\n", p.field, p.c.gotype, strings.Join(lits, ", "))
		}
		fmt.Fprintf(&rb, "\tfor i := 0; i < %d; i++ {\n\t\tvar v %s\n", maxN, st)
		for _, p := range ps {
			fmt.Fprintf(&rb, "\t\tv.%s = p%s[i%%len(p%s)]\n", p.field, p.field, p.field)
		}
		rb.WriteString("\t\tgb, gf := map[string]bool{}, \"p\"\n\t\tif g != nil {\n\t\t\tgb, gf = verdicts(g, v)\n\t\t}\n\t\trb, rf := map[string]bool{}, \"p\"\n\t\tif r != nil {\n\t\t\trb, rf = verdicts(r, v)\n\t\t}\n")
		for _, p := range ps {
			fmt.Fprintf(&rb, "\t\tif i < len(p%s) {\n\t\t\tfmt.Println(%q, %q, i, b01(gb, gf, %q), b01(rb, rf, %q))\n\t\t}\n", p.field, st, p.field, p.field, p.field)
		}
		rb.WriteString("\t}\n}\n\n")
	}
	rb.WriteString("func main() {\n")
	for _, ps := range structs {
		fmt.Fprintf(&rb, "\trun%s()\n", ps[0].st)
	}
	rb.WriteString("}\n")
	os.WriteFile(filepath.Join(dirW, "runner.go"), []byte(rb.String()), 0o644)
	bin := filepath.Join(tmp, "runnerW")
	if out, rc, _ := goBuild(tmp, 30*time.Minute, "build", "-trimpath", "-o", bin, "./ww"); rc != 0 {
		if !regexp.MustCompile(`(?m)\.go:\d+:`).MatchString(out) {
			die("the Go toolchain failed on the wide package without a source diagnostic (build cache trimmed concurrently?):\n%s", firstN(out, 2000))
		}
		o.Emit("c13 wbuild # the wide package (every field's tag compiles when alone) + runner: "+firstLine(strings.TrimPrefix(out, "# c13tmp/ww\n")), "fail")
		fmt.Fprintln(os.Stderr, firstN(out, 3000))
		return
	}
	o.Emit("c13 wbuild # the wide package + runner", "ok")
	outp, rc, _ := goRun(tmp, 10*time.Minute, bin)
	if rc != 0 {
		die("wide runner failed:\n%s", firstN(outp, 3000))
	}
	byPlace := map[string]wplace{}
	for _, ps := range structs {
		for _, p := range ps {
			byPlace[p.st+"."+p.field] = p
		}
	}
	type obsT struct{ g, r string }
	got := map[string]map[int]obsT{}
	for _, line := range strings.Split(outp, "\n") {
		t := strings.Fields(line)
		if len(t) != 5 {
			continue
		}
		key := t[0] + "." + t[1]
		if _, ok := byPlace[key]; !ok {
			die("unexpected runner line %q", line)
		}
		i, _ := strconv.Atoi(t[2])
		if got[key] == nil {
			got[key] = map[int]obsT{}
		}
		got[key][i] = obsT{t[3], t[4]}
	}
	occ = map[int]int{}
	for _, ps := range structs {
		for _, p := range ps {
			occ[p.c.k]++
			key := p.st + "." + p.field
			for pi, pv := range p.c.probes {
				ob, ok := got[key][pi]
				if !ok {
					die("runner reported nothing for %s probe %d", key, pi)
				}
				shown := pv
				if pv == "\x00nil" {
					shown = "nil"
					pv = "\x00"
				}
				ref, _ := renderRefRules(p.c.tag)
				o.Emit(fmt.Sprintf("c13 wcell %s %s %s %s | %s # %s.%s %s %s = %q (occurrence %d of this tag text in the run) expr=%s", p.c.gotype, p.c.names, runes(p.c.tag), runes(pv), ref,
					p.st, p.field, p.c.gotype, structTag(p.c.tag), shown, occ[p.c.k], p.c.expr), "g="+ob.g+" r="+ob.r)
				o.Count("wcell:g" + ob.g + "r" + ob.r)
			}
		}
	}
}
