// Round 4: integer histories, predicted by the Lean history machine with the `keepChecks` flavour of CloneFrom
// (`*z.internals = *src.internals; z.internals.Checks = orig`, types/integer.go:597-605).
//
// The driver's environment is the string one, so an int n >= 0 is shipped in unary: the byte string "x"*n.
// Min(k) / Max(k) are then the length checks `min k` / `max k`, and an Overwrite is one of the two members of
// the harness' callback family that keep a string in unary (drop the first byte, reverse). Refinements (round 4b) are
// the harness' predicate family evaluated on the unary string. Since /repo 7db47f1 an accepted nil is not run through
// refinements at all (before: ZodIntegerTyped.Refine decided about nil by the
// receiver's IsNilable() at attachment time - recipes attach checks to the bare constructor, so a refinement always
// reported nil, which is the legacy rule with ctorPtr = false, what the driver still passes for `hist int`).
package main

import (
	"fmt"
	"reflect"
	"strings"

	"github.com/kaptinlin/gozod"
	"github.com/kaptinlin/gozod/core"

	"verifharness/hx"
)

func unary(n int) string {
	if n < 0 {
		n = 0
	}
	return strings.Repeat("x", n)
}

func buildInt(ctorPtr bool, cs []chk) any {
	owf := func(k int) func(int) int { return func(v int) int { return len(customOw(k, unary(v))) } }
	if ctorPtr {
		s := gozod.IntPtr()
		for pos, c := range cs {
			switch c.kind {
			case "min":
				s = s.Min(int64(c.n), msg(pos))
			case "max":
				s = s.Max(int64(c.n), msg(pos))
			case "ow":
				s = s.Overwrite(owf(c.k))
			case "ref":
				k := c.k
				s = s.Refine(func(v int) bool { return customPred(k, unary(v)) }, core.CustomParams{Error: msg(pos), Abort: c.abort})
			}
		}
		return s
	}
	s := gozod.Int()
	for pos, c := range cs {
		switch c.kind {
		case "min":
			s = s.Min(int64(c.n), msg(pos))
		case "max":
			s = s.Max(int64(c.n), msg(pos))
		case "ow":
			s = s.Overwrite(owf(c.k))
		case "ref":
			k := c.k
			s = s.Refine(func(v int) bool { return customPred(k, unary(v)) }, core.CustomParams{Error: msg(pos), Abort: c.abort})
		}
	}
	return s
}

func genCheckInt(r *hx.Rng, n int) chk {
	switch r.Intn(5) {
	case 0:
		return chk{kind: "min", n: max(0, n-1+r.Intn(3))}
	case 1:
		return chk{kind: "max", n: max(0, n-1+r.Intn(3))}
	case 2, 3:
		// a refinement: on nil (Optional / Nilable / typed nil pointer) this is where Parse and StrictParse used to part.
		// ZodIntegerTyped.Refine lets nil pass only when the RECEIVER was nilable when the check was attached
		// (types/integer.go:450-453); recipes attach the checks to the bare constructor, so a refinement reports nil.
		return chk{kind: "ref", k: r.Intn(6), abort: r.Chance(35)}
	}
	return chk{kind: "ow", k: hx.Pick(r, []int{1, 2, 5, 6})}
}

func applyIntMod(schema any, tok string) any {
	parts := strings.SplitN(tok, ":", 2)
	meth := reflect.ValueOf(schema).MethodByName(parts[0])
	// Default(int64), Prefault(int64), DefaultFunc(func() R), PrefaultFunc(func() R): the argument is built for the
	// parameter type the method declares (R is int or *int)
	mkArg := func(t reflect.Type, v int) reflect.Value {
		if t.Kind() == reflect.Pointer {
			p := reflect.New(t.Elem())
			p.Elem().SetInt(int64(v))
			return p
		}
		x := reflect.New(t).Elem()
		x.SetInt(int64(v))
		return x
	}
	switch parts[0] {
	case "Default", "Prefault":
		v := len(unhexs(parts[1]))
		return meth.Call([]reflect.Value{mkArg(meth.Type().In(0), v)})[0].Interface()
	case "DefaultFunc", "PrefaultFunc":
		v := len(unhexs(parts[1]))
		ft := meth.Type().In(0)
		fn := reflect.MakeFunc(ft, func([]reflect.Value) []reflect.Value { return []reflect.Value{mkArg(ft.Out(0), v)} })
		return meth.Call([]reflect.Value{fn})[0].Interface()
	}
	return meth.Call(nil)[0].Interface()
}

func drawIntMod(r *hx.Rng) string {
	name := hx.Pick(r, classicMods)
	switch name {
	case "Default", "Prefault", "DefaultFunc", "PrefaultFunc":
		return name + ":" + hexs(unary(r.Intn(7)))
	}
	return name
}

type irecipe struct {
	ctorPtr bool
	cs      []chk
	mods    []string
}

func (s irecipe) build() (schema any) {
	hx.Safely(func() {
		x := buildInt(s.ctorPtr, s.cs)
		for _, m := range s.mods {
			x = applyIntMod(x, m)
		}
		schema = x
	})
	return schema
}

func (s irecipe) tok() string {
	var ctoks []string
	for _, c := range s.cs {
		ctoks = append(ctoks, c.tokens())
	}
	return strings.Join(strings.Fields(fmt.Sprintf("%s %s ; %d %s", hx.B01(s.ctorPtr), strings.Join(s.mods, " "), len(s.cs), strings.Join(ctoks, " "))), " ")
}

func renderInt(res any, err error) string {
	if err != nil {
		return renderErr(err)
	}
	switch v := res.(type) {
	case int:
		return "ok:" + hexs(unary(v))
	case *int:
		if v == nil {
			return "ok:nil"
		}
		return "ok:" + hexs(unary(*v))
	case nil:
		return "ok:nil"
	}
	return fmt.Sprintf("ok:?%T", res)
}

func isIntPtrSchema(s any) bool {
	sm := reflect.ValueOf(s).MethodByName("StrictParse")
	return sm.IsValid() && sm.Type().In(0).Kind() == reflect.Pointer
}

func runHistInt(o *hx.Out, r *hx.Rng, n int) {
	for i := 0; i < n; i++ {
		in := r.Intn(8)
		draw := func() irecipe {
			s := irecipe{ctorPtr: r.Chance(40)}
			if r.Chance(70) {
				for j, m := 0, 1+r.Intn(4); j < m; j++ {
					s.cs = append(s.cs, genCheckInt(r, in))
				}
			}
			for j, m := 0, r.Intn(3); j < m; j++ {
				s.mods = append(s.mods, drawIntMod(r))
			}
			return s
		}
		ra, rb := draw(), draw()
		if ra.build() == nil || rb.build() == nil {
			continue
		}
		if r.Chance(80) { // same Go type, so that CloneFrom is not a no-op
			for try := 0; try < 8 && (rb.build() == nil || reflect.TypeOf(ra.build()) != reflect.TypeOf(rb.build())); try++ {
				rb = draw()
			}
			if rb.build() == nil {
				continue
			}
		}
		f := &family{
			ty:    "int",
			mk:    []func() any{ra.build, rb.build},
			mkTok: []string{ra.tok(), rb.tok()},
			fresh: func(like any) (any, bool) {
				if isIntPtrSchema(like) {
					return gozod.IntPtr(), true
				}
				return gozod.Int(), true
			},
			chain: func(s any, st step, rel any) (out any, ok bool) {
				pm := hx.Safely(func() { out = applyIntMod(s, st.name) })
				return out, pm == "" && out != nil
			},
			value: func(s any, nilIn bool) (reflect.Value, bool) {
				isPtr := isIntPtrSchema(s)
				switch {
				case nilIn && isPtr:
					return reflect.ValueOf((*int)(nil)), true
				case nilIn:
					return reflect.Zero(anyT), true
				case isPtr:
					v := in
					return reflect.ValueOf(&v), true
				}
				return reflect.ValueOf(in), true
			},
			render: renderInt,
		}
		ops, t := f.drawOps(r, func(any) (step, string) { m := drawIntMod(r); return step{name: m}, m })
		fl := &frameLog{wrote: map[string]bool{}}
		heap := f.exec(ops, true, fl)
		if t >= len(heap) || heap[t] == nil {
			continue
		}
		isPtr := isIntPtrSchema(heap[t])
		type inp struct {
			tok string
			v   reflect.Value
		}
		sv := in
		ins := []inp{{"nil", reflect.Zero(anyT)}}
		if isPtr {
			ins = append(ins, inp{hexs(unary(in)) + "*", reflect.ValueOf(&sv)}, inp{"nilptr", reflect.ValueOf((*int)(nil))})
		} else {
			ins = append(ins, inp{hexs(unary(in)), reflect.ValueOf(in)})
		}
		descr := fmt.Sprintf("%s // %s // %s // t=%d in=%s", f.mkTok[0], f.mkTok[1], opsTok(ops), t, hexs(unary(in)))
		for _, x := range ins {
			obs, ok := f.compare(r, ops, t, x.v, heap, fl)
			if !ok {
				continue
			}
			o.Emit(fmt.Sprintf("c09 hist int %s | %s #int", descr, x.tok), obs)
			o.Count("hist:int-keepChecks")
			o.Count("hist-route:" + routeOf(ops))
		}
		o.Emit(fmt.Sprintf("c09 frame int %s | - #int", descr), f.frame(ops, t, heap, fl))
	}
}
