/-
  Line handler for C09.
    c09 str <ctorPtr 0/1> <modifier>* ; <n> <check>*n | <input> @ <implementation observation>
    c09 gen …                                          | …       @ <implementation observation>
  modifier := Optional | Nilable | Nullish | NonOptional | Default:<hex> | DefaultFunc:<hex> | Prefault:<hex> | PrefaultFunc:<hex>
  check    := as in C10 (no when-guards)
  input    := nil | nilptr | <hex> | <hex>* | foreign
  observation := P=<out>;S=<out>;A=<out>;MP=<out>;MS=<out>;MA=<out>      (S/MS = n/a when the input is not of the strict type)
  out := ok:<hex> | ok:nil | err:checks:<p,p,…> | err:nonoptional | err:type | …
    c09 hist str <schema A> // <schema B> // <hop>* // t=<k> in=<hex> | <input> @ <observation>;H=<ok|flags>
      schema := <ctorPtr 0/1> <modifier>* ; <n> <check>*n      (heap cells 0 and 1)
      hop    := run:<P|S|A|MP|MS|MA>:<j>:<v|n> | clone:<dst>:<src> | chain:<j>:<modifier> | fresh:<j>
      The history is run on `Prim.exec`'s step function with the `pinned` implementation; the model
      observation is what the six entry points answer on cell k afterwards.
    c09 hist gen … / c09 frame …   echoed (frame: the model's answer is the constant `frame:same`)
  Output "<model observation>\t<spec verdict>": the spec verdict echoes the observation when all entry
  points agree (Parse = ParseAny = MustParse = MustParseAny, and StrictParse = MustStrictParse = Parse
  when applicable); for `gen` lines (types whose engine path is not modelled) the model echoes too.
-/
import Gozod.Model.Prim
import Gozod.Model.Str
import Gozod.Drv.C10
import Gozod.Gen.EntryPoints
namespace Gozod.Drv.C09
open Gozod Gozod.Str Gozod.Prim Gozod.Drv.C10

abbrev SI := Internals SPred SOw Bytes

def applyMod (i : SI) (tok : String) : Option SI :=
  match tok.splitOn ":" with
  | ["Optional"] => some { i with optional := true, ptrSchema := true }
  | ["Nilable"] => some { i with nilable := true, ptrSchema := true }
  | ["Nullish"] => some { i with optional := true, nilable := true, ptrSchema := true }
  | ["NonOptional"] => some { i with optional := false, nonOptional := true, ptrSchema := false }
  | ["Default", h] => (unhex h).map fun b => { i with dv := some b }
  | ["DefaultFunc", h] => (unhex h).map fun b => { i with df := some b }
  | ["Prefault", h] => (unhex h).map fun b => { i with pv := some b }
  | ["PrefaultFunc", h] => (unhex h).map fun b => { i with pf := some b }
  | _ => none

def renderOut : Out Bytes → String
  | .okVal v => "ok:" ++ hex v
  | .okNil => "ok:nil"
  | .errChecks ps => "err:checks:" ++ ",".intercalate (ps.map toString)
  | .errNonOptional => "err:nonoptional"
  | .errType => "err:type"

def isRefineP : SPred → Bool
  | .custom _ => true
  | _ => false

/-- All entry points agree in an observation `P=..;S=..;A=..;MP=..;MS=..;MA=..`. -/
def judge (obs : String) : Option String :=
  let kv := (obs.splitOn ";").filterMap fun f =>
    match f.splitOn "=" with
    | k :: rest => some (k, "=".intercalate rest)
    | _ => none
  let get := fun k => (kv.find? (·.1 == k)).map (·.2)
  match get "H" with
  | some h => if h != "ok" then some ("H-" ++ h) else judgeP get
  | none => judgeP get
where judgeP (get : String → Option String) : Option String :=
  match get "P" with
  | none => some "no-parse-observation"
  | some p =>
    let bad := ["A", "MP", "MA", "S", "MS"].find? fun k =>
      match get k with
      | some v => v != "n/a" && v != p
      | none => true
    bad.map fun k => k ++ "-differs-from-Parse"

abbrev HCell := Cell SPred SOw Bytes Unit

def parseSchema (toks : List String) (refineNilByCtor : Bool := true) : Option SI :=
  match toks with
  | cp :: rest =>
    let mods := rest.takeWhile (· ≠ ";")
    let after := (rest.dropWhile (· ≠ ";")).drop 1
    match after with
    | n :: ctoks =>
      match n.toNat?.bind (fun n => parseChecks n ctoks) with
      | some (cs, []) =>
        let base : SI := { checks := cs, ptrSchema := cp == "1", ctorPtr := refineNilByCtor && cp == "1", isRefine := isRefineP }
        mods.foldlM applyMod base
      | _ => none
    | _ => none
  | _ => none

def parseEP : String → Option EP
  | "P" => some .parse | "S" => some .strict | "A" => some .parseAny
  | "MP" => some .mustParse | "MS" => some .mustStrict | "MA" => some .mustParseAny
  | _ => none

/-- One hop of the harness, turned into a `Prim.Op` against the current heap and executed by `Prim.step`. -/
def hopStep (ck : CloneKind) (byCtor : Bool) (inB : Bytes) (h : List HCell) (tok : String) : Option (List HCell) :=
  match tok.splitOn ":" with
  | ["run", ep, j, w] => do
    let ep ← parseEP ep
    let j ← j.toNat?
    let c ← h[j]?
    let x : Input Bytes := match c.cfg.ptrSchema, w == "n" with
      | true, true => .nilPtr
      | false, true => .nil
      | true, false => .ptr inB
      | false, false => .val inB
    -- the harness skips strict calls whose input is not of the static type (untyped nil on a value schema)
    pure (step pinned Str.env h (.run ep j x)).1
  | ["clone", d, s] => do
    let d ← d.toNat?
    let s ← s.toNat?
    let _ ← h[d]?
    let _ ← h[s]?
    pure (step pinned Str.env h (.cloneFrom ck d s)).1
  | "chain" :: j :: modTok => do
    let j ← j.toNat?
    let c ← h[j]?
    let _ ← applyMod c.cfg (":".intercalate modTok)
    pure (step pinned Str.env h (.chain j fun c => (applyMod c (":".intercalate modTok)).getD c)).1
  | ["fresh", j] => do
    let j ← j.toNat?
    let c ← h[j]?
    pure (step pinned Str.env h (.mk { ptrSchema := c.cfg.ptrSchema, ctorPtr := byCtor && c.cfg.ptrSchema, isRefine := isRefineP })).1
  | _ => none

def parseInput (inTok : String) : Option (Input Bytes) :=
  if inTok == "nil" then some .nil
  else if inTok == "nilptr" then some .nilPtr
  else if inTok == "foreign" then some .foreign
  else if inTok.endsWith "*" then (unhex (inTok.dropEnd 1).toString).map .ptr
  else (unhex inTok).map .val

/-- Does the schema type have a `MustParseAny` at all (regenerated entry-point table)? -/
def hasMustParseAny (goType : String) : Bool :=
  match EntryPoints.Table.find Gen.EntryPoints.table goType "MustParseAny" with
  | some .absent => false
  | none => false
  | _ => true

def observe (i : SI) (x : Input Bytes) (mpa : Bool := true) : String :=
  let p := renderOut (parse Str.env i x)
  let strictOk : Bool := match x with
    | .val _ => !i.ptrSchema
    | .ptr _ => i.ptrSchema
    | .nilPtr => i.ptrSchema
    | _ => false
  let s := if strictOk then renderOut (strictParse Str.env i x) else "n/a"
  let ma := if mpa then p else "n/a"
  s!"P={p};S={s};A={p};MP={p};MS={s};MA={ma}"

/-- `byCtor`: a refinement lets nil pass when the checks were attached to the pointer constructor (strings); for integers
    (`false`) it never does: `ZodIntegerTyped.Refine` asks the receiver's `IsNilable()` at attachment, and the recipes attach
    the checks to the bare constructor. -/
def handleHistStr (ck : CloneKind) (goType : String) (body input : String) (byCtor : Bool := true) : Option String := do
  match body.splitOn " // " with
  | [a, b, hops, tail] =>
    let ca ← parseSchema ((a.splitOn " ").filter (· ≠ "")) byCtor
    let cb ← parseSchema ((b.splitOn " ").filter (· ≠ "")) byCtor
    let (t, inB) ← match (tail.splitOn " ").filter (· ≠ "") with
      | [t, i] => do
        let t ← (t.drop 2).toString.toNat?
        let i ← unhex (i.drop 3).toString
        pure (t, i)
      | _ => none
    let h0 : List HCell := (step pinned Str.env (step pinned Str.env [] (.mk ca)).1 (.mk cb)).1
    let h ← ((hops.splitOn " ").filter (· ≠ "")).foldlM (hopStep ck byCtor inB) h0
    let c ← h[t]?
    let x ← parseInput input.trimAscii.toString
    pure (observe c.cfg x (hasMustParseAny goType) ++ ";H=ok")
  | _ => none

/-- `c09 table`: the rows of the regenerated entry-point table the expectation does not cover. -/
def tableReport : String :=
  let off := EntryPoints.tableOffenders Gen.EntryPoints.table ++
    (EntryPoints.wrapperOffenders Gen.EntryPoints.table).map (· ++ " is not the plain wrapper") ++
    (EntryPoints.uncovered Gen.EntryPoints.table).map (· ++ " has no agreement theorem and no disposition") ++
    EntryPoints.baseOffenders Gen.EntryPoints.table ++
    EntryPoints.transcriptionOffenders Gen.EntryPoints.table Gen.EntryPoints.stmts
  if off.isEmpty then "table-ok" else " ; ".intercalate off

def handleLine (line : String) : String :=
  if line.startsWith "c09 table" then tableReport ++ "\t-" else
  let (lhs, impl) := match line.splitOn " @ " with
    | [a, b] => (a, some b)
    | _ => (line, none)
  let spec := match impl with
    | none => "-"
    | some io => match judge io with
      | none => io
      | some why => "spec-rejects:" ++ why
  match lhs.splitOn " | " with
  | [schema, input] =>
    match (schema.splitOn " ").filter (· ≠ "") with
    | "c09" :: "gen" :: _ => (impl.getD "-") ++ "\t" ++ spec
    | "c09" :: "ill" :: _ => (impl.getD "-") ++ "\t" ++ spec
    | "c09" :: "hist" :: "gen" :: _ => (impl.getD "-") ++ "\t" ++ spec
    | "c09" :: "frame" :: _ => "frame:same" ++ "\t" ++ (impl.getD "-")
    | "c09" :: "hist" :: "str" :: _ =>
      match handleHistStr .copyAll "ZodString" (schema.drop "c09 hist str ".length).toString input with
      | some m => m ++ "\t" ++ spec
      | none => "bad-op"
    -- integers in unary ("x"*n): `CloneFrom` keeps the receiver's checks (types/integer.go:597-605)
    | "c09" :: "hist" :: "int" :: _ =>
      match handleHistStr .keepChecks "ZodIntegerTyped" (schema.drop "c09 hist int ".length).toString input false with
      | some m => m ++ "\t" ++ spec
      | none => "bad-op"
    | "c09" :: "str" :: cp :: rest =>
      let mods := rest.takeWhile (· ≠ ";")
      let after := (rest.dropWhile (· ≠ ";")).drop 1
      match after with
      | n :: ctoks =>
        match n.toNat?.bind (fun n => parseChecks n ctoks) with
        | some (cs, []) =>
          let base : SI := { checks := cs, ptrSchema := cp == "1", ctorPtr := cp == "1", isRefine := isRefineP }
          match mods.foldlM applyMod base with
          | none => "bad-op"
          | some i =>
            let inTok := input.trimAscii.toString
            let inp : Option (Input Bytes) :=
              if inTok == "nil" then some .nil
              else if inTok == "nilptr" then some .nilPtr
              else if inTok == "foreign" then some .foreign
              else if inTok.endsWith "*" then (unhex (inTok.dropEnd 1).toString).map .ptr
              else (unhex inTok).map .val
            match inp with
            | none => "bad-op"
            | some x =>
              let p := renderOut (parse Str.env i x)
              let strictOk : Bool := match x with
                | .val _ => !i.ptrSchema
                | .ptr _ => i.ptrSchema
                | .nilPtr => i.ptrSchema
                | _ => false
              let s := if strictOk then renderOut (strictParse Str.env i x) else "n/a"
              s!"P={p};S={s};A={p};MP={p};MS={s};MA={p}" ++ "\t" ++ spec
        | _ => "bad-op"
      | _ => "bad-op"
    | _ => "bad-op"
  | _ => "bad-op"

end Gozod.Drv.C09
