/-
  Line handlers for C13.
    gen | compile … | sample …             → "ok ok" / "same same"  (the property demands success)
    cell <fty> <rules> <probe> | <chain>   → "<denote> <documented>"  verdict of the emitted chain under
                                              the primitive-schema semantics, and the documented verdict
    quote <kind> <runes p> | <runes ref>   → noparse | lit=<runes>   value of the literal the transcribed
                                              formatting function emits for parameter p
-/
import Gozod.Model.GenChain
import Gozod.Model.GenSplit
import Gozod.Model.GenEmit
import Gozod.Model.GenTyped
import Gozod.Gen.MethodTable
import Gozod.Gen.WriterFacts
import Gozod.Model.GenTerm
namespace Gozod.Drv.C13
open Gozod Gozod.Tags Gozod.GenChain

def b2s (b : Bool) : String := if b then "1" else "0"

def parseRunes (s : String) : Option (List Nat) :=
  if s == "-" then some [] else (s.splitOn ".").mapM String.toNat?

def renderRunes (s : List Nat) : String := if s.isEmpty then "-" else ".".intercalate (s.map toString)

def parseRules (s : String) : Option (List TRule) := (s.splitOn "+").mapM TRule.ofString?

/-! round 2: the generator's own tag parser, and the text it emits for a field -/

def renderList (xs : List (List Nat)) : String :=
  if xs.isEmpty then "~" else ";".intercalate (xs.map renderRunes)

def renderRule (r : TagParser.Rule) : String :=
  renderRunes r.name ++ ":" ++ (match r.params with | none => "~" | some ps => "/".intercalate (ps.map renderRunes))

def renderRules : Except String (List TagParser.Rule) → String
  | .error e => "err:" ++ e
  | .ok rs => if rs.isEmpty then "~" else ";".intercalate (rs.map renderRule)

/-- SPEC side (written over the tagparser model only): gozodgen documents that it refuses a rule with `=`
    and a blank parameter ("rule requires a parameter") or a blank name; the first such part decides. -/
def specRefuses (tag : List Nat) : Option String :=
  if tag.isEmpty then none else
  (TagParser.splitParts tag).findSome? fun part =>
    let part := TagParser.trimSpace part
    let (name, raw, ok) := TagParser.cutEq part
    if part.isEmpty || !ok then none
    else if (TagParser.trimSpace raw).isEmpty then some "err:param"
    else if (TagParser.trimSpace name).isEmpty then some "err:name"
    else none

def isIdent (cs : List Char) : Bool :=
  match cs with
  | [] => false
  | c :: _ => (c.isAlpha || c == '_') && cs.all fun d => d.isAlphanum || d == '_'

/-- the field type as the harness writes it (`getTypeNameFromAST` syntax: `*T`, `[]T`, `map[K]V` with a bracket-free key,
    basic names, `time.Time`, identifiers) -/
def parseTyF : Nat → List Char → Option GenEmit.Ty
  | 0, _ => none
  | f + 1, cs =>
    match cs with
    | '*' :: r => (parseTyF f r).map .ptr
    | '[' :: ']' :: r => (parseTyF f r).map .slice
    | 'm' :: 'a' :: 'p' :: '[' :: r =>
      let k := r.takeWhile (· != ']')
      let v := (r.dropWhile (· != ']')).drop 1
      match parseTyF f k, parseTyF f v with
      | some k, some v => some (.map k v)
      | _, _ => none
    | _ =>
      let s := String.ofList cs
      if s == "time.Time" then some .time
      else match GenEmit.Basic.all.find? (·.name == s) with
        | some b => some (.basic b)
        | none => if isIdent cs then some (.named (GenEmit.asc s)) else none

def parseTy (s : String) : Option GenEmit.Ty := parseTyF (s.length + 1) s.toList

/-- the writer of the tree under check: structure facts regenerated from writer.go on every run -/
def WF : GenEmit.WriterFacts := Gen.writerFacts

/-- predicted status of the file written for a one-field struct: the expression is well typed against the regenerated
    method table and every import written is used; with the reason when it is not (`GenTyped.whyChain`) -/
def statusOf (rs : List TagParser.Rule) (c : GenEmit.Chain) : String :=
  let ti := GenTyped.timeImported WF [rs] [c]
  match GenTyped.wellTyped Gen.methodTable ti c with
  | some true => if GenTyped.importsUsed WF [rs] [c] then "ok" else "notypecheck"
  | some false => "notypecheck"
  | none => if GenTyped.importsUsed WF [rs] [c] then "?" else "notypecheck"

def whyOf (rs : List TagParser.Rule) (c : GenEmit.Chain) : String :=
  match GenTyped.whyChain Gen.methodTable WF rs c with
  | .ok => "ok" | .unjudged => "?" | .ill cls => cls

/-- prefix syntax of harness/cmd/c13/term.go: B P<t> S<t> A<t> M<k><v> N<i>. T I -/
def parseGT : Nat → List Char → Option (GenTerm.GT × List Char)
  | 0, _ => none
  | f + 1, cs =>
    match cs with
    | 'B' :: r => some (.basic, r)
    | 'T' :: r => some (.time, r)
    | 'I' :: r => some (.iface, r)
    | 'P' :: r => (parseGT f r).map fun (t, r) => (.pointer t, r)
    | 'S' :: r => (parseGT f r).map fun (t, r) => (.slice t, r)
    | 'A' :: r => (parseGT f r).map fun (t, r) => (.array t, r)
    | 'M' :: r =>
      match parseGT f r with
      | some (k, r) => (parseGT f r).map fun (v, r) => (.map k v, r)
      | none => none
    | 'N' :: r =>
      let ds := r.takeWhile Char.isDigit
      match (String.ofList ds).toNat?, r.drop ds.length with
      | some n, '.' :: r => some (.named n, r)
      | _, _ => none
    | _ => none

def parseGT1 (s : String) : Option GenTerm.GT :=
  match parseGT (s.length + 1) s.toList with
  | some (t, []) => some t
  | _ => none

/-- the program of a `term` op: environment (struct entries `R:f,f`) and every field that is converted -/
def parseProg (fields env : String) : Option GenTerm.Prog :=
  let entries := if env == "-" then [] else env.splitOn ";"
  let envT : Option (List GenTerm.GT) := entries.mapM fun e => if e.startsWith "R:" then some .struct else parseGT1 e
  let structFields : List String := entries.flatMap fun e => if e.startsWith "R:" then (e.drop 2).toString.splitOn "," else []
  match envT, (fields.splitOn "," ++ structFields).mapM parseGT1 with
  | some env, some fs => some ⟨env, fs⟩
  | _, _ => none

def handle : List String → String
  | ["split", s, "|", ref] =>
    match parseRunes s with
    | some s =>
      let parts := "parts=" ++ renderList (GenSplit.genSplit s)
      let m := parts ++ " rules=" ++ renderRules (GenSplit.genParseTag s)
      -- the tagparser model must read what the real tagparser read (cross-check of C06's tie)
      let drift := if renderRules (TagParser.parseTag false s) == ref then "" else " !tagparser-model-drift"
      let sp := parts ++ " rules=" ++ (specRefuses s).getD ref
      m ++ drift ++ "\t" ++ sp ++ "\t" ++ GenSplit.parseReason s
    | none => "bad-op"
  | ["wcompile", _, _, tag] =>
    -- the file must parse, type-check and its Schema() must not panic; third column: why the two tag parsers read the
    -- tag differently (`none` inside parseRegion) — a failure outside the region is attributed to that known class
    match parseRunes tag with
    | some tag => "ok\tok\t" ++ GenSplit.parseReason tag
    | none => "bad-op"
  | ["wsame", _, _, _] => "same same"
  | ["wbuild"] => "ok ok"
  | ["wexpr", gotype, _, tag] =>
    match parseRunes tag, parseTy gotype with
    | some tag, some t =>
      match GenEmit.emitField WF t [] tag with
      | some e => "expr=" ++ renderRunes e
      | none => "?"
    | _, _ => "?"
  | ["texpr", gotype, _, tag, sn] =>
    match parseRunes tag, parseTy gotype with
    | some tag, some t =>
      match GenSplit.genParseTag tag with
      | .ok rs =>
        match GenEmit.emitChain WF t (GenEmit.asc sn) rs with
        | some c => "st=" ++ statusOf rs c ++ " expr=" ++ renderRunes c.render ++ "\t" ++ whyOf rs c
        | none => "?"
      | .error _ => "?"
    | _, _ => "?"
  | ["wcell", _, _, tag, _, "|", _] =>
    match parseRunes tag with
    | some tag => GenSplit.parseReason tag
    | none => "bad-op"
  | ["term", fields, "|", env, "|", "ifs=2"] =>
    -- the `case *types.Named:` clause carries a second `if` in front of the recursion (the stack check of
    -- pending/C13-recursive-named.diff): GenTerm.convV, total by construction
    match parseProg fields env with
    | some p => (if p.fields.all (fun t => GenTerm.convV p.env (List.range p.env.length) t == GenTerm.convV p.env (List.range p.env.length) t) then "ok" else "crash") ++ " ok"
    | none => "bad-op"
  | ["term", fields, "|", env, "|", "ifs=1"] =>
    -- model: the conversion as written, with fuel 2000 — far beyond what any terminating case of the generator needs (a Go stack of 1 GB holds far fewer frames than that would need
    -- on a diverging case: the run ends in `fatal error: stack overflow`); spec: gozodgen terminates normally
    match parseProg fields env with
    | some p => (if GenTerm.analyzeF p 2000 then "ok" else "crash") ++ " ok"
    | none => "bad-op"
  | ["mname", names] =>
    -- model: the keys the analyzer of the tree under check writes (Gen.analyzerMultiName), the file type-checks iff they are
    -- distinct; spec: one key per name, the name itself (what FromStruct uses), the file type-checks
    let ns := names.splitOn ","
    let ks := (GenEmit.fieldKeys Gen.analyzerMultiName (ns.map GenEmit.asc)).map fun k => String.ofList (k.map Char.ofNat)
    "keys=" ++ ",".intercalate ks ++ " st=" ++ (if ks.eraseDups.length == ks.length then "ok" else "notypecheck") ++ "\t" ++ "keys=" ++ names ++ " st=ok"
  | ["bfile", kind] =>
    let k : GenEmit.SrcKind := if kind == "plain" || kind == "second-file" then .plain else if kind == "test-file" then .testFile else .constrained
    (if GenEmit.packageStillBuilds Gen.analyzerSkipTestFiles k then "ok" else "nobuild") ++ "\tok"
  | ["gen"] => "ok ok"
  | ["compile", _, _] => "ok ok"
  | ["sample", _, _] => "same same"
  | ["cell", fty, rules, probe, "|", chain] =>
    match FTy.ofString? fty, parseRules rules, Probe.ofString? probe with
    | some t, some rs, some p =>
      match chain.splitOn ";" with
      | ctor :: calls =>
        let c : GenCell := ⟨t, rs, .ok, Ctor.ofString? ctor, calls.map Call.ofString?⟩
        s!"{b2s (denote c p)} {b2s (Spec.accept rs p)}"
      | [] => "bad-op"
    | _, _, _ => "bad-op"
  | ["quote", kind, p, "|", _ref] =>
    match parseRunes p with
    | some p =>
      -- `default=`: the code after 8c56087 (strconv.Quote); "?" = quoting of some rune not modelled
      let emitted : Option (List Nat) := if kind == "regex" then some (emitRegex p) else emitDefaultFixed p
      match emitted with
      | none => "?"
      | some e =>
        match goStringLit e with
        | none => "noparse"
        | some s => "lit=" ++ renderRunes s
    | none => "bad-op"
  | _ => "bad-op"

end Gozod.Drv.C13
