/-
  Composite schemas over ABSTRACT member schemas (C02, C05, C04).

  A member schema is only an id (`Mid`); what it does on a value comes from an environment
  `env : Mid → V → MRes` (its own `ParseAny`: result value, or a NON-EMPTY list of issues).
  Every container validator is transcribed from `types/*.go` AS THE CODE COMPUTES IT, including
  the engine's nil path that runs before the validator (`internal/engine/modifiers.go:43`,
  `parser.go:109,856`; DESIGN Appendix F).  The spec oracle (`Spec*`) is written independently.

  Modelled after the pending patches (BUILDING §4 "model the fixed code"):
    C05-slice-path-prepend   slice element issues keep the child's path ([i] ++ child path)
    C05-record-key-path      record value issues are prefixed with the key, key issues carry [key]
    C04-nil-reflect-guards   map/record/set/struct pass a nil member value as a nil interface
    C04-du-unhashable-guard  an unhashable discriminator value falls through to the option loop
    C04-inter-nil-path       intersection's merged unrecognized_keys issue carries a non-nil path
    C02-lazy-wrapper         lazy asks its target through ParseAny whatever the target's result type
    C02-overwrite-validates  `engine.validatePointer` runs the validator before its overwrite pre-pass (`runOw`)
  `Cfg` selects, per patch, the code as it is today (`false`) or the patched code (`true`); the
  theorems are proved for every `Cfg`, the driver is told by the harness which one it observes.

  Not modelled (the harness never generates them; `extract` answers `wrong` and the tie would show
  a drift): struct inputs to Object, map inputs to Struct, numeric-string record keys retried as
  numbers, Default/Prefault/Transform on the container itself (C03/C10), struct Partial.
-/
namespace Gozod.Cont

/-! ## Go types and values -/

/-- Go dynamic types, as far as the extractors look at them. -/
inductive Ty
  | any | str | int | bool | f64 | unit
  | sl (e : Ty) | mp (k e : Ty) | ptr (t : Ty) | st (id : Nat) | other (id : Nat)
  deriving DecidableEq, Repr, Inhabited

/-- A path segment: slice index, or map key / field name / set element (interned value id). -/
inductive Seg
  | idx (i : Nat)
  | key (k : Nat)
  deriving DecidableEq, Repr, Inhabited

/-- Go values held in an `any`.  Scalars are opaque atoms: `id` is the interned identity of
    (type, value), so two atoms are `==` in Go iff their ids agree.  Map keys are atoms. -/
inductive V
  | nil
  | atom (ty : Ty) (id : Nat)
  | slice (e : Ty) (xs : Option (List V))            -- `none` = nil slice
  | map (k e : Ty) (es : Option (List (V × V)))       -- `none` = nil map; distinct keys
  | strct (sid : Nat) (fs : List (Nat × V))           -- exported fields by interned name
  | ptr (t : Ty) (p : Option V)                       -- `none` = typed nil pointer
  deriving BEq, Repr, Inhabited

namespace V

def dynTy : V → Option Ty
  | nil => none
  | atom t _ => some t
  | slice e _ => some (.sl e)
  | map k e _ => some (.mp k e)
  | strct s _ => some (.st s)
  | ptr t _ => some (.ptr t)

/-- `engine.isNilInput`: untyped nil, nil pointer, nil slice, nil map. -/
def isNilLike : V → Bool
  | nil => true
  | slice _ none => true
  | map _ _ none => true
  | ptr _ none => true
  | _ => false

def isNil : V → Bool
  | nil => true
  | _ => false

/-- The path segment a value denotes when it is used as a map key / set element. -/
def seg : V → Seg
  | atom _ id => .key id
  | _ => .key 0

end V

/-- `x.(T)`: dynamic type identical, or `T` is `any` and `x` is not the nil interface. -/
def assertable (t : Ty) (x : V) : Bool :=
  match t with
  | .any => !x.isNil
  | t => x.dynTy == some t

/-! ## Issues and results -/

inductive Code
  | invalidType | invalidValue | invalidFormat | invalidUnion | invalidKey | invalidElement
  | tooBig | tooSmall | notMultipleOf | unrecognizedKeys | custom | invalidSchema
  | invalidDiscriminator | incompatibleTypes | missingRequired | typeConversion | nilPointer
  | unknown
  deriving DecidableEq, Repr, Inhabited

def Code.known : Code → Bool
  | .unknown => false
  | _ => true

structure Issue where
  code : Code
  path : List Seg
  keys : List Nat := []       -- `Keys` of an unrecognized_keys issue
  expLazy : Bool := false     -- invalid_type with Expected = "lazy"
  hasMsg : Bool := true       -- Message ≠ ""
  hasPath : Bool := true      -- Path ≠ nil
  deriving DecidableEq, Repr, Inhabited

/-- An issue built by a creator and passed through `FinalizeIssue` (path [] if nil, default message). -/
def mk (c : Code) (p : List Seg) : Issue := { code := c, path := p }

/-- What a member's own `ParseAny` answers: result value, or a non-empty issue list. -/
inductive MRes
  | ok (v : V)
  | err (hd : Issue) (tl : List Issue)
  deriving Repr, Inhabited

/-- What a container answers (its result value is not modelled). -/
inductive Res
  | ok
  | err (is : List Issue)
  deriving Repr, Inhabited

def Res.isOk : Res → Bool
  | .ok => true
  | .err _ => false

def Res.issues : Res → List Issue
  | .ok => []
  | .err is => is

abbrev Mid := Nat
abbrev Env := Mid → V → MRes

def acc (env : Env) (m : Mid) (x : V) : Bool :=
  match env m x with
  | .ok _ => true
  | .err _ _ => false

def errs (env : Env) (m : Mid) (x : V) : List Issue :=
  match env m x with
  | .ok _ => []
  | .err i is => i :: is

/-- `issues = [] → ok`, the shape every collecting validator ends with. -/
def ofIssues (is : List Issue) : Res :=
  match is with
  | [] => .ok
  | _ => .err is

/-- What a container SEES of its members.  A member in a position typed `any` is only called when the
    container's code finds an entry point on it: Slice and Array assert `core.ZodSchema`
    (`types/slice.go:457`, `types/array.go:666`), Map / Set / Record look a `Parse` method up by name
    (`types/map.go:501`, `types/set.go:470`, `types/record.go:960`), Struct wants `Parse` with two results
    (`types/struct.go:840`).  A member without that entry point (`skip`) is silently never asked: every value
    passes.  The harness lists the members of the case that are not callable. -/
def seen (skip : List Mid) (env : Env) : Env :=
  fun m v => if skip.contains m then .ok v else env m v

/-! ## Which code is observed: today's or the patched one -/

structure Cfg where
  slicePrepend : Bool := true
  recordKeyPath : Bool := true
  interPath : Bool := true
  lazyWrap : Bool := true
  owValidates : Bool := true     -- /repo 49e6e91: an Overwrite check no longer bypasses the validator
  reqFix : Bool := true          -- pending C02-object-required: Object.Required makes fields required (not the others optional)
  deriving Repr, Inhabited

/-! ## Container-level pieces -/

structure Mods where
  optional : Bool := false
  nilable : Bool := false
  nonOptional : Bool := false
  deriving Repr, Inhabited

/-- A container-level check (`internals.Checks`, in attachment order): the size checks `Min/Max/Length`, a
    `Refine` whose predicate answers `ok` on the input at hand (one `custom` issue at [] when it fails), and an
    `Overwrite` whose function is the identity (it never raises an issue; what it does to the engine: `runOw`). -/
inductive SizeCk
  | min (n : Nat) | max (n : Nat) | eq (n : Nat)
  | custom (ok : Bool)
  | overwrite
  deriving Repr, Inhabited

def SizeCk.holds : SizeCk → Nat → Bool
  | .min n, l => n ≤ l
  | .max n, l => l ≤ n
  | .eq n, l => l == n
  | .custom ok, _ => ok
  | .overwrite, _ => true

def SizeCk.issue : SizeCk → Nat → Issue
  | .min _, _ => mk .tooSmall []
  | .max _, _ => mk .tooBig []
  | .eq n, l => if l > n then mk .tooBig [] else mk .tooSmall []
  | .custom _, _ => mk .custom []
  | .overwrite, _ => mk .custom []

/-- `engine.RunChecksOnValue` over the size checks: every failing check adds one issue at []. -/
def sizeIssues : List SizeCk → Nat → List Issue
  | [], _ => []
  | c :: cs, l => (if c.holds l then [] else [c.issue l]) ++ sizeIssues cs l

def sizeOK (cs : List SizeCk) (l : Nat) : Bool := cs.all (·.holds l)

/-- `processModifiersCore` on a nil-like input, for a non-pointer `T` without Default/Prefault. -/
def nilPath (m : Mods) : Res :=
  if m.nonOptional then .err [mk .invalidType []]
  else if m.optional || m.nilable then .ok
  else .err [mk .invalidType []]

def nilOK (m : Mods) : Bool := !m.nonOptional && (m.optional || m.nilable)

/-- Re-wrap a child's issue under a parent key, as `ConvertZodIssueToRawWithPrependedPath` +
    `FinalizeIssue` do: code and `expected` kept, `Keys` lost, path/message made well-formed. -/
def prepend (s : Seg) (c : Issue) : Issue :=
  { code := c.code, path := s :: c.path, keys := [], expLazy := c.expLazy }

/-- `ConvertZodIssueToRawWithProperties`: the child's path is REPLACED by the prefix. -/
def replacePath (s : Seg) (c : Issue) : Issue :=
  { code := c.code, path := [s], keys := [], expLazy := c.expLazy }

/-- `ConvertZodIssueToRaw`: path reset to []. -/
def dropPath (c : Issue) : Issue :=
  { code := c.code, path := [], keys := [], expLazy := c.expLazy }

/-! ## slice  (`types/slice.go:384-478`) -/

def extractSlice (t : Ty) : V → Option (List V)
  | .slice e (some xs) => if e = t then some xs else if xs.all (assertable t) then some xs else none
  -- since /repo ec7d81c a pointer to a slice of another element type is converted like the slice itself
  | .ptr (.sl e) (some (.slice _ (some xs))) => if e = t then some xs else if xs.all (assertable t) then some xs else none
  | .ptr (.sl e) (some (.slice _ none)) => if e = t || e = .any then some [] else none
  | _ => none

def sliceElems (cfg : Cfg) (env : Env) (e : Mid) : Nat → List V → List Issue
  | _, [] => []
  | i, x :: xs =>
    (errs env e x).map (if cfg.slicePrepend then prepend (.idx i) else replacePath (.idx i))
      ++ sliceElems cfg env e (i + 1) xs

def validateSlice (cfg : Cfg) (env : Env) (e : Mid) (cs : List SizeCk) (xs : List V) : Res :=
  ofIssues (sizeIssues cs xs.length ++ sliceElems cfg env e 0 xs)

/-! ## array  (`types/array.go:497-586`) -/

def extractArray : V → Option (List V)
  | .slice _ (some xs) => some xs
  | .ptr _ (some (.slice _ (some xs))) => some xs
  | .ptr _ (some (.slice _ none)) => some []
  | _ => none

/-- One `invalid_element` issue at `[i]` per failing element (only the first child issue is wrapped,
    its path is dropped). -/
def arrayElems (env : Env) : Nat → List Mid → Option Mid → List V → List Issue
  | _, _, _, [] => []
  | i, m :: ms, r, x :: xs =>
    (if acc env m x then [] else [mk .invalidElement [.idx i]]) ++ arrayElems env (i + 1) ms r xs
  | i, [], some r, x :: xs =>
    (if acc env r x then [] else [mk .invalidElement [.idx i]]) ++ arrayElems env (i + 1) [] (some r) xs
  | _, [], none, _ :: _ => []

def validateArray (env : Env) (items : List Mid) (rest : Option Mid) (cs : List SizeCk) (xs : List V) : Res :=
  match sizeIssues cs xs.length with
  | i :: is => .err (i :: is)
  | [] =>
    if rest.isSome then
      if xs.length < items.length then .err [mk .tooSmall []]
      else ofIssues (arrayElems env 0 items rest xs)
    else if xs.length < items.length then .err [mk .tooSmall []]
    else if xs.length > items.length then .err [mk .tooBig []]
    else ofIssues (arrayElems env 0 items rest xs)

/-! ## tuple  (`types/tuple.go:302-390`) -/

def extractTuple : V → Option (List V)
  | .slice _ (some xs) => some xs
  | _ => none

def tupleElems (env : Env) : Nat → List Mid → Option Mid → List V → List Issue
  | _, _, _, [] => []
  | i, m :: ms, r, x :: xs =>
    (errs env m x).map (prepend (.idx i)) ++ tupleElems env (i + 1) ms r xs
  | i, [], some r, x :: xs =>
    (errs env r x).map (prepend (.idx i)) ++ tupleElems env (i + 1) [] (some r) xs
  | _, [], none, _ :: _ => []

def validateTuple (env : Env) (items : List Mid) (req : Nat) (rest : Option Mid) (cs : List SizeCk)
    (xs : List V) : Res :=
  if xs.length < req then .err [mk .tooSmall []]
  else if rest.isNone && xs.length > items.length then .err [mk .tooBig []]
  else match tupleElems env 0 items rest xs with
    | i :: is => .err (i :: is)
    | [] => ofIssues (sizeIssues cs xs.length)

/-! ## map  (`types/map.go:404-462`) -/

def extractMap : V → Option (List (V × V))
  | .map _ _ (some es) => some es
  -- since /repo ec7d81c a pointer to a map of ANY type is converted like the map itself
  | .ptr _ (some (.map _ _ (some es))) => some es
  | .ptr _ (some (.map _ _ none)) => some []
  | _ => none

def optErrs (env : Env) (m : Option Mid) (x : V) : List Issue :=
  match m with
  | none => []
  | some m => errs env m x

def mapEntries (env : Env) (km vm : Option Mid) : List (V × V) → List Issue
  | [] => []
  | (k, v) :: es =>
    (optErrs env km k).map (prepend k.seg) ++ (optErrs env vm v).map (prepend k.seg)
      ++ mapEntries env km vm es

def validateMap (env : Env) (km vm : Option Mid) (cs : List SizeCk) (es : List (V × V)) : Res :=
  match sizeIssues cs es.length with
  | i :: is => .err (i :: is)
  | [] => ofIssues (mapEntries env km vm es)

/-! ## record  (`types/record.go:633-760`) -/

inductive KeySpec
  | none
  | enum (allowed : List Nat) (m : Mid)     -- key schema exposes `Options()`: exhaustive keys
  | schema (m : Mid)
  deriving Repr, Inhabited

def isStrKey (k : V) : Bool := k.dynTy == some .str

def extractRecord : V → Option (List (V × V))
  | .map _ _ (some es) => if es.all (fun e => isStrKey e.1) then some es else none
  | .ptr (.mp .str .any) (some (.map _ _ (some es))) => some es
  | .ptr (.mp .str .any) (some (.map _ _ none)) => some []
  | _ => none

def keyId (k : V) : Nat :=
  match k with
  | .atom _ id => id
  | _ => 0

/-- exhaustive (enum) key validation: one unrecognized_keys issue, then one invalid_type per missing key. -/
def recordEnumKeys (allowed : List Nat) (isPartial : Bool) (es : List (V × V)) : List Issue :=
  let present := es.map (fun e => keyId e.1)
  let unrec := present.filter (fun k => !allowed.contains k)
  (if unrec.isEmpty then [] else [{ code := .unrecognizedKeys, path := [], keys := unrec }])
    ++ (if isPartial then [] else
        (allowed.filter (fun k => !present.contains k)).map (fun k => mk .invalidType [.key k]))

/-- non-exhaustive key validation: a rejected key contributes the key schema's issues
    (path [] today; [key] after C05-record-key-path); skipped in loose mode. -/
def recordSchemaKeys (cfg : Cfg) (env : Env) (m : Mid) (loose : Bool) : List (V × V) → List Issue
  | [] => []
  | (k, _) :: es =>
    (if loose then [] else
      (errs env m k).map (if cfg.recordKeyPath then prepend k.seg else dropPath))
      ++ recordSchemaKeys cfg env m loose es

def keyMember : KeySpec → Option Mid
  | .none => Option.none
  | .enum _ m => some m
  | .schema m => some m

/-- loose mode: the value of a key the key schema rejects is not validated. -/
def recSkip (env : Env) (ks : KeySpec) (loose : Bool) (k : V) : Bool :=
  loose && (match keyMember ks with | some m => !acc env m k | none => false)

/-- the first value (in entry order) rejected by the value schema ends validation with that
    member's issues (paths unchanged today; prefixed with the key after the patch). -/
def recordValues (cfg : Cfg) (env : Env) (ks : KeySpec) (vm : Mid) (loose : Bool) :
    List (V × V) → Option (List Issue)
  | [] => none
  | (k, v) :: es =>
    if recSkip env ks loose k then recordValues cfg env ks vm loose es
    else match env vm v with
      | .ok _ => recordValues cfg env ks vm loose es
      | .err i is => some ((i :: is).map (if cfg.recordKeyPath then prepend k.seg else id))

def validateRecord (cfg : Cfg) (env : Env) (ks : KeySpec) (vm : Mid) (loose isPartial : Bool)
    (cs : List SizeCk) (es : List (V × V)) : Res :=
  match sizeIssues cs es.length with
  | i :: is => .err (i :: is)
  | [] =>
    let keyIssues := match ks with
      | .none => []
      | .enum allowed _ => recordEnumKeys allowed isPartial es
      | .schema m => recordSchemaKeys cfg env m loose es
    match recordValues cfg env ks vm loose es with
    | some is => .err is
    | none => ofIssues keyIssues

/-! ## set  (`types/set.go:316-420`) -/

def extractSet (t : Ty) : V → Option (List V)
  | .map k .unit (some es) =>
    if k = t then some (es.map (·.1)) else if es.all (fun e => assertable t e.1) then some (es.map (·.1)) else none
  | .slice e (some xs) => if e = t then some xs else if xs.all (assertable t) then some xs else none
  | .ptr (.mp k .unit) (some (.map _ _ (some es))) => if k = t then some (es.map (·.1)) else none
  | .ptr (.mp k .unit) (some (.map _ _ none)) => if k = t then some [] else none
  | _ => none

def setElems (env : Env) (m : Mid) : List V → List Issue
  | [] => []
  | x :: xs => (errs env m x).map (prepend x.seg) ++ setElems env m xs

def validateSet (env : Env) (m : Mid) (cs : List SizeCk) (xs : List V) : Res :=
  match sizeIssues cs xs.length with
  | i :: is => .err (i :: is)
  | [] => ofIssues (setElems env m xs)

/-! ## object  (`types/object.go:692-790`) -/

inductive Mode | strip | strict | passthrough
  deriving DecidableEq, Repr, Inhabited

structure Field where
  name : Nat                    -- interned field name (= id of the string key atom)
  m : Mid
  optional : Bool := false      -- member's `Internals().Optional`
  exactOptional : Bool := false
  deriving Repr, Inhabited

/-- `IsPartial` + `PartialExceptions` (`none` = every field optional). -/
structure Partial where
  on : Bool := false
  exceptions : Option (List Nat) := none
  deriving Repr, Inhabited

def lookupKey (id : Nat) : List (V × V) → Option V
  | [] => none
  | (k, v) :: es => if keyId k = id then some v else lookupKey id es

def fieldOptional (p : Partial) (f : Field) : Bool :=
  (p.on && (match p.exceptions with
            | none => true
            | some ex => !ex.contains f.name)) || f.optional

/-! ### `ZodObject.Required`  (`types/object.go:386-402`)

  The written call (`ReqCall`) is applied to the object
  built so far (shape with the members' own Optional flags, partial state). -/
inductive ReqCall
  | all                       -- `Required()`
  | keys (ks : List Nat)      -- `Required(ks)`
  deriving Repr, Inhabited

/-- the code before C02-object-required: `Required` SETS the partial state — `IsPartial = true`,
    `PartialExceptions = ks` (nil for `Required()`) — so every field NOT listed becomes optional (all of them for
    `Required()`), and a listed field whose schema is optional stays optional: nothing is made required. -/
def requiredLegacy (r : ReqCall) (shape : List Field) (_p : Partial) : List Field × Partial :=
  (shape, { on := true, exceptions := match r with
                                       | .all => none
                                       | .keys ks => some ks })

/-- after C02-object-required: the listed fields (all for `Required()`) are entered in `RequiredKeys`, which
    `isFieldOptional` consults first; the other fields keep their state. -/
def ReqCall.names (r : ReqCall) (shape : List Field) : List Nat :=
  match r with
  | .all => shape.map (·.name)
  | .keys ks => ks

def requiredFixed (r : ReqCall) (shape : List Field) (p : Partial) : List Field × Partial :=
  (shape.map (fun f => if (r.names shape).contains f.name then { f with optional := false } else f),
   if p.on then { p with exceptions := some (p.exceptions.getD [] ++ r.names shape) } else p)

def applyRequired (cfg : Cfg) (r : Option ReqCall) (shape : List Field) (p : Partial) : List Field × Partial :=
  match r with
  | none => (shape, p)
  | some r => if cfg.reqFix then requiredFixed r shape p else requiredLegacy r shape p

def extractObject : V → Option (List (V × V))
  | .map .str .any (some es) => some es
  | .ptr (.mp .str .any) (some (.map _ _ (some es))) => some es
  | .ptr (.mp .str .any) (some (.map _ _ none)) => some []
  | _ => none

/-- shape loop: issues and the number of fields that end up in `result`. -/
def objectFields (env : Env) (p : Partial) (es : List (V × V)) : List Field → List Issue × Nat
  | [] => ([], 0)
  | f :: fs =>
    let (is, n) := objectFields env p es fs
    match lookupKey f.name es with
    | none => ((if fieldOptional p f then [] else [mk .invalidType [.key f.name]]) ++ is, n)
    | some v =>
      if v.isNil && f.exactOptional then (mk .invalidType [.key f.name] :: is, n)
      else match env f.m v with
        | .ok _ => (is, n + 1)
        | .err i t => ((i :: t).map (prepend (.key f.name)) ++ is, n)

def isKnown (shape : List Field) (k : V) : Bool := shape.any (fun f => f.name == keyId k)

/-- unknown-key loop: (issues from a catchall, unknown keys for strict mode, fields kept in `result`). -/
def objectUnknown (env : Env) (shape : List Field) (mode : Mode) (catchall : Option Mid) :
    List (V × V) → List Issue × List Nat × Nat
  | [] => ([], [], 0)
  | (k, v) :: es =>
    let (is, un, n) := objectUnknown env shape mode catchall es
    if isKnown shape k then (is, un, n)
    else match mode with
      | .strict => (is, keyId k :: un, n)
      | .strip =>
        -- /repo 507cd5d: a catch-all validates the unknown keys in strip mode too; the key is still omitted from the result
        match catchall with
        | none => (is, un, n)
        | some c =>
          match env c v with
          | .ok _ => (is, un, n)
          | .err i t => ((i :: t).map (prepend k.seg) ++ is, un, n)
      | .passthrough =>
        match catchall with
        | none => (is, un, n + 1)
        | some c =>
          match env c v with
          | .ok _ => (is, un, n + 1)
          | .err i t => ((i :: t).map (prepend k.seg) ++ is, un, n)

def validateObject (env : Env) (shape : List Field) (mode : Mode) (catchall : Option Mid)
    (p : Partial) (cs : List SizeCk) (es : List (V × V)) : Res :=
  let (fi, fn) := objectFields env p es shape
  let (ui, un, unN) := objectUnknown env shape mode catchall es
  ofIssues (fi ++ ui
    ++ (if un.isEmpty then [] else [{ code := .unrecognizedKeys, path := [], keys := un }])
    ++ sizeIssues cs (fn + unN))

/-! ## struct  (`types/struct.go:599-830`) -/

def lookupField (id : Nat) : List (Nat × V) → Option V
  | [] => none
  | (n, v) :: fs => if n = id then some v else lookupField id fs

def extractStruct (sid : Nat) : V → Option (List (Nat × V))
  | .strct s fs => if s = sid then some fs else none
  | .ptr (.st s) (some (.strct _ fs)) => if s = sid then some fs else none
  | _ => none

def structFields (env : Env) (fs : List (Nat × V)) : List Field → List Issue
  | [] => []
  | f :: rest =>
    (match lookupField f.name fs with
     | none => if f.optional then [] else [mk .invalidType [.key f.name]]
     | some v => (errs env f.m v).map (prepend (.key f.name)))
      ++ structFields env fs rest

def validateStruct (env : Env) (shape : List Field) (fs : List (Nat × V)) : Res :=
  ofIssues (structFields env fs shape)

/-! ## union / xor  (`types/union.go:77`, `types/xor.go:88`) -/

def validateUnion (env : Env) (opts : List Mid) (v : V) : Res :=
  if opts.any (fun m => acc env m v) then .ok
  else match opts with
    | [] => .err [mk .invalidSchema []]
    | _ => .err [mk .invalidUnion []]

def countAcc (env : Env) (opts : List Mid) (v : V) : Nat := (opts.filter (fun m => acc env m v)).length

def validateXor (env : Env) (opts : List Mid) (v : V) : Res :=
  match countAcc env opts v with
  | 1 => .ok
  | 0 => (match opts with
          | [] => .err [mk .invalidSchema []]
          | _ => .err [mk .invalidUnion []])
  | _ => .err [mk .invalidUnion []]

/-! ## intersection  (`types/intersection.go:97-176,473-552`) -/

/-- an unrecognized_keys issue about the intersected value ITSELF (empty path); one reported by a nested
    object is an ordinary issue (/repo 8f04f95). -/
def isUnrec (i : Issue) : Bool := i.code == .unrecognizedKeys && i.path.isEmpty

/-- `mergeUnrecognizedKeysIssues`: other issues of both sides (incl. nested unrecognized_keys issues), plus
    one unrecognized_keys issue for the top-level keys BOTH sides reported (built without a path today). -/
def mergeUnrec (cfg : Cfg) (l r : List Issue) : List Issue :=
  let lk := (l.filter isUnrec).flatMap (·.keys)
  let rk := (r.filter isUnrec).flatMap (·.keys)
  let both := (lk.filter (fun k => rk.contains k)).eraseDups
  l.filter (fun i => !isUnrec i) ++ r.filter (fun i => !isUnrec i)
    ++ (if both.isEmpty then [] else
        [{ code := .unrecognizedKeys, path := [], keys := both, hasPath := cfg.interPath }])

def mresIssues : MRes → List Issue
  | .ok _ => []
  | .err i is => i :: is

def mresVal : MRes → V
  | .ok v => v
  | .err _ _ => .nil

/-- `mergeValues` on the two results: identical, one side nil, or key-wise compatible maps of one type. -/
def mapsCompatible (a b : List (V × V)) : Bool :=
  b.all (fun e => match a.find? (fun x => x.1 == e.1) with
                  | some x => x.2 == e.2
                  | none => true)

/-- `derefMergeOperand` (`types/intersection.go`, since /repo 05acb23): a side built by an Optional / Nilable / pointer
    schema answers with a pointer to its value; non-nil pointers are followed (at most 8), a nil pointer is a nil result. -/
def derefMergeN : Nat → V → V
  | 0, v => v
  | n + 1, .ptr _ (some v) => derefMergeN n v
  | _ + 1, .ptr _ none => .nil
  | _ + 1, v => v

def derefMerge (v : V) : V := derefMergeN 8 v

/-- `mergeValues` on two results that are not pointers (the code before /repo 05acb23 compared the answers as they came). -/
def mergeable0 (a b : V) : Bool :=
  match a, b with
  | .nil, _ => true
  | _, .nil => true
  | a, b =>
    if a == b then true
    else match a, b with
      | .map k e (some x), .map k' e' (some y) => (k = k' && e = e') && mapsCompatible x y
      | .map k e none, .map k' e' (some _) => k = k' && e = e'
      | .map k e (some _), .map k' e' none => k = k' && e = e'
      | .strct _ x, .strct _ y =>
        mapsCompatible (x.map (fun f => (V.atom .str f.1, f.2))) (y.map (fun f => (V.atom .str f.1, f.2)))
      | _, _ => false

/-- `mergeValues` (since /repo 05acb23): the values behind the two answers are what is compared and merged. -/
def mergeable (a b : V) : Bool := mergeable0 (derefMerge a) (derefMerge b)

def validateInter (cfg : Cfg) (env : Env) (l r : Mid) (v : V) : Res :=
  match mergeUnrec cfg (mresIssues (env l v)) (mresIssues (env r v)) with
  | i :: is => .err (i :: is)
  | [] => if mergeable (mresVal (env l v)) (mresVal (env r v)) then .ok else .err [mk .custom []]

/-! ## discriminated union  (`types/discriminated_union.go:62-129`) — own parse path -/

def firstAcc (env : Env) (opts : List Mid) (v : V) : Bool := opts.any (fun m => acc env m v)

def lookupDisc (dv : V) (dmap : List (Nat × Mid)) : Option Mid :=
  match dv with
  | .atom _ id => (dmap.find? (fun e => e.1 == id)).map (·.2)
  | _ => none

/-- `isNilDUInput` (`types/discriminated_union.go`, since /repo a69d756): the untyped nil and a nil POINTER. -/
def duNil : V → Bool
  | .nil => true
  | .ptr _ none => true
  | _ => false

def parseDU (env : Env) (m : Mods) (disc : Nat) (dmap : List (Nat × Mid)) (opts : List Mid) (v : V) : Res :=
  if duNil v && (m.nilable || m.optional) then .ok
  else match v with
    | .map .str .any es =>
      let es := es.getD []
      match lookupKey disc es with
      | none => .err [mk .missingRequired []]
      | some dv =>
        match lookupDisc dv dmap with
        | some t => (match env t v with
                     | .ok _ => .ok
                     | .err i is => .err (i :: is))
        | none => if firstAcc env opts v then .ok else .err [mk .invalidUnion []]
    | _ => .err [mk .invalidType []]

/-! ### the discriminator index (`types/discriminated_union.go:484-512` buildDiscriminatorMap)

  The union is constructed from an option LIST.  `discValues` extracts from each option the discriminator values
  it DECLARES (the values of a Literal / Enum schema in its discriminator field; an option whose field is any other
  schema, or that has no such field, declares none and is silently left out of the index).  The options are
  entered in order; a value declared twice, or no value declared at all, is a construction error: every later
  `Parse` answers `invalid_schema` before looking at the input (`discriminated_union.go:67-71`). -/

structure DUOpt where
  m : Mid
  vals : List Nat          -- interned discriminator values the option declares (`discValues`)
  deriving Repr, Inhabited

/-- the inner loop `for _, v := range vals { if _, exists := dm[v]; exists { return error }; dm[v] = opt }`. -/
def discInsert (m : Mid) : List Nat → List (Nat × Mid) → Option (List (Nat × Mid))
  | [], dm => some dm
  | v :: vs, dm => if dm.any (fun e => e.1 == v) then none else discInsert m vs (dm ++ [(v, m)])

def discBuildFrom : List DUOpt → List (Nat × Mid) → Option (List (Nat × Mid))
  | [], dm => some dm
  | o :: os, dm =>
    match discInsert o.m o.vals dm with
    | none => none
    | some dm' => discBuildFrom os dm'

/-- `buildDiscriminatorMap`: `none` = construction error (duplicate value, or `len(dm) == 0`). -/
def buildDiscMap (os : List DUOpt) : Option (List (Nat × Mid)) :=
  match discBuildFrom os [] with
  | some [] => none
  | r => r

/-- `ZodDiscriminatedUnion.Parse` of a union constructed from the option list `os`. -/
def parseDUDecl (env : Env) (m : Mods) (disc : Nat) (os : List DUOpt) (v : V) : Res :=
  match buildDiscMap os with
  | none => .err [mk .invalidSchema []]
  | some dm => parseDU env m disc dm (os.map (·.m)) v

/-! ## lazy  (`types/lazy.go:91-125,407-427`) — own parse path -/

/-- the placeholder `invalid_type(expected lazy)` error (`newLazyTypeError`). -/
def lazyPlaceholder : Issue := { code := .invalidType, path := [], expLazy := true }

/-- `schemaWrapper.Parse` (`types/lazy.go:451-488`): today a target whose `Parse` result type is not
    one of any/string/bool/int/float64/int64/*string/*bool (`direct = false`) is never asked; the
    wrapper answers with the placeholder error instead. -/
def lazyAsk (cfg : Cfg) (env : Env) (direct : Bool) (target : Mid) (v : V) : MRes :=
  if cfg.lazyWrap || direct then env target v else .err lazyPlaceholder []

/-- what `ZodLazy.Parse` takes for a nil input: the untyped nil and (since /repo bc2d4fc) a typed nil POINTER. -/
def lazyNil : V → Bool
  | .nil => true
  | .ptr _ none => true
  | _ => false

def parseLazy (cfg : Cfg) (env : Env) (m : Mods) (direct : Bool) (target : Mid) (v : V) : Res :=
  if lazyNil v then
    (if m.nonOptional then .err [mk .invalidType []]
     else if m.optional || m.nilable then .ok
     else .err [lazyPlaceholder])
  else match lazyAsk cfg env direct target v with
    | .ok _ => .ok
    | .err i is =>
      -- `isExpectedLazyError`: the target's own placeholder error is swallowed
      if (i :: is).any (fun x => x.code == .invalidType && x.expLazy) then .ok else .err (i :: is)

/-! ## the schema nodes and the engine wrapper -/

inductive Node
  | slice (m : Mods) (t : Ty) (elem : Mid) (cs : List SizeCk)
  | array (m : Mods) (items : List Mid) (rest : Option Mid) (cs : List SizeCk)
  | tuple (m : Mods) (items : List Mid) (req : Nat) (rest : Option Mid) (cs : List SizeCk)
  | map (m : Mods) (key val : Option Mid) (cs : List SizeCk)
  | record (m : Mods) (ks : KeySpec) (val : Mid) (loose isPartial : Bool) (cs : List SizeCk)
  | set (m : Mods) (t : Ty) (elem : Mid) (cs : List SizeCk)
  | object (m : Mods) (shape : List Field) (mode : Mode) (catchall : Option Mid) (p : Partial) (cs : List SizeCk)
  | struct (m : Mods) (ptrC : Bool) (sid : Nat) (shape : List Field)
  | union (m : Mods) (opts : List Mid)
  | xor (m : Mods) (opts : List Mid)
  | inter (m : Mods) (l r : Mid)
  | du (m : Mods) (disc : Nat) (dmap : List (Nat × Mid)) (opts : List Mid)
  | lazy (m : Mods) (direct : Bool) (target : Mid)
  deriving Repr, Inhabited

/-- `ParseComplex` + `parseComplexValue`: nil path first, then extraction, then the validator. -/
def engine {α : Type} (m : Mods) (extract : V → Option α) (validate : α → Res) (v : V) : Res :=
  if v.isNilLike then nilPath m
  else match extract v with
    | none => .err [mk .invalidType []]
    | some a => validate a

/-- struct with a pointer constraint parses with `Optional` forced on (`types/struct.go:110-121`). -/
def structMods (m : Mods) (ptrC : Bool) : Mods :=
  if ptrC && !m.optional && !m.nilable then { m with optional := true } else m

def run (cfg : Cfg) (env : Env) : Node → V → Res
  | .slice m t e cs, v => engine m (extractSlice t) (validateSlice cfg env e cs) v
  | .array m items rest cs, v => engine m extractArray (validateArray env items rest cs) v
  | .tuple m items req rest cs, v => engine m extractTuple (validateTuple env items req rest cs) v
  | .map m k e cs, v => engine m extractMap (validateMap env k e cs) v
  | .record m ks vm loose part cs, v => engine m extractRecord (validateRecord cfg env ks vm loose part cs) v
  | .set m t e cs, v => engine m (extractSet t) (validateSet env e cs) v
  | .object m shape mode c p cs, v => engine m extractObject (validateObject env shape mode c p cs) v
  | .struct m ptrC sid shape, v => engine (structMods m ptrC) (extractStruct sid) (validateStruct env shape) v
  | .union m opts, v => engine m some (validateUnion env opts) v
  | .xor m opts, v => engine m some (validateXor env opts) v
  | .inter m l r, v => engine m some (validateInter cfg env l r) v
  | .du m disc dmap opts, v => parseDU env m disc dmap opts v
  | .lazy m d t, v => parseLazy cfg env m d t v

/-! ### the overwrite pre-pass of `engine.validatePointer`  (`internal/engine/parser.go:949-975`)

  Every container but Record hands `parseComplexValue` a POINTER extractor that also wraps plain values
  (`extractPtrForEngine`: `return &s, true`), so every input that extracts is validated through
  `validatePointer`.  Today that function, when an overwrite check is attached, first applies ALL checks to the
  pointer (`ApplyChecks(ptr, checks)`: the size checks see a pointer and raise nothing, custom checks see the value,
  the overwrite wrapper of Slice / Object / Map / Set / Record converts a pointer and yields a new one) and, if that
  raised no issue and produced a new pointer, returns it WITHOUT calling the validator: no size check, no member
  schema is consulted.  Array's, Struct's and Tuple's wrappers do not convert a pointer: their pre-pass changes
  nothing and the validator runs.  After C02-overwrite-validates the validator runs first. -/

def nodeChecks : Node → List SizeCk
  | .slice _ _ _ cs | .array _ _ _ cs | .tuple _ _ _ _ cs | .map _ _ _ cs | .record _ _ _ _ _ cs
  | .set _ _ _ cs | .object _ _ _ _ _ cs => cs
  | _ => []

def hasOverwrite (cs : List SizeCk) : Bool :=
  cs.any (fun c => match c with | .overwrite => true | _ => false)

def customsHold (cs : List SizeCk) : Bool :=
  cs.all (fun c => match c with | .custom ok => ok | _ => true)

/-- the input goes through `validatePointer` AND the container's overwrite wrapper converts a pointer. -/
def ptrPath : Node → V → Bool
  | .slice _ t _ _, v => (extractSlice t v).isSome
  | .object .., v => (extractObject v).isSome
  | .map .., v => (extractMap v).isSome
  | .set _ t _ _, v => (extractSet t v).isSome
  | .record .., v => (match v with
                      | .ptr _ _ => (extractRecord v).isSome
                      | _ => false)
  | _, _ => false

def owBypass (cfg : Cfg) (n : Node) (v : V) : Bool :=
  !cfg.owValidates && !v.isNilLike && hasOverwrite (nodeChecks n) && customsHold (nodeChecks n) && ptrPath n v

def nodeMods : Node → Mods
  | .slice m .. | .array m .. | .tuple m .. | .map m .. | .record m .. | .set m .. | .object m .. => m
  | _ => {}

/-- (before /repo 7db47f1) `processModifiersCore` on a nil-like input that Optional / Nilable lets through: the checks "applicable to nil
    values" (`filterNilChecks`: refine / custom / overwrite) are still applied, to nil
    (`internal/engine/modifiers.go:77-82`).  What a `Refine(fn)` answers on nil is decided by the container's own
    wrapper: Object's answers true without calling `fn` (`types/object.go:474`); Slice's and Set's call `fn` on the zero
    value of the constraint type; Map's, Record's and Array's fail to convert nil and answer false whatever `fn` is
    (`types/map.go:339`, `types/record.go:327`, `types/array.go:360`). -/
def customOnNil : Node → Bool → Bool
  | .object .., _ => true
  | .slice .., ok | .set .., ok => ok
  | _, _ => false

def nilChecks (n : Node) : List Issue :=
  (nodeChecks n).flatMap (fun c => match c with
    | .custom ok => if customOnNil n ok then [] else [mk .custom []]
    | _ => [])

/-- the code before /repo 7db47f1: the refine / custom checks were applied to an accepted nil too. -/
def runOwNilLegacy (cfg : Cfg) (env : Env) (n : Node) (v : V) : Res :=
  if owBypass cfg n v then .ok
  else if v.isNilLike && nilOK (nodeMods n) then
    (match nilChecks n with
     | [] => run cfg env n v
     | i :: is => .err (i :: is))
  else run cfg env n v

/-- `Parse` of a container with container-level checks of every kind: the overwrite pre-pass, then `run`
    (since /repo 7db47f1 an accepted nil is only handed the overwrite checks: nothing can reject it). -/
def runOw (cfg : Cfg) (env : Env) (n : Node) (v : V) : Res :=
  if owBypass cfg n v then .ok else run cfg env n v

/-- The node the constructor really builds from the schema as written: `Array` keeps only a rest schema
    that asserts to `core.ZodSchema` (`types/array.go:672-678`) — any other rest argument is dropped, the
    array then has no rest at all (an item that is not a `core.ZodSchema` keeps its position, `seen`). -/
def built (skip : List Mid) : Node → Node
  | .array m items rest cs => .array m items (rest.filter (fun r => !skip.contains r)) cs
  | n => n

/-! ## nesting: schemas refer to their members by id; `parseF` unfolds them with fuel -/

inductive Def
  | leaf                      -- a member whose behaviour is taken from the environment
  | node (n : Node)
  deriving Repr, Inhabited

/-- The parse of schema `id`: leaves answer from `env`; a composite runs its validator over the
    parses of its members one level down.  `resv` is the (unmodelled) result value of a composite. -/
def parseF (cfg : Cfg) (defs : Mid → Def) (env : Env) (resv : Mid → V → V) : Nat → Mid → V → MRes
  | 0, id, v => env id v
  | n + 1, id, v =>
    match defs id with
    | .leaf => env id v
    | .node nd =>
      match run cfg (parseF cfg defs env resv n) nd v with
      | .ok => .ok (resv id v)
      | .err [] => .ok (resv id v)
      | .err (i :: is) => .err i is

/-! ## paths into values (C05) -/

def getIdx : List V → Nat → Option V
  | [], _ => none
  | x :: _, 0 => some x
  | _ :: xs, n + 1 => getIdx xs n

/-- one step: index into a slice, key into a map (or set), field of a struct; pointers are looked through. -/
def step : V → Seg → Option V
  | .slice _ (some xs), .idx i => getIdx xs i
  | .map _ _ (some es), .key k => lookupKey k es
  | .strct _ fs, .key k => lookupField k fs
  | .ptr _ (some v), s =>
    (match v, s with
     | .slice _ (some xs), .idx i => getIdx xs i
     | .map _ _ (some es), .key k => lookupKey k es
     | .strct _ fs, .key k => lookupField k fs
     | _, _ => none)
  | _, _ => none

def resolve : V → List Seg → Option V
  | v, [] => some v
  | v, s :: p => match step v s with
    | some w => resolve w p
    | none => none

/-- "reaches that value, or the parent container of a missing key". -/
def resolvesOrParent (v : V) (p : List Seg) : Bool :=
  (resolve v p).isSome || (match p.reverse with
    | [] => false
    | _ :: rp => (resolve v rp.reverse).isSome)

end Gozod.Cont
