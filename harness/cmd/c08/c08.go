package main

// C08 — schemas are immutable values: deriving a schema never changes an existing one.
//
// Histories of real API calls.  Every exported method of every schema type that returns a schema is
// enumerated by reflection and invoked with synthesised arguments: directly on a fresh base (with a sibling
// fan-out), after a random prefix of other chaining calls, and in long check chains crossing the slice
// capacities 1,2,4,8,16 with sibling pairs derived at every boundary.  After each call the harness recomputes,
// for every live schema, the exported-internals snapshot and the behavioural fingerprint (verdicts on a probe
// set, IsOptional/IsNilable, ToJSONSchema) and compares them with the values recorded when that schema was
// created: "nothing live changed and the result is not the receiver" is the property oracle, evaluated on the
// implementation alone.  The op line is the abstract history (op class per call + aliasing-relevant
// parameters); the Lean store model must predict the same verdicts and the same sharing structure
// (which live schemas share Bag / Checks array / Values with the result, and the result's slice header).

import (
	"encoding/json"
	"flag"
	"fmt"
	"os"
	"path/filepath"
	"sort"
	"strings"
	"sync"

	"verifharness/hx"
	"verifharness/opsgen"
	"verifharness/storex"
)

// -gen DIR -repo TREE: run the translator (harness/opsgen) over TREE and write DIR/MethodOps.lean (only when its
// content changes), then exit.  -dumpops: print the rows for humans.
var (
	genDir  = flag.String("gen", "", "translator mode: write MethodOps.lean into this directory and exit")
	genRepo = flag.String("repo", "/repo", "library working tree read by the translator")
	dumpOps = flag.Bool("dumpops", false, "translator mode: print the method table and exit")
	objOnly = flag.Bool("objonly", false, "only the object- and holder-content histories (development)")
	workers = flag.Int("workers", 8, "base schemas run on this many workers (the output does not depend on it)")
	focus   = flag.String("focus", "", "comma-separated Type.Method list: add the aimed histories (that method x every sibling fan-out)")
)

// focused: the aimed histories for the methods whose table row changed class — the method on the fresh base, then for
// EVERY other method s of the type: s as a sibling from the same base, the method again on the base (a second sibling
// of its own first result), s on the first result, the method on s's result.
func focused(b storex.Base, methods []string, want map[string]bool, o *hx.Out) {
	for _, m := range methods {
		probe := b.Mk()
		if !want[storex.ShortType(probe)+"."+m] && !want["*."+m] {
			continue
		}
		for _, s := range methods {
			for variant := 0; variant < 2; variant++ {
				h := storex.NewHist(b, true)
				if !h.StepL(0, m, variant, o) {
					continue
				}
				h.StepL(0, s, variant, o)
				h.StepL(0, m, variant+1, o)
				h.StepL(1, s, variant+1, o)
				h.StepL(len(h.Live)-1, m, variant, o)
				h.StepL(1, m, variant, o)
				emit(h, o, "F")
				o.Count("focused-histories")
			}
		}
	}
}

func main() {
	cfg := hx.ParseFlags()
	if *genDir != "" || *dumpOps {
		rows, err := opsgen.Rows(*genRepo)
		if err != nil {
			fmt.Fprintln(os.Stderr, "translator:", err)
			os.Exit(4)
		}
		if *dumpOps {
			fmt.Print(opsgen.Dump(rows))
			return
		}
		changed, err := opsgen.WriteIfChanged(filepath.Join(*genDir, "MethodOps.lean"), opsgen.Lean(rows))
		if err != nil {
			fmt.Fprintln(os.Stderr, "translator:", err)
			os.Exit(4)
		}
		fmt.Printf("rows: %d changed: %v\n", len(rows), changed)
		return
	}
	if err := run(cfg); err != nil {
		fmt.Fprintln(os.Stderr, "harness error:", err)
		os.Exit(3)
	}
}

func emit(h *storex.Hist, o *hx.Out, tag string) {
	if len(h.Steps) == 0 {
		return
	}
	op := fmt.Sprintf("c08 %s %s | %s #%s %s", h.Base.Name, h.BaseHdr, strings.Join(h.Steps, " | "), tag, strings.Join(h.Names, " "))
	// T: the tie of every step to the regenerated method table; the implementation side has nothing to object to
	tv := make([]string, len(h.Steps))
	for i := range tv {
		tv[i] = "ok"
	}
	o.Emit(op, "V:"+strings.Join(h.Verd, ";")+" S:"+strings.Join(h.Strct, ";")+" T:"+strings.Join(tv, ";"))
	if h.DeepOnly > 0 {
		o.Count("deep-hash-only-change")
	}
}

// runBase runs every history of one base schema into its own output.
func runBase(c hx.Config, b storex.Base, rng *hx.Rng, want map[string]bool, o *hx.Out) []string {
	reps := 1
	if c.Thorough() {
		reps = 4
	}
	probe := b.Mk()
	methods := storex.Methods(probe)
	sort.Strings(methods)
	var seen []string
	for _, m := range methods {
		seen = append(seen, fmt.Sprintf("%T.%s", probe, m))
	}
	if len(want) > 0 {
		focused(b, methods, want, o)
	}
	for rep := 0; rep < reps; rep++ {
		for _, m := range methods {
			for variant := 0; variant < 2; variant++ {
				// A: directly on the fresh base, sibling fan-out, then on the result
				h := storex.NewHist(b, true)
				if h.StepL(0, m, variant, o) {
					h.StepL(0, m, variant+1, o)
					h.StepL(0, hx.Pick(rng, methods), rng.Intn(3), o)
					last := len(h.Live) - 1
					h.StepL(1, hx.Pick(rng, methods), rng.Intn(3), o)
					h.StepL(last, m, variant, o)
					emit(h, o, "A")
				}
				// B: after a random prefix
				h = storex.NewHist(b, true)
				for i := 0; i < 2+rng.Intn(3); i++ {
					h.StepL(rng.Intn(len(h.Live)), hx.Pick(rng, methods), rng.Intn(3), o)
				}
				ri := rng.Intn(len(h.Live))
				if h.StepL(ri, m, variant, o) {
					h.StepL(ri, hx.Pick(rng, methods), rng.Intn(3), o)
					h.StepL(rng.Intn(len(h.Live)), hx.Pick(rng, methods), rng.Intn(3), o)
					if c.Thorough() {
						for i := 0; i < 6; i++ {
							h.StepL(rng.Intn(len(h.Live)), hx.Pick(rng, methods), rng.Intn(3), o)
						}
					}
					emit(h, o, "B")
				}
			}
		}
		// D: ordered pairs of methods: m1 on the fresh base, an unrelated sibling of the result, then m2 on the
		// result — the histories in which type-local reference state that m1 put into its result (key sets such as
		// PartialExceptions, shapes, option lists) is handed on to, and written by, m2. Quick tier: every pair of
		// methods that take a key list / map / shape argument (keyed variants), and a random sample of the other
		// pairs; thorough tier: every ordered pair.
		if rep == 0 {
			keyed := storex.KeyedMethods(probe, methods)
			for _, m1 := range methods {
				for _, m2 := range methods {
					both := keyed[m1] && keyed[m2]
					if !both && !c.Thorough() && rng.Intn(40) != 0 {
						continue
					}
					for v1 := 0; v1 < 2; v1++ {
						for v2 := 0; v2 < 2; v2++ {
							if !both && (v1 != v2) {
								continue
							}
							h := storex.NewHist(b, true)
							if !h.StepL(0, m1, v1, o) {
								continue
							}
							h.StepL(1, hx.Pick(rng, methods), rng.Intn(3), o) // earlier sibling of what m2 derives
							if h.StepL(1, m2, v2, o) {
								emit(h, o, "D")
							}
						}
					}
				}
			}
		}
		// C: long check chains crossing capacities, siblings at every boundary
		for _, m := range methods {
			h := storex.NewHist(b, true)
			if !h.StepL(0, m, 0, o) || !strings.HasPrefix(h.Steps[0], "0 derive 1 ") {
				continue
			}
			cur := 1
			for n := 2; n <= 17; n++ {
				if n == 2 || n == 3 || n == 5 || n == 9 || n == 17 || n == 4 {
					h.StepL(cur, m, n, o) // sibling that is not continued
				}
				if !h.StepL(cur, m, n+1, o) {
					break
				}
				cur = len(h.Live) - 1
			}
			emit(h, o, "C")
			if !c.Thorough() && rng.Intn(3) != 0 {
				break // quick tier: one or two chain methods per base
			}
		}
	}
	return seen
}

// mergePart re-emits the cases and counters of a finished part into the main output (in base order: the result does not
// depend on how the parts were scheduled).
func mergePart(dir string, o *hx.Out) error {
	readLines := func(name string) ([]string, error) {
		b, err := os.ReadFile(filepath.Join(dir, name))
		if err != nil {
			return nil, err
		}
		ls := strings.Split(string(b), "\n")
		if len(ls) > 0 && ls[len(ls)-1] == "" {
			ls = ls[:len(ls)-1]
		}
		return ls, nil
	}
	ops, err := readLines("ops.txt")
	if err != nil {
		return err
	}
	impl, err := readLines("impl.txt")
	if err != nil {
		return err
	}
	if len(ops) != len(impl) {
		return fmt.Errorf("part %s: %d ops, %d observations", dir, len(ops), len(impl))
	}
	for i := range ops {
		o.Emit(ops[i], impl[i])
	}
	raw, err := os.ReadFile(filepath.Join(dir, "stats.json"))
	if err != nil {
		return err
	}
	var st struct {
		Histogram map[string]int `json:"histogram"`
	}
	if err := json.Unmarshal(raw, &st); err != nil {
		return err
	}
	keys := make([]string, 0, len(st.Histogram))
	for k := range st.Histogram {
		keys = append(keys, k)
	}
	sort.Strings(keys)
	for _, k := range keys {
		for n := st.Histogram[k]; n > 0; n-- {
			o.Count(k)
		}
	}
	return os.RemoveAll(dir)
}

func run(c hx.Config) error {
	o, err := hx.NewOut(c.OutDir)
	if err != nil {
		return err
	}
	rng := hx.NewRng(c.Seed)
	bases := storex.Bases()
	methodsSeen := map[string]bool{}
	want := map[string]bool{}
	for _, f := range strings.Split(*focus, ",") {
		if f != "" {
			want[f] = true
		}
	}
	if !*objOnly {
		// every base schema is an independent family of schemas: the bases run on a pool of workers, each into its own part
		// with its own generator (seeded from the run's seed and the base's position), and the parts are merged in base order
		type part struct {
			dir  string
			seen []string
			err  error
		}
		parts := make([]part, len(bases))
		sem := make(chan struct{}, *workers)
		var wg sync.WaitGroup
		for i := range bases {
			wg.Add(1)
			go func(i int) {
				defer wg.Done()
				sem <- struct{}{}
				defer func() { <-sem }()
				dir := filepath.Join(c.OutDir, fmt.Sprintf("part-%03d", i))
				po, err := hx.NewOut(dir)
				if err != nil {
					parts[i].err = err
					return
				}
				parts[i].dir = dir
				parts[i].seen = runBase(c, bases[i], hx.NewRng(c.Seed*1000003+uint64(i)), want, po)
				parts[i].err = po.Close(nil)
			}(i)
		}
		wg.Wait()
		for i := range parts {
			if parts[i].err != nil {
				return parts[i].err
			}
			for _, m := range parts[i].seen {
				methodsSeen[m] = true
			}
			if err := mergePart(parts[i].dir, o); err != nil {
				return err
			}
		}
	}
	// object derivations at the level of content (objhist.go)
	nObj := 400
	if c.Thorough() {
		nObj = 3000
	}
	runObjHistories(rng, o, nObj)
	// member-holding schemas at the level of content (holdhist.go)
	nHold := 500
	if c.Thorough() {
		nHold = 4000
	}
	runHoldHistories(rng, o, nHold)
	return o.Close(map[string]any{"bases": len(bases), "type_methods": len(methodsSeen), "object_content_histories": nObj, "holder_content_histories": nHold})
}
