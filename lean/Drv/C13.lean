import Gozod.Drv.Loop
import Gozod.Drv.C13
def main : IO Unit := Gozod.Drv.runTokens Gozod.Drv.C13.handle
