/-
  C14 — sync.RWMutex against the two simplifications the other C14 files make (round 4b).

  (1) `Model/Conc.lean` takes every registry call as ONE atomic step, although the readers (Get / Has / Range) run
      under RLock, overlap with each other, and read the map several times.  Here: in every execution that is possible
      under RWMutex semantics (`Conc.runRW`), the shared state does not change while a reader is inside
      (`rw_reads_stable`), so every read of a section answers what the operation answers in the state the section
      was entered in (`rw_section_result`: the section is one atomic step at its RLock), and the whole execution is
      an execution of the atomic-step model with the same final state and the same results (`rw_run_atomic`).
  (2) `Model/LockOrder.lean` takes every lock as exclusive.  Here: a thread that can move in the exclusive model can
      move under RWMutex semantics (`enabled_forget`), steps commute with forgetting the modes (`stepR_forget`), and
      the lock discipline gives progress in every state reachable under RWMutex semantics (`no_deadlock_rw`).
-/
import Gozod.Model.Conc
import Gozod.Model.LockOrder
import Gozod.Proofs.C14Order

namespace Gozod.C14
open Gozod.Conc Gozod.LockOrder

/-! ### (1) readers commute -/

/-- one possible step either leaves the shared state alone or is a writer's section, which needs the readers gone -/
theorem stepRW_reader_inside (s s' : RWState) (a : RWAct) (o : Option Res) (tid : Nat)
    (hin : tid ∈ s.readers) (hne : a ≠ .runlock tid) (h : stepRW s a = some (s', o)) :
    s'.σ = s.σ ∧ tid ∈ s'.readers := by
  cases a with
  | rlock t =>
    simp only [stepRW, Option.some.injEq, Prod.mk.injEq] at h
    obtain ⟨rfl, _⟩ := h
    exact ⟨rfl, List.mem_cons_of_mem _ hin⟩
  | read t op =>
    simp only [stepRW] at h
    split at h
    · simp only [Option.some.injEq, Prod.mk.injEq] at h
      obtain ⟨rfl, _⟩ := h
      exact ⟨rfl, hin⟩
    · exact absurd h (by simp)
  | runlock t =>
    simp only [stepRW] at h
    split at h
    · simp only [Option.some.injEq, Prod.mk.injEq] at h
      obtain ⟨rfl, _⟩ := h
      have htne : tid ≠ t := by
        intro he
        exact hne (by rw [he])
      exact ⟨rfl, (List.mem_erase_of_ne htne).2 hin⟩
    · exact absurd h (by simp)
  | write t op =>
    simp only [stepRW] at h
    split at h
    · rename_i he
      rw [List.isEmpty_iff] at he
      rw [he] at hin
      exact absurd hin (by simp)
    · exact absurd h (by simp)

/-- **rw_reads_stable**: while a reader is inside its section (it entered before, and has not left), whatever the other
    threads do — other readers entering, reading, leaving; writers trying — the shared state stays what it was. -/
theorem rw_reads_stable (tid : Nat) : ∀ (acts : List RWAct) (s s' : RWState) (os : List (Option Res)),
    tid ∈ s.readers → (.runlock tid) ∉ acts → runRW s acts = some (s', os) → s'.σ = s.σ ∧ tid ∈ s'.readers
  | [], s, s', os, hin, _, h => by
    simp only [runRW, Option.some.injEq, Prod.mk.injEq] at h
    obtain ⟨rfl, _⟩ := h
    exact ⟨rfl, hin⟩
  | a :: r, s, s', os, hin, hno, h => by
    simp only [runRW] at h
    cases hs : stepRW s a with
    | none => rw [hs] at h; exact absurd h (by simp)
    | some p =>
      obtain ⟨s1, o⟩ := p
      rw [hs] at h
      simp only at h
      cases hr : runRW s1 r with
      | none => rw [hr] at h; exact absurd h (by simp)
      | some q =>
        obtain ⟨s2, os2⟩ := q
        rw [hr] at h
        simp only [Option.some.injEq, Prod.mk.injEq] at h
        obtain ⟨rfl, _⟩ := h
        have hne : a ≠ .runlock tid := by
          intro he
          exact hno (by rw [he]; exact List.mem_cons_self)
        obtain ⟨h1, h1in⟩ := stepRW_reader_inside s s1 a o tid hin hne hs
        obtain ⟨h2, h2in⟩ := rw_reads_stable tid r s1 s2 os2 h1in (fun hm => hno (List.mem_cons_of_mem _ hm)) hr
        exact ⟨h2.trans h1, h2in⟩

/-- **rw_section_result**: a read made anywhere inside a read section — after any number of steps of other threads —
    answers exactly what the operation answers in the state the section was entered in: the section as a whole takes
    effect at one instant (its RLock), between the call's invocation and its response. -/
theorem rw_section_result (tid : Nat) (op : Op) (s s1 s2 s3 : RWState) (mid : List RWAct) (os : List (Option Res))
    (o1 o : Option Res)
    (hlock : stepRW s (.rlock tid) = some (s1, o1)) (hmid : runRW s1 mid = some (s2, os))
    (hno : (.runlock tid) ∉ mid) (hread : stepRW s2 (.read tid op) = some (s3, o)) :
    o = some (apply s.σ op).2 ∧ s3.σ = s.σ := by
  simp only [stepRW, Option.some.injEq, Prod.mk.injEq] at hlock
  obtain ⟨rfl, _⟩ := hlock
  have hin : tid ∈ (RWState.mk s.σ (tid :: s.readers)).readers := List.mem_cons_self
  obtain ⟨hσ, _⟩ := rw_reads_stable tid mid _ s2 os hin hno hmid
  simp only [stepRW] at hread
  split at hread
  · simp only [Option.some.injEq, Prod.mk.injEq] at hread
    obtain ⟨rfl, rfl⟩ := hread
    simp only at hσ
    exact ⟨by rw [hσ], hσ⟩
  · exact absurd hread (by simp)

theorem runC_sigma_loaded (c : CState) (acts : List RWAct) : ((runC c (atomise acts)).1).loaded = c.loaded := by
  induction acts generalizing c with
  | nil => simp [atomise, runC]
  | cons a r ih =>
    cases a with
    | rlock t => simpa [atomise] using ih c
    | runlock t => simpa [atomise] using ih c
    | read t op => simp only [atomise, runC, stepC]; exact ih _
    | write t op => simp only [atomise, runC, stepC]; exact ih _

/-- **rw_run_atomic**: every execution that is possible under RWMutex semantics is an execution of the atomic-step
    model (`Conc.runC` over `Act.atomic` steps — the model `atomic_linearizable` is about): same final shared state,
    same results in the same order.  Readers overlapping each other is therefore invisible. -/
theorem rw_run_atomic : ∀ (acts : List RWAct) (s s' : RWState) (os : List (Option Res)) (ld : List (Nat × (Nat × Nat))),
    runRW s acts = some (s', os) →
    (runC ⟨s.σ, ld⟩ (atomise acts)).1.σ = s'.σ ∧ outputs (runC ⟨s.σ, ld⟩ (atomise acts)).2 = outputs os
  | [], s, s', os, ld, h => by
    simp only [runRW, Option.some.injEq, Prod.mk.injEq] at h
    obtain ⟨rfl, rfl⟩ := h
    simp [atomise, runC, outputs]
  | a :: r, s, s', os, ld, h => by
    simp only [runRW] at h
    cases hs : stepRW s a with
    | none => rw [hs] at h; exact absurd h (by simp)
    | some p =>
      obtain ⟨s1, o⟩ := p
      rw [hs] at h
      simp only at h
      cases hr : runRW s1 r with
      | none => rw [hr] at h; exact absurd h (by simp)
      | some q =>
        obtain ⟨s2, os2⟩ := q
        rw [hr] at h
        simp only [Option.some.injEq, Prod.mk.injEq] at h
        obtain ⟨rfl, rfl⟩ := h
        cases a with
        | rlock t =>
          simp only [stepRW, Option.some.injEq, Prod.mk.injEq] at hs
          obtain ⟨rfl, rfl⟩ := hs
          have := rw_run_atomic r _ s2 os2 ld hr
          simpa [atomise, outputs] using this
        | runlock t =>
          simp only [stepRW] at hs
          split at hs
          · simp only [Option.some.injEq, Prod.mk.injEq] at hs
            obtain ⟨rfl, rfl⟩ := hs
            have := rw_run_atomic r _ s2 os2 ld hr
            simpa [atomise, outputs] using this
          · exact absurd hs (by simp)
        | read t op =>
          simp only [stepRW] at hs
          split at hs
          · rename_i hc
            simp only [Option.some.injEq, Prod.mk.injEq] at hs
            obtain ⟨rfl, rfl⟩ := hs
            have hro : op.readOnly = true := by
              simp only [Bool.and_eq_true] at hc
              exact hc.2
            have hst : (apply s.σ op).1 = s.σ := by
              cases op <;> simp_all [Op.readOnly, apply]
            have := rw_run_atomic r s s2 os2 ld hr
            simp only [atomise, runC, stepC, outputs, List.filterMap_cons, id]
            rw [hst]
            exact ⟨this.1, by simpa [outputs] using this.2⟩
          · exact absurd hs (by simp)
        | write t op =>
          simp only [stepRW] at hs
          split at hs
          · simp only [Option.some.injEq, Prod.mk.injEq] at hs
            obtain ⟨rfl, rfl⟩ := hs
            have := rw_run_atomic r _ s2 os2 ld hr
            simp only [atomise, runC, stepC, outputs, List.filterMap_cons, id]
            exact ⟨this.1, by simpa [outputs] using this.2⟩
          · exact absurd hs (by simp)

/-- the hypotheses are inhabited: two readers inside at once, the second reading after the first left; a writer after both -/
example : (runRW ⟨St.init, []⟩
    [.write 1 (.add 5 7), .rlock 2, .rlock 3, .read 2 (.get 5), .runlock 2, .read 3 .rangeKeys, .runlock 3, .write 1 (.remove 5)]).map
      (fun p => (p.1.σ.reg, outputs p.2)) = some ([], [.unit, .found 7, .keys [5], .unit]) := by decide

/-- and a writer cannot enter while a reader is inside -/
example : runRW ⟨St.init, []⟩ [.rlock 2, .write 1 (.add 5 7)] = none := by decide

/-! ### (2) RWMutex blocks less than an exclusive lock; the discipline still gives progress -/

theorem forget_rest_nil (t : RThread) : t.forget.rest = [] ↔ t.rest = [] := by
  simp [RThread.forget]

/-- **enabled_forget**: a thread that can move when every lock is taken as exclusive can move under RWMutex semantics. -/
theorem enabled_forget (ts : List RThread) (t : RThread)
    (h : enabled (ts.map RThread.forget) t.forget = true) : enabledR ts t = true := by
  unfold enabled at h
  unfold enabledR
  cases hr : t.rest with
  | nil => simp [RThread.forget, hr] at h
  | cons e r =>
    cases e with
    | rel n => rfl
    | acq n w =>
      simp only [RThread.forget, hr, List.map_cons, REv.forget, List.all_map, List.all_eq_true, Function.comp,
        Bool.not_eq_true', List.contains_eq_mem, List.mem_map, decide_eq_false_iff_not] at h
      cases w with
      | true =>
        simp only [List.all_eq_true, bne_iff_ne, ne_eq]
        intro u hu x hx hxe
        exact h u hu ⟨x, hx, hxe⟩
      | false =>
        simp only [List.all_eq_true, Bool.not_eq_true', Bool.and_eq_false_imp, beq_iff_eq]
        intro u hu x hx hxe
        exact absurd ⟨x, hx, hxe⟩ (h u hu)

theorem relHeld_forget (n : Nat) : ∀ l : List (Nat × Bool), (relHeld n l).map (·.1) = (l.map (·.1)).erase n
  | [] => rfl
  | (m, w) :: r => by
    simp only [relHeld, List.map_cons, List.erase_cons]
    by_cases hm : m = n
    · simp [hm]
    · have : (m == n) = false := by simpa using hm
      simp [hm, this, relHeld_forget n r]

/-- **stepR_forget**: a step under RWMutex semantics is the step of the exclusive model on the thread with the modes forgotten. -/
theorem stepR_forget (t : RThread) : (stepR t).forget = stepT t.forget := by
  unfold stepR stepT
  cases hr : t.rest with
  | nil => simp [RThread.forget, hr]
  | cons e r =>
    cases e with
    | rel n => simp [RThread.forget, hr, REv.forget, relHeld_forget]
    | acq n w => simp [RThread.forget, hr, REv.forget]

inductive StepRW : List RThread → List RThread → Prop
  | mk (pre : List RThread) (t : RThread) (post : List RThread) :
      enabledR (pre ++ t :: post) t = true → StepRW (pre ++ t :: post) (pre ++ stepR t :: post)

inductive ReachRW : List RThread → List RThread → Prop
  | refl (ts) : ReachRW ts ts
  | step {a b c} : ReachRW a b → StepRW b c → ReachRW a c

theorem reachRW_wr {a b : List RThread} (hr : ReachRW a b) (h : ∀ t ∈ a, wr t.forget.held t.forget.rest = true) :
    ∀ t ∈ b, wr t.forget.held t.forget.rest = true := by
  induction hr with
  | refl => exact h
  | step _ hs ih =>
    cases hs with
    | mk pre t post _ =>
      intro u hu
      rcases List.mem_append.1 hu with hu | hu
      · exact ih u (List.mem_append.2 (Or.inl hu))
      · rcases List.mem_cons.1 hu with rfl | hu
        · rw [stepR_forget]
          exact wr_step _ (ih t (List.mem_append.2 (Or.inr (List.mem_cons_self))))
        · exact ih u (List.mem_append.2 (Or.inr (List.mem_cons_of_mem _ hu)))

/-- **no_deadlock_rw**: threads whose programs (modes forgotten) keep the lock discipline, started holding nothing and
    run under sync.RWMutex semantics — read acquires blocked only by a writer inside —: in every reachable state,
    including those with several readers inside one lock, if some thread is unfinished some thread can move. -/
theorem no_deadlock_rw (progs : List (List REv)) (h : ∀ p ∈ progs, wr [] (p.map REv.forget) = true)
    (ts : List RThread) (hr : ReachRW (progs.map (fun p => ⟨[], p⟩)) ts) (hu : ∃ t ∈ ts, t.rest ≠ []) :
    ∃ t ∈ ts, enabledR ts t = true := by
  have hw : ∀ t ∈ ts, wr t.forget.held t.forget.rest = true := by
    refine reachRW_wr hr ?_
    intro t ht
    obtain ⟨p, hp, rfl⟩ := List.mem_map.1 ht
    exact h p hp
  have hu' : ∃ t ∈ ts.map RThread.forget, t.rest ≠ [] := by
    obtain ⟨t, ht, hne⟩ := hu
    exact ⟨t.forget, List.mem_map.2 ⟨t, ht, rfl⟩, fun he => hne ((forget_rest_nil t).1 he)⟩
  have hw' : ∀ t ∈ ts.map RThread.forget, wr t.held t.rest = true := by
    intro t ht
    obtain ⟨u, hu1, rfl⟩ := List.mem_map.1 ht
    exact hw u hu1
  obtain ⟨t, ht, hen⟩ := progress (ts.map RThread.forget) hw' hu'
  obtain ⟨u, hu1, rfl⟩ := List.mem_map.1 ht
  exact ⟨u, hu1, enabled_forget ts u hen⟩

/-- the hypotheses are inhabited, and the state with two readers inside one lock is reachable under RWMutex semantics
    (it is not in the exclusive model) -/
example : enabledR [⟨[(0, false)], [.rel 0]⟩, ⟨[], [.acq 0 false, .rel 0]⟩] ⟨[], [.acq 0 false, .rel 0]⟩ = true ∧
    enabled [⟨[0], [.rel 0]⟩, ⟨[], [.acq 0, .rel 0]⟩] ⟨[], [.acq 0, .rel 0]⟩ = false := by decide

end Gozod.C14
