import Gozod.Drv.Loop
import Gozod.Drv.C10
def main : IO Unit := Gozod.Drv.runLines Gozod.Drv.C10.handleLine
