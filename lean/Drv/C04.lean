import Gozod.Drv.Loop
import Gozod.Drv.C04
def main : IO Unit := Gozod.Drv.runTokens Gozod.Drv.C04.handle
