package numgen

import (
	"fmt"
	"go/ast"
	"go/constant"
	"go/token"
	"math"
	"strings"
)

// switchArms renders a tagless `switch { case c: … }` as (condition text, body text) pairs; the
// default arm has the condition "default".
func switchArms(f *file, sw *ast.SwitchStmt) []string {
	var arms []string
	for _, cc := range sw.Body.List {
		cl := cc.(*ast.CaseClause)
		cond := "default"
		if cl.List != nil {
			var cs []string
			for _, e := range cl.List {
				cs = append(cs, f.text(e))
			}
			cond = strings.Join(cs, ", ")
		}
		arms = append(arms, "("+leanStr(cond)+", "+leanStr(f.text(cl.Body))+")")
	}
	return arms
}

// GenNum produces Gen/NumDispatch.lean.
func GenNum(repo string) (string, error) {
	f, err := parse(repo, "pkg/validate/validate.go")
	if err != nil {
		return "", err
	}
	var b strings.Builder
	fmt.Fprintf(&b, header, "pkg/validate/validate.go, internal/checks/numeric.go, types/integer.go, types/float.go", "C16", "NumDispatch")
	{
		h := strings.Replace(b.String(), "import Gozod.Model.Dispatch\n", "import Gozod.Model.Dispatch\nimport Gozod.Model.Arms\n", 1)
		b.Reset()
		b.WriteString(h)
	}

	// --- toNum: Go type → (payload kind, field, conversion) -------------------------------------
	fd, err := f.fn("toNum")
	if err != nil {
		return "", err
	}
	var cases []string
	for _, st := range fd.Body.List {
		ts, ok := st.(*ast.TypeSwitchStmt)
		if !ok {
			continue
		}
		for _, cc := range ts.Body.List {
			cl := cc.(*ast.CaseClause)
			if cl.List == nil {
				if txt := f.text(cl.Body); txt != "return num{}, false" {
					return "", fmt.Errorf("toNum: default clause is %q", txt)
				}
				continue
			}
			kind, field, conv := "?", "?", "?"
			if len(cl.Body) == 1 {
				if ret, ok := cl.Body[0].(*ast.ReturnStmt); ok && len(ret.Results) == 2 && f.text(ret.Results[1]) == "true" {
					if lit, ok := ret.Results[0].(*ast.CompositeLit); ok && f.text(lit.Type) == "num" && len(lit.Elts) == 2 {
						for _, el := range lit.Elts {
							kv := el.(*ast.KeyValueExpr)
							if f.text(kv.Key) == "kind" {
								kind = f.text(kv.Value)
							} else {
								field = f.text(kv.Key)
								if id, ok := kv.Value.(*ast.Ident); ok && id.Name == "x" {
									conv = ""
								} else if t, a, ok := convCall(kv.Value); ok && f.text(a) == "x" {
									conv = t
								}
							}
						}
					}
				}
			}
			for _, te := range cl.List {
				cases = append(cases, fmt.Sprintf("{ ty := %s, kind := %s, field := %s, conv := %s }", leanStr(f.text(te)), leanStr(kind), leanStr(field), leanStr(conv)))
			}
		}
	}
	if len(cases) == 0 {
		return "", fmt.Errorf("toNum: no clauses")
	}
	fmt.Fprintf(&b, "structure NumCase where\n  ty : String\n  kind : String\n  field : String\n  conv : String\n  deriving Repr, DecidableEq\n\n")
	fmt.Fprintf(&b, "/-- `toNum`: the clauses of its type switch (every other type reports false). -/\ndef toNum : List NumCase := [\n  %s\n]\n\n", strings.Join(cases, ",\n  "))

	// --- the tagless switches: (condition, body) texts ------------------------------------------
	for _, name := range []string{"compareNumeric", "cmpFloats", "cmpInts", "multipleOfInts"} {
		fd, err := f.fn(name)
		if err != nil {
			return "", err
		}
		var frame []string
		var arms []string
		for _, st := range fd.Body.List {
			if sw, ok := st.(*ast.SwitchStmt); ok && sw.Tag == nil && arms == nil {
				arms = switchArms(f, sw)
				frame = append(frame, "«switch»")
				continue
			}
			frame = append(frame, f.text(st))
		}
		if arms == nil {
			return "", fmt.Errorf("%s: no tagless switch", name)
		}
		fmt.Fprintf(&b, "/-- `%s`: the arms of its switch, in order (condition, body). -/\ndef %s : List (String × String) := [\n  %s\n]\n\ndef %s_frame : String :=\n  %s\n\n",
			name, name, strings.Join(arms, ",\n  "), name, leanStr(strings.Join(frame, "; ")))
		if name != "compareNumeric" {
			// the same switch as terms of Model/Arms.lean: conditions and statements, with Go's machine semantics
			astTxt, err := armsAST(f, fd)
			if err != nil {
				return "", err
			}
			fmt.Fprintf(&b, "/-- `%s` as terms of `Gozod.Arms` (interpreted by `Arms.runArms`; `Proofs/C16Arms.lean`). -/\ndef %s_ast : List (Arms.BE × List Arms.St) := %s\n\n", name, name, astTxt)
		}
	}

	// --- cmpIntFloat: constants, guards (structured), frame -------------------------------------
	fd, err = f.fn("cmpIntFloat")
	if err != nil {
		return "", err
	}
	c := &ctx{f: f, consts: map[string]constant.Value{}, alias: map[string]string{"f": "self", "t": "trunc"}, class: "float64"}
	for _, st := range fd.Body.List {
		if ds, ok := st.(*ast.DeclStmt); ok {
			collectConsts(c, ds)
		}
	}
	retLit := func(st ast.Stmt) (string, bool) {
		ret, ok := st.(*ast.ReturnStmt)
		if !ok || len(ret.Results) != 2 {
			return "", false
		}
		if f.text(ret.Results[1]) == "false" {
			return ".fail .format", true // unordered
		}
		if v, ok := c.constVal(ret.Results[0]); ok && f.text(ret.Results[1]) == "true" {
			return ".lit " + leanIntC(v), true
		}
		return "", false
	}
	guardsOf := func(sw *ast.SwitchStmt) ([]string, error) {
		var gs []string
		for _, cc := range sw.Body.List {
			cl := cc.(*ast.CaseClause)
			if cl.List == nil || len(cl.List) != 1 || len(cl.Body) != 1 {
				return nil, fmt.Errorf("cmpIntFloat: unexpected arm %s", f.text(cl))
			}
			out, ok := retLit(cl.Body[0])
			if !ok {
				return nil, fmt.Errorf("cmpIntFloat: unexpected arm body %s", f.text(cl.Body))
			}
			gs = append(gs, "{ cond := "+c.cond(cl.List[0])+", out := "+out+" }")
		}
		return gs, nil
	}
	var pre, ug, ig []string
	var ucmp, icmp string
	var frame []string
	for _, st := range fd.Body.List {
		switch s := st.(type) {
		case *ast.SwitchStmt:
			if s.Tag == nil && pre == nil {
				if pre, err = guardsOf(s); err != nil {
					return "", err
				}
				frame = append(frame, "«nan/inf switch»")
				continue
			}
		case *ast.IfStmt:
			if f.text(s.Cond) == "n.kind == numUint" && s.Else != nil && ug == nil {
				grab := func(blk *ast.BlockStmt) ([]string, string, error) {
					if len(blk.List) != 2 {
						return nil, "", fmt.Errorf("cmpIntFloat: branch has %d statements", len(blk.List))
					}
					sw, ok := blk.List[0].(*ast.SwitchStmt)
					if !ok {
						return nil, "", fmt.Errorf("cmpIntFloat: branch does not start with a switch")
					}
					g, err := guardsOf(sw)
					return g, f.text(blk.List[1]), err
				}
				if ug, ucmp, err = grab(s.Body); err != nil {
					return "", err
				}
				eb, ok := s.Else.(*ast.BlockStmt)
				if !ok {
					return "", fmt.Errorf("cmpIntFloat: else is not a block")
				}
				if ig, icmp, err = grab(eb); err != nil {
					return "", err
				}
				frame = append(frame, "«if n.kind == numUint {guards; "+ucmp+"} else {guards; "+icmp+"}»")
				continue
			}
		}
		frame = append(frame, f.text(st))
	}
	if pre == nil || ug == nil {
		return "", fmt.Errorf("cmpIntFloat: structure not recognised")
	}
	fmt.Fprintf(&b, "/-- `cmpIntFloat`: guards over the float `f` (`.trunc` = `t := math.Trunc(f)`); `.lit c` = `return c, true`, `.fail` = unordered. -/\n")
	fmt.Fprintf(&b, "def cmpIntFloat_pre : List Guard := [\n  %s\n]\n\ndef cmpIntFloat_uint : List Guard := [\n  %s\n]\n\ndef cmpIntFloat_int : List Guard := [\n  %s\n]\n\n",
		strings.Join(pre, ",\n  "), strings.Join(ug, ",\n  "), strings.Join(ig, ",\n  "))
	fmt.Fprintf(&b, "def cmpIntFloat_uintCmp : String := %s\ndef cmpIntFloat_intCmp : String := %s\ndef cmpIntFloat_frame : String :=\n  %s\n\n", leanStr(ucmp), leanStr(icmp), leanStr(strings.Join(frame, "; ")))

	// --- Lt/Lte/Gt/Gte: `return ok && c <rel> 0`; sign shorthands: `return Gt(value, 0)` --------------
	var ops []string
	for _, name := range []string{"Lt", "Lte", "Gt", "Gte"} {
		fd, err := f.fn(name)
		if err != nil {
			return "", err
		}
		if len(fd.Body.List) != 2 || f.text(fd.Body.List[0]) != "c, ok := compareNumeric(value, limit)" {
			return "", fmt.Errorf("%s: unexpected body %s", name, f.text(fd.Body.List))
		}
		ret, ok := fd.Body.List[1].(*ast.ReturnStmt)
		if !ok || len(ret.Results) != 1 {
			return "", fmt.Errorf("%s: unexpected return", name)
		}
		be, ok := ret.Results[0].(*ast.BinaryExpr)
		if !ok || be.Op != token.LAND || f.text(be.X) != "ok" {
			return "", fmt.Errorf("%s: unexpected return %s", name, f.text(ret))
		}
		cmp, ok := be.Y.(*ast.BinaryExpr)
		if !ok || f.text(cmp.X) != "c" || f.text(cmp.Y) != "0" {
			return "", fmt.Errorf("%s: unexpected test %s", name, f.text(be.Y))
		}
		ops = append(ops, "("+leanStr(name)+", "+"Rel"+relOf[cmp.Op]+")")
	}
	fmt.Fprintf(&b, "/-- `validate.Lt/Lte/Gt/Gte`: `return ok && c <rel> 0` over `compareNumeric(value, limit)`. -/\ndef cmpOps : List (String × Rel) := [%s]\n\n", strings.Join(ops, ", "))

	short := func(ff *file, name string, recvOK bool) (string, error) {
		// `return Gt(value, 0)` / `return Gt(0, params...)` / `return z.Gt(0, params...)`
		var fd *ast.FuncDecl
		for _, d := range ff.f.Decls {
			if x, ok := d.(*ast.FuncDecl); ok && x.Name.Name == name && (x.Recv != nil) == recvOK {
				fd = x
				break
			}
		}
		if fd == nil || len(fd.Body.List) != 1 {
			return "", fmt.Errorf("%s: %s not a one-liner", ff.path, name)
		}
		ret, ok := fd.Body.List[0].(*ast.ReturnStmt)
		if !ok || len(ret.Results) != 1 {
			return "", fmt.Errorf("%s: %s not a return", ff.path, name)
		}
		call, ok := ret.Results[0].(*ast.CallExpr)
		if !ok {
			return "", fmt.Errorf("%s: %s does not return a call", ff.path, name)
		}
		callee := ff.text(call.Fun)
		cc := &ctx{f: ff, consts: map[string]constant.Value{}, alias: map[string]string{}}
		return "(" + leanStr(name) + ", " + leanStr(callee) + ", [" + strings.Join(argList(ff, cc, fd, call), ", ") + "])", nil
	}
	var signs []string
	for _, n := range []string{"Positive", "Negative", "NonPositive", "NonNegative"} {
		s, err := short(f, n, false)
		if err != nil {
			return "", err
		}
		signs = append(signs, s)
	}
	fmt.Fprintf(&b, "/-- `validate.Positive/…`: (name, function called, its arguments as expressions over the parameters). -/\ndef signOps : List (String × String × List Arg) := [\n  %s\n]\n\n", strings.Join(signs, ",\n  "))

	// --- MultipleOf: the float rule ------------------------------------------------------------
	fd, err = f.fn("MultipleOf")
	if err != nil {
		return "", err
	}
	var fconsts []string
	ast.Inspect(fd.Body, func(n ast.Node) bool {
		if bl, ok := n.(*ast.BasicLit); ok && bl.Kind == token.FLOAT {
			v := constant.MakeFromLiteral(bl.Value, token.FLOAT, 0)
			x, _ := constant.Float64Val(v)
			fconsts = append(fconsts, fmt.Sprintf("(%s, %d)", leanStr(bl.Value), math.Float64bits(x)))
		}
		return true
	})
	fmt.Fprintf(&b, "/-- `validate.MultipleOf`: its text, and its float literals with their float64 bit patterns. -/\ndef MultipleOf_text : String :=\n  %s\n\ndef MultipleOf_consts : List (String × Nat) := [%s]\n\n", leanStr(f.text(fd.Body.List)), strings.Join(fconsts, ", "))

	// --- internal/checks/numeric.go: check constructor → validate function ---------------------
	cf, err := parse(repo, "internal/checks/numeric.go")
	if err != nil {
		return "", err
	}
	var wiring []string
	for _, d := range cf.f.Decls {
		fd, ok := d.(*ast.FuncDecl)
		if !ok || fd.Recv != nil {
			continue
		}
		if len(fd.Body.List) == 1 {
			s, err := short(cf, fd.Name.Name, false)
			if err != nil {
				return "", err
			}
			wiring = append(wiring, s)
			continue
		}
		var calls []string
		ast.Inspect(fd.Body, func(n ast.Node) bool {
			if call, ok := n.(*ast.CallExpr); ok {
				if sel, ok := call.Fun.(*ast.SelectorExpr); ok {
					if id, ok := sel.X.(*ast.Ident); ok && id.Name == "validate" {
						var args []string
						for _, a := range call.Args {
							args = append(args, cf.text(a))
						}
						calls = append(calls, "validate."+sel.Sel.Name+"("+strings.Join(args, ", ")+")")
					}
				}
			}
			return true
		})
		if len(calls) != 1 {
			return "", fmt.Errorf("internal/checks/numeric.go: %s makes %d validate calls", fd.Name.Name, len(calls))
		}
		neg := strings.Contains(cf.text(fd.Body), "if !"+calls[0])
		if !neg {
			return "", fmt.Errorf("internal/checks/numeric.go: %s does not raise its issue on !%s", fd.Name.Name, calls[0])
		}
		wiring = append(wiring, "("+leanStr(fd.Name.Name)+", "+leanStr(calls[0])+", [])")
	}
	fmt.Fprintf(&b, "/-- `internal/checks`: constructor → the `validate` call whose negation raises the issue (or the constructor it forwards to, with its arguments as expressions over the parameters). -/\ndef checkCtors : List (String × String × List Arg) := [\n  %s\n]\n\n", strings.Join(wiring, ",\n  "))

	// --- schema methods → check constructors ----------------------------------------------------
	for _, spec := range []struct{ file, recv, def string }{{"types/integer.go", "ZodIntegerTyped", "integerMethods"}, {"types/float.go", "ZodFloatTyped", "floatMethods"}} {
		tf, err := parse(repo, spec.file)
		if err != nil {
			return "", err
		}
		var ms []string
		for _, m := range tf.methods(spec.recv) {
			switch m.Name.Name {
			case "Min", "Max", "Gt", "Gte", "Lt", "Lte", "Positive", "Negative", "NonNegative", "NonPositive", "MultipleOf", "Step", "Safe":
			default:
				continue
			}
			cc := &ctx{f: tf, consts: map[string]constant.Value{}, alias: map[string]string{}}
			var ret *ast.ReturnStmt
			var extra []string // statements besides constant declarations and the one return: early returns, side conditions
			for _, st := range m.Body.List {
				switch x := st.(type) {
				case *ast.DeclStmt:
					collectConsts(cc, x)
				case *ast.ReturnStmt:
					if ret != nil {
						extra = append(extra, tf.text(ret))
					}
					ret = x
				default:
					extra = append(extra, tf.text(st))
				}
			}
			if ret == nil || len(ret.Results) != 1 {
				return "", fmt.Errorf("%s: %s has no single return", spec.file, m.Name.Name)
			}
			// flatten a chain z.A(args).B(args) or z.withCheck(checks.X(args))
			var chain []string
			for _, x := range extra {
				// not a call chain: the method does something before (or instead of) attaching its check —
				// an entry no resolution goes through, so `methods_table` fails on it
				chain = append(chain, "(false, "+leanStr("«"+x+"»")+", .raw \"\")")
			}
			var walk func(e ast.Expr) error
			walk = func(e ast.Expr) error {
				call, ok := e.(*ast.CallExpr)
				if !ok {
					if tf.text(e) == "z" {
						return nil
					}
					return fmt.Errorf("%s: %s: unexpected %s", spec.file, m.Name.Name, tf.text(e))
				}
				sel, ok := call.Fun.(*ast.SelectorExpr)
				if !ok {
					return fmt.Errorf("%s: %s: unexpected call %s", spec.file, m.Name.Name, tf.text(call))
				}
				if err := walk(sel.X); err != nil {
					return err
				}
				name := sel.Sel.Name
				args := call.Args
				if name == "withCheck" && len(args) == 1 {
					inner, ok := args[0].(*ast.CallExpr)
					if !ok {
						return fmt.Errorf("%s: %s: withCheck of %s", spec.file, m.Name.Name, tf.text(args[0]))
					}
					name = tf.text(inner.Fun)
					args = inner.Args
				}
				// the FIRST argument as an expression: the method's own first parameter passed unchanged
				// (`.param 0`), a constant (`.lit n`), or anything else as raw Go text (`.raw`: no meaning,
				// `methods_table` fails on it — round 4c, audit M10: `checks.Gt(value+1)` used to look like `value`)
				arg := ".raw " + leanStr("«no argument»")
				if len(args) > 0 {
					arg = argOf(tf, cc, m, args[0])
				}
				viaChecks := "false"
				if strings.HasPrefix(name, "checks.") {
					viaChecks, name = "true", strings.TrimPrefix(name, "checks.")
				}
				chain = append(chain, "("+viaChecks+", "+leanStr(name)+", "+arg+")")
				return nil
			}
			if err := walk(ret.Results[0]); err != nil {
				return "", err
			}
			ptype := ""
			if len(m.Type.Params.List) > 0 && tf.text(m.Type.Params.List[0].Type) != "...any" {
				ptype = tf.text(m.Type.Params.List[0].Type)
			}
			ms = append(ms, "("+leanStr(m.Name.Name)+", "+leanStr(ptype)+", ["+strings.Join(chain, ", ")+"])")
		}
		if len(ms) == 0 {
			return "", fmt.Errorf("%s: no numeric methods found", spec.file)
		}
		fmt.Fprintf(&b, "/-- `%s`: method → (bound parameter type, the chain of (through `checks.`?, check constructor / method, argument) it applies;\n    argument `.param 0` = the method's own bound passed unchanged, `.lit n` = a constant, `.raw` = any other expression). -/\ndef %s : List (String × String × List (Bool × String × Arg)) := [\n  %s\n]\n\n", spec.recv, spec.def, strings.Join(ms, ",\n  "))
	}
	b.WriteString("end Gozod.Gen.NumDispatch\n")
	return b.String(), nil
}

// argOf renders one call argument as a term of `Dispatch.Arg`: `.param i` = the i-th parameter of the
// enclosing function passed unchanged, `.rest` = the variadic parameter forwarded (`params...`),
// `.lit n` = an integer constant, `.raw "<go>"` = anything else (no meaning on the Lean side).
func argOf(ff *file, cc *ctx, fd *ast.FuncDecl, a ast.Expr) string {
	if id, ok := a.(*ast.Ident); ok {
		i := 0
		for _, fld := range fd.Type.Params.List {
			for _, n := range fld.Names {
				if n.Name == id.Name {
					if _, variadic := fld.Type.(*ast.Ellipsis); variadic {
						break
					}
					return fmt.Sprintf(".param %d", i)
				}
				i++
			}
		}
	}
	if v, ok := cc.constVal(a); ok && constant.ToInt(v).Kind() == constant.Int {
		return ".lit " + leanIntC(v)
	}
	return ".raw " + leanStr(ff.text(a))
}

func argList(ff *file, cc *ctx, fd *ast.FuncDecl, call *ast.CallExpr) []string {
	var out []string
	for i, a := range call.Args {
		if call.Ellipsis.IsValid() && i == len(call.Args)-1 {
			if id, ok := a.(*ast.Ident); ok {
				last := fd.Type.Params.List[len(fd.Type.Params.List)-1]
				if _, variadic := last.Type.(*ast.Ellipsis); variadic && len(last.Names) == 1 && last.Names[0].Name == id.Name {
					out = append(out, ".rest")
					continue
				}
			}
		}
		out = append(out, argOf(ff, cc, fd, a))
	}
	return out
}

func leanIntC(v constant.Value) string {
	s := constant.ToInt(v).ExactString()
	if strings.HasPrefix(s, "-") {
		return "(" + s + ")"
	}
	return s
}
