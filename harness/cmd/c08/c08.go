package main

// C08 — schemas are immutable values: deriving a schema never changes an existing one.
//
// Histories of real API calls.  Every exported method of every schema type that returns a schema is
// enumerated by reflection and invoked with synthesised arguments: directly on a fresh base (with a sibling
// fan-out), after a random prefix of other chaining calls, and in long check chains crossing the slice
// capacities 1,2,4,8,16 with sibling pairs derived at every boundary.  After each call the harness recomputes,
// for every live schema, the exported-internals snapshot and the behavioural fingerprint (verdicts on a probe
// set, IsOptional/IsNilable, ToJSONSchema) and compares them with the values recorded when that schema was
// created: "nothing live changed and the result is not the receiver" is the property oracle, evaluated on the
// implementation alone.  The op line is the abstract history (op class per call + aliasing-relevant
// parameters); the Lean store model must predict the same verdicts and the same sharing structure
// (which live schemas share Bag / Checks array / Values with the result, and the result's slice header).

import (
	"fmt"
	"os"
	"sort"
	"strings"

	"verifharness/hx"
	"verifharness/storex"
)

func main() {
	if err := run(hx.ParseFlags()); err != nil {
		fmt.Fprintln(os.Stderr, "harness error:", err)
		os.Exit(3)
	}
}

type liveT struct {
	s    storex.Schema
	snap storex.Snap
	fp   string
}

type hist struct {
	base  storex.Base
	live  []*liveT
	steps []string // op-line step tokens
	verd  []string
	strct []string
	names []string
	deepOnly int
	baseHdr  string
}

func newHist(b storex.Base) *hist {
	s := b.Mk().(storex.Schema)
	h := &hist{base: b}
	fp := storex.Fingerprint(s, true)
	h.live = append(h.live, &liveT{s: s, snap: storex.TakeSnap(s), fp: fp})
	return h
}

var rebuildSet = map[string]bool{}
var accessSet = map[string]bool{}

func init() {
	for _, n := range strings.Fields(`WithRest Extend SafeExtend Merge Pick Omit MustPick MustOmit MustExtend Keyof And Or
		Array Slice Exclude Extract MustExclude MustExtract Input Output Implement ImplementAsync`) {
		rebuildSet[n] = true
	}
	for _, n := range strings.Fields(`Unwrap Inner Element Elem KeyType ValueType KeySchema ValueSchema Left Right Rest GetInner
		GetRest GetCatchall Catchall InnerType Options Shape GetUnknownKeys`) {
		accessSet[n] = true
	}
}

func (h *hist) classify(b storex.Base, recv *liveT, method string, variant int, res storex.Schema, rs storex.Snap) (string, int) {
	if accessSet[method] {
		for j, l := range h.live {
			if any(l.s) == any(res) {
				return "alias", j // the accessor handed out a schema that is already live
			}
		}
		return "access", 0
	}
	if any(res) == any(recv.s) {
		if method == "Meta" {
			return "metaself", variant
		}
		return "self", 0
	}
	switch {
	case method == "And" || method == "Or":
		return "wrap", 0 // constructor-built composite that holds the receiver as a member
	case rebuildSet[method]:
		return "rebuild", 0
	case (method == "Meta" || method == "Describe") && strings.Contains(fmt.Sprintf("%T", res), "ZodString["):
		return "copymeta", variant // ZodString.withMeta (also reached through the types embedding *ZodString)
	case method == "Partial" && strings.Contains(fmt.Sprintf("%T", recv.s), "ZodRecord"):
		return "bagwrite", 0
	}
	k := rs.Len - recv.snap.Len
	if k < 0 || !strings.HasPrefix(rs.CheckIDs, recv.snap.CheckIDs) {
		return "refilter", 0
	}
	return "derive", k
}

// shortType is the receiver's schema type without package and type arguments (ZodIntegerTyped, ZodString, …).
func shortType(x any) string {
	s := fmt.Sprintf("%T", x)
	if i := strings.Index(s, "["); i >= 0 {
		s = s[:i]
	}
	if i := strings.LastIndex(s, "."); i >= 0 {
		s = s[i+1:]
	}
	return s
}

func sameType(a, b any) bool { return fmt.Sprintf("%T", a) == fmt.Sprintf("%T", b) }

// sameFamily: same generic schema type up to its type arguments (Optional() turns ZodString[string] into ZodString[*string]).
func sameFamily(a, b any) bool {
	f := func(x any) string {
		s := fmt.Sprintf("%T", x)
		if i := strings.Index(s, "["); i >= 0 {
			s = s[:i]
		}
		return s
	}
	return f(a) == f(b)
}

func idx(xs []int) string {
	ss := make([]string, len(xs))
	for i, x := range xs {
		ss[i] = fmt.Sprint(x)
	}
	return strings.Join(ss, ",")
}

// step applies method to live[ri]; returns false when the call is not a chaining call for these arguments.
func (h *hist) step(ri int, method string, variant int, o *hx.Out) bool {
	recv := h.live[ri]
	res, ok, why := storex.Call(recv.s, method, variant)
	if !ok {
		o.Count("skipped:" + why)
		return false
	}
	// phase (a): what did the call itself do to the live schemas? (result not yet converted)
	var changed []int
	for i, l := range h.live {
		ns := storex.TakeSnap(l.s)
		nf := storex.Fingerprint(l.s, true)
		if ns.Content() == l.snap.Content() && nf != l.fp {
			// the converter itself is not deterministic for some schemas (Go map order, C12): a document that
			// merely flips between the values already seen for this very schema is not a change made by the call
			for try := 0; try < 12 && nf != l.fp; try++ {
				nf = storex.Fingerprint(l.s, true)
			}
			if nf == l.fp {
				o.Count("nondeterministic-conversion-seen")
			}
		}
		if ns.Content() != l.snap.Content() || nf != l.fp {
			changed = append(changed, i)
			if os.Getenv("C08_DEBUG") != "" {
				fmt.Fprintf(os.Stderr, "CHANGED %s live=%d by %d.%s\n  snap: %q\n     -> %q\n  fp: %s\n   -> %s\n", h.base.Name, i, ri, method,
					l.snap.Content(), ns.Content(), l.fp, nf)
			}
		} else if ns.Deep != l.snap.Deep {
			h.deepOnly++
		}
		l.snap, l.fp = ns, nf
	}
	rs := storex.TakeSnap(res)
	class, k := h.classify(h.base, recv, method, variant, res, rs)
	fresh := 1
	if any(res) == any(recv.s) {
		fresh = 0
	}
	var b, a, v []int
	for i, l := range h.live {
		if rs.BagPtr != 0 && rs.BagPtr == l.snap.BagPtr {
			b = append(b, i)
		}
		if rs.Cap > 0 && l.snap.Cap > 0 && rs.ChecksPtr == l.snap.ChecksPtr {
			a = append(a, i)
		}
		if rs.ValPtr != 0 && rs.ValPtr == l.snap.ValPtr {
			v = append(v, i)
		}
	}
	if class == "metaself" {
		// Meta() on the receiver also shows in composites that embed the receiver's document (And/Or members);
		// whether it does depends on the member being representable. Only the receiver itself (and its aliases in
		// the live list) is compared with the model; the propagation is counted.
		var own []int
		for _, i := range changed {
			if any(h.live[i].s) == any(recv.s) {
				own = append(own, i)
			} else {
				o.Count("meta-change-propagated-to-composite")
			}
		}
		changed = own
	}
	st := fmt.Sprintf("b%sa%sv%sh%d/%d", idx(b), idx(a), idx(v), rs.Len, rs.Cap)
	if class == "access" || class == "alias" {
		st, fresh = "-", 1 // accessors hand out an existing inner schema (possibly the receiver): only "nothing changed" applies
	}
	rm := 0 // does the result start with a registry entry? (only some types' withInternals copy the receiver's)
	if rs.Meta != "" {
		rm = 1
	}
	h.steps = append(h.steps, fmt.Sprintf("%d %s %d %d %d %s %s %d %s", ri, class, k, rs.Len, rs.Cap, rs.BagState, rs.ValState, rm, method+"@"+shortType(recv.s)))
	h.verd = append(h.verd, fmt.Sprintf("%d:%s", fresh, idx(changed)))
	h.strct = append(h.strct, st)
	h.names = append(h.names, fmt.Sprintf("%d.%s/%d", ri, method, variant))
	o.Count("class:" + class)
	// phase (b): warm the result up (first conversion) and re-baseline everybody; pollution of relatives by this
	// conversion is C12's business and only counted here.
	fp := storex.Fingerprint(res, true)
	for _, l := range h.live {
		ns := storex.TakeSnap(l.s)
		nf := storex.Fingerprint(l.s, true)
		if ns.Content() != l.snap.Content() || nf != l.fp {
			o.Count("convert-of-result-changed-a-relative")
		}
		l.snap, l.fp = ns, nf
	}
	h.live = append(h.live, &liveT{s: res, snap: storex.TakeSnap(res), fp: fp})
	return true
}

func (h *hist) emit(o *hx.Out, tag string) {
	if len(h.steps) == 0 {
		return
	}
	b0 := h.live[0]
	_ = b0
	op := fmt.Sprintf("c08 %s %s | %s #%s %s", h.base.Name, h.baseHdr, strings.Join(h.steps, " | "), tag, strings.Join(h.names, " "))
	o.Emit(op, "V:"+strings.Join(h.verd, ";")+" S:"+strings.Join(h.strct, ";"))
	if h.deepOnly > 0 {
		o.Count("deep-hash-only-change")
	}
}

func run(c hx.Config) error {
	o, err := hx.NewOut(c.OutDir)
	if err != nil {
		return err
	}
	rng := hx.NewRng(c.Seed)
	bases := storex.Bases()
	reps := 1
	if c.Thorough() {
		reps = 4
	}
	methodsSeen := map[string]bool{}
	for _, b := range bases {
		probe := b.Mk()
		methods := storex.Methods(probe)
		sort.Strings(methods)
		for _, m := range methods {
			methodsSeen[fmt.Sprintf("%T.%s", probe, m)] = true
		}
		for rep := 0; rep < reps; rep++ {
			for _, m := range methods {
				for variant := 0; variant < 2; variant++ {
					// A: directly on the fresh base, sibling fan-out, then on the result
					h := newHistH(b)
					if h.step(0, m, variant, o) {
						h.step(0, m, variant+1, o)
						h.step(0, hx.Pick(rng, methods), rng.Intn(3), o)
						last := len(h.live) - 1
						h.step(1, hx.Pick(rng, methods), rng.Intn(3), o)
						h.step(last, m, variant, o)
						h.emit(o, "A")
					}
					// B: after a random prefix
					h = newHistH(b)
					for i := 0; i < 2+rng.Intn(3); i++ {
						h.step(rng.Intn(len(h.live)), hx.Pick(rng, methods), rng.Intn(3), o)
					}
					ri := rng.Intn(len(h.live))
					if h.step(ri, m, variant, o) {
						h.step(ri, hx.Pick(rng, methods), rng.Intn(3), o)
						h.step(rng.Intn(len(h.live)), hx.Pick(rng, methods), rng.Intn(3), o)
						if c.Thorough() {
							for i := 0; i < 6; i++ {
								h.step(rng.Intn(len(h.live)), hx.Pick(rng, methods), rng.Intn(3), o)
							}
						}
						h.emit(o, "B")
					}
				}
			}
			// C: long check chains crossing capacities, siblings at every boundary
			for _, m := range methods {
				h := newHistH(b)
				if !h.step(0, m, 0, o) || !strings.HasPrefix(h.steps[0], "0 derive 1 ") {
					continue
				}
				cur := 1
				for n := 2; n <= 17; n++ {
					if n == 2 || n == 3 || n == 5 || n == 9 || n == 17 || n == 4 {
						h.step(cur, m, n, o) // sibling that is not continued
					}
					if !h.step(cur, m, n+1, o) {
						break
					}
					cur = len(h.live) - 1
				}
				h.emit(o, "C")
				if !c.Thorough() && rng.Intn(3) != 0 {
					break // quick tier: one or two chain methods per base
				}
			}
		}
	}
	return o.Close(map[string]any{"bases": len(bases), "type_methods": len(methodsSeen)})
}

func newHistH(b storex.Base) *hist {
	h := newHist(b)
	s := h.live[0].snap
	h.baseHdr = fmt.Sprintf("%s %s %d %d", s.BagState, s.ValState, s.Len, s.Cap)
	return h
}
