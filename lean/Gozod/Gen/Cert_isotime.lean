/- GENERATED: no certificate exists for isotime: the pattern and the specification differ on the byte string (hex) 30303a30303a30302c30 (pattern true, specification false). -/
