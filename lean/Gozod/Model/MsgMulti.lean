/-
  C18, round 5 — a check that reports SEVERAL issues in one run (a custom `Check` / `With` function pushing k issues).

  internal/engine/checker.go executeChecks, after `ci.Check(cp)`:
      if ci.Def != nil && ci.Def.Error != nil {
          errFn := *ci.Def.Error
          for j := range iss { iss[j].Message = errFn(iss[j]); iss[j].Inst = ci }
      }
  i.e. the check-level message is a FUNCTION of the issue and is evaluated PER ISSUE; every issue is then finalised on its
  own (FinalizeIssue).  `FnSources` keeps the check message as a function; `FnSources.at iss` is what FinalizeIssue sees for
  the issue `iss`.  The driver evaluates `multiMessages` — `expectedMessage` (= `nestedMessage` → `finalize`) issue by issue.
-/
import Gozod.Model.MsgExpect
namespace Gozod.Msg

/-- the five sources as functions of the issue (`none` = not configured) + the built-in text -/
structure FnSources (ρ : Type) where
  check : Option (ErrMap ρ)
  inst : Option (ErrMap ρ)
  parse : Option (ErrMap ρ)
  custom : Option (ErrMap ρ)
  locale : Option (ErrMap ρ)
  dflt : ErrMap ρ

/-- what FinalizeIssue sees for the issue `iss`: executeChecks has written `errFn(iss)` into `iss.Message` -/
def FnSources.at {ρ : Type} (fs : FnSources ρ) (iss : ρ) : Sources ρ :=
  { rawMsg := app fs.check iss, inst := fs.inst, parse := fs.parse, custom := fs.custom, locale := fs.locale, dflt := fs.dflt }

/-- the messages of the issues ONE check reported in one run, below a chain of positions: per issue -/
def multiMessages {ρ : Type} (drops : SrcSet) (chain : List String) (fs : FnSources ρ) (issues : List ρ) : List String :=
  issues.map fun iss => expectedMessage drops chain (fs.at iss) iss

/-- what the property demands, per issue: the first source that answers for THAT issue -/
def multiSpec {ρ : Type} (fs : FnSources ρ) (issues : List ρ) : List String :=
  issues.map fun iss =>
    firstNonEmpty [app fs.check iss, app fs.inst iss, app fs.parse iss, app fs.custom iss, app fs.locale iss] (fs.dflt iss)

/-- the `multi` cells: the sources are issue-dependent maps of the kinds of the `dep` family -/
def depFnSources (spec : List Char) : FnSources RawFeat :=
  let k := fun i => spec.getD i '-'
  { check := depMap (k 0) "c", inst := depMap (k 1) "s", parse := depMap (k 2) "p", custom := depMap (k 3) "g",
    locale := depMap (k 4) "l", dflt := fun _ => "d" }

/-- the raisers of the `multi` cells (harness/cmd/c18/multi.go) ↦ the sources that do not reach FinalizeIssue for the issues
    a custom check pushes: the schema's own message (as for every check-raised issue: `iss.Inst` is the CHECK when the check
    has a message, and unset otherwise) -/
def multiGaps : List (String × SrcSet) := [
  ("multi-string", .ofString "s"),
  ("multi-string-with", .ofString "s"),
  ("multi-int", .ofString "s"),
  ("multi-slice", .ofString "s"),
  ("multi-object", .ofString "s")]

/-- the seeded variant (seeded/C18e): the check-level message resolved ONCE, from the check's first issue, and stamped on
    every issue of the check — only in the witness theorem -/
def FnSources.atFirst {ρ : Type} (fs : FnSources ρ) (first : ρ) : Sources ρ :=
  { rawMsg := app fs.check first, inst := fs.inst, parse := fs.parse, custom := fs.custom, locale := fs.locale, dflt := fs.dflt }

def multiMessagesStamped {ρ : Type} (drops : SrcSet) (chain : List String) (fs : FnSources ρ) : List ρ → List String
  | [] => []
  | first :: rest => (first :: rest).map fun iss => expectedMessage drops chain (fs.atFirst first) iss

end Gozod.Msg
