package main

// C15 class "optr" (round 4c) — the pointer clause over the MODELLED schema language, schema and pointee in the op line.
//
// "…a pointer passed to a pointer-typed, optional or nilable schema comes back as the same pointer" (and, first clause, the
// input value graph — the pointee included — is unchanged). One case = a root schema of the `own` language
// (any / str / obj strip-loose-strict / slice / rec with members of the whole language, a Default around it 25 % of the time;
// lit roots 8 %: a literal takes no pointer; no union roots), one of the four ways of making it
//
//	v  types.X(…)              answers T
//	o  types.X(…).Optional()   answers *T
//	n  types.X(…).Nilable()    answers *T
//	p  types.XPtr(…)           answers *T
//
// and a generated pointee of the root's Go type (map[string]any / []any / string / any), mostly accepted, handed over through a
// fresh pointer to Parse (and StrictParse where the method takes the pointer).
//
//	c15 optr <parse|strict> <v|o|n|p> | T <string ids> | <schema> | R <l> 1 0 <pointee graph>
//
// Observation: "<u|W> <r|s|d|v|t> <h<look>|->": u/W = contents + addresses of everything reachable from the caller's pointer
// before / after; r = refused, s = the caller's pointer came back, d = another pointer of the same type, v = a value (not a
// pointer of the caller's type), t = a pointer-typed variant answered something that is no pointer of the caller's type; look =
// storex.SerHash of the answer. The Lean driver computes all of it from `Gozod.Graph.parsePtrP` on THIS schema and THIS pointee,
// and the statement's verdict from `Gozod.Graph.wantSame` (schema and pointee alone).

import (
	"fmt"
	"reflect"
	"strings"

	"github.com/kaptinlin/gozod/core"
	"github.com/kaptinlin/gozod/types"

	"verifharness/hx"
	"verifharness/storex"
)

// buildPtr builds the XPtr constructor for the root (below defaults); nil if there is none.
func (n *mnode) buildPtr() core.ZodSchema {
	switch n.kind {
	case "any":
		return types.AnyPtr()
	case "str":
		return types.StringPtr()
	case "lit":
		return types.LiteralPtrOf[any](n.vals)
	case "obj":
		shape := core.ObjectSchema{}
		for i, k := range n.keys {
			shape[k] = n.kids[i].build()
		}
		switch n.mode {
		case "l":
			return types.LooseObjectPtr(shape)
		case "x":
			return types.StrictObjectPtr(shape)
		}
		return types.ObjectPtr(shape)
	case "slice":
		return types.SlicePtr[any](n.kids[0].build())
	case "rec":
		return types.RecordPtr(types.String(), n.kids[0].build())
	case "union":
		return types.UnionPtr([]any{n.kids[0].build(), n.kids[1].build()})
	case "dflt":
		inner := n.kids[0].buildPtr()
		if inner == nil {
			return nil
		}
		m := reflect.ValueOf(inner).MethodByName("Default")
		if !m.IsValid() || m.Type().NumIn() != 1 || !reflect.TypeOf(n.vals[0]).AssignableTo(m.Type().In(0)) {
			return nil
		}
		for _, x := range m.Call([]reflect.Value{reflect.ValueOf(n.vals[0])}) {
			if z, ok := x.Interface().(core.ZodSchema); ok {
				return z
			}
		}
	}
	return nil
}

func (n *mnode) under() *mnode {
	for n.kind == "dflt" {
		n = n.kids[0]
	}
	return n
}

// pointerTo puts v into a fresh variable of the root's Go type and returns the pointer to it.
func pointerTo(rootKind string, v any) (any, bool) {
	switch rootKind {
	case "obj", "rec":
		m, ok := v.(map[string]any)
		if !ok {
			return nil, false
		}
		return &m, true
	case "slice":
		xs, ok := v.([]any)
		if !ok {
			return nil, false
		}
		return &xs, true
	case "str":
		s, ok := v.(string)
		if !ok {
			return nil, false
		}
		return &s, true
	default: // any, lit, union: T = any
		if v == nil {
			return nil, false
		}
		a := v
		return &a, true
	}
}

func runOptr(c hx.Config, o *hx.Out) error {
	if err := ownInit(); err != nil {
		return err
	}
	nCases := 1500
	if c.Thorough() {
		nCases = 60000
	}
	var strIDs []string
	for _, s := range ownStrs {
		strIDs = append(strIDs, fmt.Sprint(storex.ScalarID(s)))
	}
	root := hx.NewRng(c.Seed ^ 0xC15F)
	for ci := 0; ci < nCases; ci++ {
		r := hx.NewRng(root.Next())
		g := &mgen{r}
		var rootN *mnode
		switch {
		case r.Chance(8):
			// a literal takes no pointer. (A union root is not generated: each member is tried with the POINTER, and what a member
			// does with a `*any` is Go conversion detail outside the model — `parsePtrP` refuses union roots so that no theorem
			// says anything about them.)
			for rootN == nil || rootN.kind != "lit" {
				rootN = g.leaf()
			}
		default:
			switch r.Intn(8) {
			case 0:
				rootN = &mnode{kind: "any"}
			case 1:
				rootN = &mnode{kind: "str"}
			case 2, 3, 4:
				keys := append([]string{}, ownKeys[:3]...)[:1+r.Intn(3)]
				rootN = &mnode{kind: "obj", mode: hx.Pick(r, []string{"s", "s", "l", "x"}), keys: keys}
				for range keys {
					rootN.kids = append(rootN.kids, g.tree(ci%3, true))
				}
			case 5, 6:
				rootN = &mnode{kind: "slice", kids: []*mnode{g.tree(ci%3, true)}}
			default:
				rootN = &mnode{kind: "rec", kids: []*mnode{g.tree(ci%3, true)}}
			}
		}
		if rootN.kind != "str" && r.Chance(25) {
			var dv any
			switch rootN.kind {
			case "slice":
				dv = jcomposite(r, 1+r.Intn(2), false, true)
			case "obj", "rec":
				dv = jcomposite(r, 1+r.Intn(2), true, false)
			default:
				dv = jcomposite(r, 1+r.Intn(2), false, false)
			}
			rootN = &mnode{kind: "dflt", vals: []any{dv}, kids: []*mnode{rootN}}
		}
		under := rootN.under()
		kind := hx.Pick(r, []string{"v", "o", "n", "p", "o", "n", "p"})
		var s any
		if p := hx.Safely(func() {
			switch kind {
			case "v":
				s = rootN.build()
			case "p":
				if z := rootN.buildPtr(); z != nil {
					s = z
				}
			default:
				meth := "Optional"
				if kind == "n" {
					meth = "Nilable"
				}
				if d, ok, _ := storex.Call(rootN.build(), meth, 0); ok {
					s = d
				}
			}
		}); p != "" || s == nil || reflect.ValueOf(s).IsNil() {
			o.Count("optr:schema-build-failed:" + kind + ":" + under.kind)
			continue
		}
		// the pointee: an input for the root below the defaults (a default applies to a nil input, not to what a pointer refers to)
		// (its scalar leaves include floats chosen for equality — NaN, -0, the infinities: identity is a matter of bits)
		jvalFloats = true
		pv := under.in(r)
		jvalFloats = false
		if under.kind == "any" && r.Chance(35) {
			pv = hx.Pick(r, ownFloats) // the pointee itself a float leaf: *any holding a NaN / -0 / an infinity
		}
		if hasFloatLeaf(pv) {
			o.Count("optr:pointee-holds-nan-or-signed-zero-or-inf")
		}
		inp, ok := pointerTo(under.kind, pv)
		if !ok {
			o.Count("optr:pointee-not-of-the-roots-go-type")
			continue
		}
		me := storex.NewMultiEncoder()
		schemaTok := rootN.enc(me)
		inTok := me.Encode(inp)
		for _, entry := range []string{"parse", "strict"} {
			// a fresh equal pointee per entry (same encoding: cp keeps the shape, no sharing inside jval graphs)
			pin, _ := pointerTo(under.kind, cp(pv))
			before := storex.GraphDigest(storex.GraphCells(pin))
			var out any
			var err error
			ran := true
			if entry == "parse" {
				var p string
				out, err, p = storex.ParseAny(s, pin)
				ran = p == ""
				if !ran {
					o.Count("optr:panic")
					err = fmt.Errorf("panic: %s", p)
				}
			} else {
				out, err, ran = callParse(s, "strict", pin)
				if !ran {
					o.Count("optr:strict-does-not-take-the-pointer")
					continue
				}
			}
			u := "u"
			if storex.GraphDigest(storex.GraphCells(pin)) != before {
				u = "W"
			}
			tok, look := "r", "-"
			if err == nil {
				look = fmt.Sprintf("h%d", storex.SerHash(out))
				switch {
				case out != nil && reflect.TypeOf(out) == reflect.TypeOf(pin) && reflect.ValueOf(out).Pointer() == reflect.ValueOf(pin).Pointer():
					tok = "s"
				case out != nil && reflect.TypeOf(out) == reflect.TypeOf(pin):
					tok = "d"
				case kind == "v":
					tok = "v"
				default:
					tok = "t"
				}
			}
			o.Emit(fmt.Sprintf("c15 optr %s %s | T %s | %s | %s #optr:%s.%s seed=%x %s", entry, kind, strings.Join(strIDs, " "), schemaTok, inTok,
				strings.ReplaceAll(rootN.name(), " ", ""), kind, c.Seed, typ(s)), u+" "+tok+" "+look)
			o.Count("optr:" + entry + ":" + kind + ":" + under.kind + ":" + tok)
		}
	}
	return nil
}

func hasFloatLeaf(v any) bool {
	switch x := v.(type) {
	case float64:
		return x != 6.25
	case []any:
		for _, e := range x {
			if hasFloatLeaf(e) {
				return true
			}
		}
	case map[string]any:
		for _, e := range x {
			if hasFloatLeaf(e) {
				return true
			}
		}
	}
	return false
}
