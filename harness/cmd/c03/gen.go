// C03 translator: `harness-c03 -out DIR gen REPO` reads the sources of REPO with go/ast and writes DIR/C03Tables.lean
// (→ lean/Gozod/Gen/C03Tables.lean, rewritten by vlib/c03.py only when the content changes):
//
//   - ctxFields:    the fields of core.ParseContext (core/parsing.go)
//   - ctxSites:     every place in the library (non-test .go files) that names ParseContext's state fields
//     ReportInput / IsPrefaultContext, or assigns through a *ParseContext variable (`x.F = …`, `*x = …`),
//     with kind read | write | init (composite-literal key) — file, enclosing function, field
//   - pmcBranches:  processModifiersCore's statement skeleton: the conditions of its top-level `if`s in source order
//   - pmBodies:     the bodies of processModifiers / processModifiersStrict (printed statements)
//   - schemaTypes:  every type of package types that declares at least one of the eight modifier methods, with the
//     sorted list of those it declares itself
//   - harnessTypes: the schema types the harness table builds (reflect.TypeOf(entry.mk()), generics stripped)
//   - pmcFirst*:    processModifiersCore's FIRST statement in full (round 4c, audit A M10): condition, printed body, whether
//     it has an else, the identifiers it mentions — the non-nil branch returns before any modifier field is read
//   - isNilInputIdents: the identifiers isNilInput mentions (it is handed the input only)
//   - modifierReads: every read of a modifier field (Optional, Nilable, NonOptional, ExactOptional, DefaultValue,
//     DefaultFunc, PrefaultValue, PrefaultFunc, or through IsOptional()/IsNilable()/IsNonOptional()/IsExactOptional())
//     in internal/engine (non-test files): file, function, field, guard — guard is
//     `pmc-after-nonnil-return` (in processModifiersCore, after its first statement), `nil-guarded` (under an `if` one of whose
//     top-level conjuncts is isNilInput(input)), `nonnil-guarded` (… is !isNilInput(input)), or `unguarded`
//   - resolveDefaultCallers: the functions of internal/engine that call resolveDefault
package main

import (
	"bytes"
	"fmt"
	"go/ast"
	"go/parser"
	"go/printer"
	"go/token"
	"os"
	"path/filepath"
	"reflect"
	"sort"
	"strings"
)

type site struct{ file, fn, field, kind string }

var modifierFields = map[string]bool{"Optional": true, "Nilable": true, "NonOptional": true, "ExactOptional": true,
	"DefaultValue": true, "DefaultFunc": true, "PrefaultValue": true, "PrefaultFunc": true,
	"IsOptional": true, "IsNilable": true, "IsNonOptional": true, "IsExactOptional": true}

// conjuncts splits a condition at its top-level `&&`s.
func conjuncts(e ast.Expr) []ast.Expr {
	e = ast.Unparen(e)
	if b, ok := e.(*ast.BinaryExpr); ok && b.Op == token.LAND {
		return append(conjuncts(b.X), conjuncts(b.Y)...)
	}
	return []ast.Expr{e}
}

// modifierReadsOf lists the modifier-field reads of one function body with the guard each stands under.
func modifierReadsOf(fset *token.FileSet, rel, fn string, body *ast.BlockStmt, isPMC bool) []site {
	var out []site
	var walk func(n ast.Node, guard string)
	walk = func(n ast.Node, guard string) {
		if n == nil {
			return
		}
		switch v := n.(type) {
		case *ast.IfStmt:
			g := guard
			walk(v.Init, guard)
			// a conjunct isNilInput(input) / !isNilInput(input) guards the conjuncts to its right and the body
			for _, c := range conjuncts(v.Cond) {
				switch show(fset, c) {
				case "isNilInput(input)":
					if g == "unguarded" {
						g = "nil-guarded"
					}
					continue
				case "!isNilInput(input)":
					if g == "unguarded" {
						g = "nonnil-guarded"
					}
					continue
				}
				walk(c, g)
			}
			walk(v.Body, g)
			walk(v.Else, guard) // the else branch is not under the guard (its negation is not tracked: stays as outside)
			return
		case *ast.SelectorExpr:
			if modifierFields[v.Sel.Name] {
				out = append(out, site{rel, fn, v.Sel.Name, guard})
			}
		}
		ast.Inspect(n, func(m ast.Node) bool {
			if m == n || m == nil {
				return true
			}
			walk(m, guard)
			return false
		})
	}
	for i, st := range body.List {
		g := "unguarded"
		if isPMC && i > 0 {
			g = "pmc-after-nonnil-return"
		}
		walk(st, g)
	}
	return out
}

func identsOf(n ast.Node) []string {
	seen := map[string]bool{}
	ast.Inspect(n, func(m ast.Node) bool {
		if id, ok := m.(*ast.Ident); ok {
			seen[id.Name] = true
		}
		return true
	})
	var out []string
	for k := range seen {
		out = append(out, k)
	}
	sort.Strings(out)
	return out
}

var modifierMethods = map[string]bool{"Optional": true, "Nilable": true, "Nullish": true, "NonOptional": true,
	"Default": true, "DefaultFunc": true, "Prefault": true, "PrefaultFunc": true}

func leanStr(s string) string {
	s = strings.ReplaceAll(s, "\\", "\\\\")
	s = strings.ReplaceAll(s, "\"", "\\\"")
	s = strings.ReplaceAll(s, "\n", "\\n")
	s = strings.ReplaceAll(s, "\t", " ")
	return "\"" + s + "\""
}

func leanList(xs []string) string {
	q := make([]string, len(xs))
	for i, x := range xs {
		q[i] = leanStr(x)
	}
	return "[" + strings.Join(q, ", ") + "]"
}

func show(fset *token.FileSet, n ast.Node) string {
	var b bytes.Buffer
	printer.Fprint(&b, fset, n)
	return strings.Join(strings.Fields(b.String()), " ")
}

func isCtxType(e ast.Expr) bool {
	st, ok := e.(*ast.StarExpr)
	if !ok {
		return false
	}
	switch t := st.X.(type) {
	case *ast.Ident:
		return t.Name == "ParseContext"
	case *ast.SelectorExpr:
		return t.Sel.Name == "ParseContext"
	}
	return false
}

func recvTypeName(fd *ast.FuncDecl) string {
	if fd.Recv == nil || len(fd.Recv.List) == 0 {
		return ""
	}
	t := fd.Recv.List[0].Type
	if s, ok := t.(*ast.StarExpr); ok {
		t = s.X
	}
	switch x := t.(type) {
	case *ast.IndexExpr:
		t = x.X
	case *ast.IndexListExpr:
		t = x.X
	}
	if id, ok := t.(*ast.Ident); ok {
		return id.Name
	}
	return ""
}

func runGen(repo, outDir string) error {
	fset := token.NewFileSet()
	var files []string
	err := filepath.Walk(repo, func(p string, info os.FileInfo, err error) error {
		if err != nil {
			return err
		}
		if info.IsDir() {
			switch info.Name() {
			case ".git", "examples", "docs", "testdata", "_seed", "node_modules":
				return filepath.SkipDir
			}
			return nil
		}
		if strings.HasSuffix(p, ".go") && !strings.HasSuffix(p, "_test.go") {
			files = append(files, p)
		}
		return nil
	})
	if err != nil {
		return err
	}
	sort.Strings(files)
	var ctxFields []string
	var sites []site
	var pmc []string
	pmcFirstCond, pmcFirstElse := "", false
	var pmcFirstBody, pmcFirstIdents, isNilIdents, rdCallers []string
	var modReads []site
	pmBodies := map[string]string{}
	typeMethods := map[string]map[string]bool{}
	for _, p := range files {
		rel, _ := filepath.Rel(repo, p)
		f, err := parser.ParseFile(fset, p, nil, 0)
		if err != nil {
			return fmt.Errorf("%s: %v", rel, err)
		}
		for _, d := range f.Decls {
			switch d := d.(type) {
			case *ast.GenDecl:
				if rel != "core/parsing.go" {
					continue
				}
				for _, sp := range d.Specs {
					ts, ok := sp.(*ast.TypeSpec)
					if !ok || ts.Name.Name != "ParseContext" {
						continue
					}
					if st, ok := ts.Type.(*ast.StructType); ok {
						for _, fl := range st.Fields.List {
							for _, n := range fl.Names {
								ctxFields = append(ctxFields, n.Name)
							}
						}
					}
				}
			case *ast.FuncDecl:
				fn := d.Name.Name
				if rt := recvTypeName(d); rt != "" {
					if strings.HasPrefix(rel, "types/") && modifierMethods[fn] {
						if typeMethods[rt] == nil {
							typeMethods[rt] = map[string]bool{}
						}
						typeMethods[rt][fn] = true
					}
					fn = rt + "." + fn
				}
				if d.Body == nil {
					continue
				}
				if strings.HasPrefix(rel, "internal/engine/") {
					modReads = append(modReads, modifierReadsOf(fset, rel, fn, d.Body, rel == "internal/engine/modifiers.go" && d.Name.Name == "processModifiersCore")...)
					if d.Name.Name == "isNilInput" {
						isNilIdents = identsOf(d.Body)
					}
					calls := false
					ast.Inspect(d.Body, func(n ast.Node) bool {
						if c, ok := n.(*ast.CallExpr); ok {
							if id, ok := c.Fun.(*ast.Ident); ok && id.Name == "resolveDefault" {
								calls = true
							}
						}
						return true
					})
					if calls {
						rdCallers = append(rdCallers, fn)
					}
				}
				if rel == "internal/engine/modifiers.go" {
					switch d.Name.Name {
					case "processModifiersCore":
						if len(d.Body.List) > 0 {
							if first, ok := d.Body.List[0].(*ast.IfStmt); ok && first.Init == nil {
								pmcFirstCond = show(fset, first.Cond)
								for _, st := range first.Body.List {
									pmcFirstBody = append(pmcFirstBody, show(fset, st))
								}
								pmcFirstElse = first.Else != nil
								pmcFirstIdents = identsOf(first)
							}
						}
						for _, st := range d.Body.List {
							switch s := st.(type) {
							case *ast.IfStmt:
								c := show(fset, s.Cond)
								if s.Init != nil {
									c = show(fset, s.Init) + "; " + c
								}
								pmc = append(pmc, "if "+c)
							case *ast.ReturnStmt:
								pmc = append(pmc, show(fset, s))
							case *ast.AssignStmt:
								pmc = append(pmc, show(fset, s))
							default:
								pmc = append(pmc, fmt.Sprintf("%T", st))
							}
						}
					case "processModifiers", "processModifiersStrict":
						parts := []string{}
						for _, st := range d.Body.List {
							parts = append(parts, show(fset, st))
						}
						pmBodies[d.Name.Name] = strings.Join(parts, " ;; ")
					}
				}
				// variables of type *ParseContext in scope: parameters, receiver
				ctxVars := map[string]bool{}
				addFields := func(fl *ast.FieldList) {
					if fl == nil {
						return
					}
					for _, f := range fl.List {
						t := f.Type
						if el, ok := t.(*ast.Ellipsis); ok {
							t = el.Elt
						}
						if isCtxType(t) {
							for _, n := range f.Names {
								ctxVars[n.Name] = true
							}
						}
					}
				}
				addFields(d.Type.Params)
				addFields(d.Recv)
				// locals initialised from getOrCreateContext / NewParseContext / a ctx parameter
				ast.Inspect(d.Body, func(n ast.Node) bool {
					as, ok := n.(*ast.AssignStmt)
					if !ok || len(as.Lhs) != 1 || len(as.Rhs) != 1 {
						return true
					}
					id, ok := as.Lhs[0].(*ast.Ident)
					if !ok {
						return true
					}
					rhs := show(fset, as.Rhs[0])
					if strings.Contains(rhs, "getOrCreateContext(") || strings.Contains(rhs, "NewParseContext(") || strings.HasPrefix(rhs, "ctx[0]") {
						ctxVars[id.Name] = true
					}
					return true
				})
				writes := map[ast.Node]bool{}
				ast.Inspect(d.Body, func(n ast.Node) bool {
					mark := func(e ast.Expr) {
						switch x := e.(type) {
						case *ast.SelectorExpr:
							if id, ok := x.X.(*ast.Ident); ok && ctxVars[id.Name] {
								writes[x] = true
								sites = append(sites, site{rel, fn, x.Sel.Name, "write"})
							} else if x.Sel.Name == "IsPrefaultContext" || x.Sel.Name == "ReportInput" {
								writes[x] = true
								sites = append(sites, site{rel, fn, x.Sel.Name, "write"})
							}
						case *ast.StarExpr:
							if id, ok := x.X.(*ast.Ident); ok && ctxVars[id.Name] {
								sites = append(sites, site{rel, fn, "*", "write"})
							}
						}
					}
					switch s := n.(type) {
					case *ast.AssignStmt:
						for _, l := range s.Lhs {
							mark(l)
						}
					case *ast.IncDecStmt:
						mark(s.X)
					case *ast.UnaryExpr:
						if s.Op == token.AND {
							if sel, ok := s.X.(*ast.SelectorExpr); ok && (sel.Sel.Name == "IsPrefaultContext" || sel.Sel.Name == "ReportInput") {
								writes[sel] = true
								sites = append(sites, site{rel, fn, sel.Sel.Name, "write"})
							}
						}
					case *ast.KeyValueExpr:
						if id, ok := s.Key.(*ast.Ident); ok && (id.Name == "IsPrefaultContext" || id.Name == "ReportInput") {
							sites = append(sites, site{rel, fn, id.Name, "init"})
						}
					}
					return true
				})
				ast.Inspect(d.Body, func(n ast.Node) bool {
					if sel, ok := n.(*ast.SelectorExpr); ok && !writes[sel] && (sel.Sel.Name == "IsPrefaultContext" || sel.Sel.Name == "ReportInput") {
						sites = append(sites, site{rel, fn, sel.Sel.Name, "read"})
					}
					return true
				})
			}
		}
	}
	if len(ctxFields) == 0 {
		return fmt.Errorf("core/parsing.go: type ParseContext struct not found")
	}
	if len(pmc) == 0 {
		return fmt.Errorf("internal/engine/modifiers.go: processModifiersCore not found")
	}
	if len(typeMethods) == 0 {
		return fmt.Errorf("types/*.go: no modifier methods found")
	}
	if pmcFirstCond == "" {
		return fmt.Errorf("internal/engine/modifiers.go: processModifiersCore does not start with a plain `if`")
	}
	if len(isNilIdents) == 0 {
		return fmt.Errorf("internal/engine: isNilInput not found")
	}
	if len(modReads) < 8 {
		return fmt.Errorf("internal/engine: only %d reads of modifier fields found", len(modReads))
	}
	sort.Slice(modReads, func(i, j int) bool {
		a, b := modReads[i], modReads[j]
		return a.file+"\x00"+a.fn+"\x00"+a.field+"\x00"+a.kind < b.file+"\x00"+b.fn+"\x00"+b.field+"\x00"+b.kind
	})
	{
		d := modReads[:0]
		for i, x := range modReads {
			if i == 0 || x != modReads[i-1] {
				d = append(d, x)
			}
		}
		modReads = d
	}
	sort.Strings(rdCallers)
	sort.Slice(sites, func(i, j int) bool {
		a, b := sites[i], sites[j]
		return a.file+"\x00"+a.fn+"\x00"+a.field+"\x00"+a.kind < b.file+"\x00"+b.fn+"\x00"+b.field+"\x00"+b.kind
	})
	var b strings.Builder
	b.WriteString("/- REGENERATED by harness/cmd/c03 gen (go/ast over the library sources) — do not edit. -/\nnamespace Gozod.Gen.C03Tables\n\n")
	b.WriteString("structure Site where\n  file : String\n  fn : String\n  field : String\n  kind : String\n  deriving DecidableEq, Repr\n\n")
	b.WriteString("/-- fields of `core.ParseContext` (core/parsing.go) -/\ndef ctxFields : List String := " + leanList(ctxFields) + "\n\n")
	b.WriteString("/-- every mention of ParseContext's state fields and every assignment through a *ParseContext variable -/\ndef ctxSites : List Site := [\n")
	for i, s := range sites {
		sep := ","
		if i == len(sites)-1 {
			sep = ""
		}
		fmt.Fprintf(&b, "  ⟨%s, %s, %s, %s⟩%s\n", leanStr(s.file), leanStr(s.fn), leanStr(s.field), leanStr(s.kind), sep)
	}
	b.WriteString("]\n\n")
	b.WriteString("/-- processModifiersCore: its top-level statements in source order -/\ndef pmcBranches : List String := [\n  " + strings.Join(func() []string {
		q := make([]string, len(pmc))
		for i, x := range pmc {
			q[i] = leanStr(x)
		}
		return q
	}(), ",\n  ") + "]\n\n")
	b.WriteString("/-- processModifiersCore's first statement in full: condition, printed body, has-else, identifiers mentioned -/\n")
	b.WriteString("def pmcFirstCond : String := " + leanStr(pmcFirstCond) + "\n")
	b.WriteString("def pmcFirstBody : List String := " + leanList(pmcFirstBody) + "\n")
	b.WriteString(fmt.Sprintf("def pmcFirstHasElse : Bool := %v\n", pmcFirstElse))
	b.WriteString("def pmcFirstIdents : List String := " + leanList(pmcFirstIdents) + "\n")
	b.WriteString("/-- the identifiers isNilInput mentions -/\ndef isNilInputIdents : List String := " + leanList(isNilIdents) + "\n")
	b.WriteString("/-- the functions of internal/engine that call resolveDefault -/\ndef resolveDefaultCallers : List String := " + leanList(rdCallers) + "\n\n")
	b.WriteString("/-- every read of a modifier field in internal/engine: file, function, field, guard (`kind`) -/\ndef modifierReads : List Site := [\n")
	for i, s := range modReads {
		sep := ","
		if i == len(modReads)-1 {
			sep = ""
		}
		fmt.Fprintf(&b, "  ⟨%s, %s, %s, %s⟩%s\n", leanStr(s.file), leanStr(s.fn), leanStr(s.field), leanStr(s.kind), sep)
	}
	b.WriteString("]\n\n")
	b.WriteString("def processModifiersBody : String := " + leanStr(pmBodies["processModifiers"]) + "\n")
	b.WriteString("def processModifiersStrictBody : String := " + leanStr(pmBodies["processModifiersStrict"]) + "\n\n")
	var tns []string
	for t := range typeMethods {
		tns = append(tns, t)
	}
	sort.Strings(tns)
	b.WriteString("/-- schema types of package types declaring modifier methods, with the ones they declare themselves -/\ndef schemaTypes : List (String × List String) := [\n")
	for i, t := range tns {
		var ms []string
		for m := range typeMethods[t] {
			ms = append(ms, m)
		}
		sort.Strings(ms)
		sep := ","
		if i == len(tns)-1 {
			sep = ""
		}
		fmt.Fprintf(&b, "  (%s, %s)%s\n", leanStr(t), leanList(ms), sep)
	}
	b.WriteString("]\n\n")
	seen := map[string]bool{}
	var hts []string
	for _, e := range entries() {
		t := reflect.TypeOf(e.mk())
		for t.Kind() == reflect.Pointer {
			t = t.Elem()
		}
		n := t.Name()
		if i := strings.Index(n, "["); i >= 0 {
			n = n[:i]
		}
		if !seen[n] {
			seen[n] = true
			hts = append(hts, n)
		}
	}
	sort.Strings(hts)
	b.WriteString("/-- the schema types the harness table builds (by reflection on its constructors' results) -/\ndef harnessTypes : List String := " + leanList(hts) + "\n\n")
	// the type-local configuration each modifier method carries (behavioural: reflection on real schemas, frame.go)
	rows, drops := cfgTable()
	b.WriteString("/-- harness rows with the kind of their modifier methods as the table declares it -/\ndef cfgRows : List (String × String) := [\n")
	for i, r := range rows {
		sep := ","
		if i == len(rows)-1 {
			sep = ""
		}
		fmt.Fprintf(&b, "  (%s, %s)%s\n", leanStr(r[0]), leanStr(r[1]), sep)
	}
	b.WriteString("]\n\n")
	b.WriteString("/-- the modifier calls each row is put through -/\ndef modOps : List String := " + leanList(opNames[:12]) + "\n\n")
	b.WriteString("/-- (row, op, fields): calling `op` on the row's schema (as constructed, or after Optional()) yields a schema whose own\n    internals lack these configuration fields of the receiver -/\ndef cfgDrops : List (String × String × String) := [\n")
	for i, d := range drops {
		sep := ","
		if i == len(drops)-1 {
			sep = ""
		}
		fmt.Fprintf(&b, "  (%s, %s, %s)%s\n", leanStr(d[0]), leanStr(d[1]), leanStr(d[2]), sep)
	}
	b.WriteString("]\n\n")
	b.WriteString("end Gozod.Gen.C03Tables\n")
	return os.WriteFile(filepath.Join(outDir, "C03Tables.lean"), []byte(b.String()), 0o644)
}
