/-
  Gozod.Model.FormatSpecV6 — the definition of the IPv6 / CIDRv6 string formats (RFC 4291 §2.2), as a step
  automaton like the other formats of Model/FormatSpec.lean (kept in its own file so that an edit here does not
  invalidate the other formats' certificates).

  Bytes: '%' 37, '.' 46, '/' 47, ':' 58.   Core-only.
-/
import Gozod.Model.FormatSpec
import Gozod.Model.BisimR
namespace Gozod
namespace Fmt

/-! ### IPv6 (RFC 4291 §2.2): the text forms of an address

    1. eight groups of 1–4 hexadecimal digits separated by ':'
    2. one "::" may stand for one or more groups of zeros (so at most seven groups are written)
    3. the last two groups may be written as an IPv4 dotted quad (four decimal octets 0–255, no leading zeros)

    No zone identifier ("%eth0" belongs to RFC 4007 scoped addresses, not to the address).
    CIDRv6: such an address, '/', a prefix length 0–128 without leading zeros. -/

structure V6St where
  /-- 0 = nothing read, 1 = a single leading ':', 2 = just after "::", 3 = inside a group,
      4 = after the ':' that ends a group, 5 = inside the dotted quad, 6 = inside the prefix length -/
  ph : Nat
  /-- complete 16-bit groups read so far -/
  g : Nat
  /-- 1 once "::" was read -/
  ell : Nat
  /-- characters of the current group / octet / prefix length -/
  n : Nat
  /-- ph 3: the current group read as a decimal octet (256 = it cannot be the first octet of a dotted quad);
      ph 5, 6: value of the current number -/
  v : Nat
  /-- ph 5: dots read -/
  k : Nat
  deriving DecidableEq, Repr

def V6St.beq (a b : V6St) : Bool :=
  Nat.beq a.ph b.ph && Nat.beq a.g b.g && Nat.beq a.ell b.ell && Nat.beq a.n b.n && Nat.beq a.v b.v && Nat.beq a.k b.k
theorem V6St.beq_eq (a b : V6St) (h : a.beq b = true) : a = b := by
  cases a; cases b; simp [V6St.beq] at h; simp [h]
def V6St.pp (q : V6St) : String := s!"(Fmt.V6St.mk {q.ph} {q.g} {q.ell} {q.n} {q.v} {q.k})"
def V6St.code (q : V6St) : Nat := ((((q.ph * 9 + q.g) * 2 + q.ell) * 5 + q.n) * 257 + q.v) * 4 + q.k

/-- a dotted quad may begin in place of the group now being read: it fills the last two of the eight
    groups, or, after "::", any two groups that leave room for the "::" -/
def quadMayStart (g ell : Nat) : Bool := if ell = 0 then g = 6 else g ≤ 5

/-- the group so far, read as the first octet of a dotted quad: one more character `c` -/
def octAcc (n v c : Nat) : Nat :=
  if !isDigit c then 256
  else if n = 0 then c - 48
  else if v = 0 ∨ v = 256 then 256
  else if v * 10 + (c - 48) ≤ 255 then v * 10 + (c - 48) else 256

/-- one more digit of a decimal number ≤ `max` without leading zero (the octets of the quad, the prefix length) -/
def V6St.digit (q : V6St) (c max : Nat) : Option V6St :=
  if !isDigit c then none
  else if q.n = 0 then some { q with n := 1, v := c - 48 }
  else if q.v = 0 then none
  else if q.v * 10 + (c - 48) ≤ max then some { q with n := q.n + 1, v := q.v * 10 + (c - 48) }
  else none

/-- a new group starts with the hex digit `c` -/
def V6St.start (quad : Bool) (q : V6St) (c : Nat) : Option V6St :=
  some { q with ph := 3, n := 1, v := if quad && quadMayStart q.g q.ell then octAcc 0 0 c else 256 }

/-- `quad = true`: the definition.  `quad = false`: the same without the dotted-quad form (rule 3), used for the
    strings that contain no '.' (`C20.ipv6_hex_quot`). -/
def ipv6StepG (quad : Bool) (q : V6St) (c : Nat) : Option V6St :=
  if q.ph = 5 then
    (if c = 46 then (if q.n ≥ 1 ∧ q.k < 3 then some { q with k := q.k + 1, n := 0, v := 0 } else none)
     else q.digit c 255)
  else if c = 58 then
    (if q.ph = 0 then some { q with ph := 1 }
     else if q.ph = 1 then some { q with ph := 2, ell := 1 }
     else if q.ph = 3 then
       -- the group is complete; more must follow: another group, or "::" (which needs room for one group)
       (if (q.ell = 0 ∧ q.g + 1 ≤ 7) ∨ (q.ell = 1 ∧ q.g + 1 ≤ 6) then some ⟨4, q.g + 1, q.ell, 0, 0, 0⟩ else none)
     else if q.ph = 4 then (if q.ell = 0 then some { q with ph := 2, ell := 1 } else none)
     else none)
  else if c = 46 then
    (if q.ph = 3 ∧ q.v ≤ 255 then some ⟨5, 0, 0, 0, 0, 1⟩ else none)
  else if isHex c then
    (if q.ph = 0 ∨ q.ph = 4 then q.start quad c
     else if q.ph = 2 then (if q.g ≤ 6 then q.start quad c else none)
     else if q.ph = 3 then
       (if q.n < 4 then some { q with n := q.n + 1, v := if quad && quadMayStart q.g q.ell then octAcc q.n q.v c else 256 } else none)
     else none)
  else none

def ipv6Step : V6St → Nat → Option V6St := ipv6StepG true

/-- a complete address has been read -/
def ipv6Acc (q : V6St) : Bool :=
  q.ph = 2 || (q.ph = 3 && (q.ell = 1 || q.g = 7)) || (q.ph = 5 && q.k = 3 && q.n ≥ 1)

/-- the alphabet of an address: hex digits, ':' and '.' -/
def ipv6Support : List Nat := 58 :: 46 :: hexDigits

/-- letters that are not hex digits (the library's pattern mentions them in a zone-id branch) -/
def nonHexLetters : List Nat := (List.range 20).map (· + 71) ++ (List.range 20).map (· + 103)

def ipv6 : Spec where
  State := V6St
  beq := V6St.beq
  beq_eq := V6St.beq_eq
  init := ⟨0, 0, 0, 0, 0, 0⟩
  support := ipv6Support
  step := ipv6Step
  acc := ipv6Acc
  code := V6St.code
  pp := V6St.pp

def cidrv6StepG (quad : Bool) (q : V6St) (c : Nat) : Option V6St :=
  if q.ph = 6 then q.digit c 128
  else if c = 47 then (if ipv6Acc q then some ⟨6, 0, 0, 0, 0, 0⟩ else none)
  else ipv6StepG quad q c

def cidrv6Step : V6St → Nat → Option V6St := cidrv6StepG true

def cidrv6 : Spec where
  State := V6St
  beq := V6St.beq
  beq_eq := V6St.beq_eq
  init := ⟨0, 0, 0, 0, 0, 0⟩
  support := 47 :: ipv6Support
  step := cidrv6Step
  acc := fun q => q.ph = 6 && q.n ≥ 1
  code := V6St.code
  pp := V6St.pp

/-- rules 1 and 2 only (no dotted quad): accepts the same strings as `ipv6` among those without a '.' -/
def ipv6Hex : Spec := { ipv6 with step := ipv6StepG false }
def cidrv6Hex : Spec := { cidrv6 with step := cidrv6StepG false }

end Fmt
end Gozod
