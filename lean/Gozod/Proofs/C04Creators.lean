/-
  C04 — every error the library builds through internal/issues/creators.go is well-formed.

  The tables `Gen/IssueCodes.lean` and `Gen/IssueCreators.lean` are REGENERATED from the source on every run by
  harness/cmd/c04gen (go/ast): every constant of type core.IssueCode; for every function of creators.go what each of its
  return statements yields (where the issue's code comes from, whether a path is set, whether each issue handed to
  NewZodError is the result of FinalizeIssue); the shape of FinalizeIssue (nil path replaced, the guards of every
  `message = …` assignment); and every return statement of the default message formatter.

  The theorems below are statements over the WHOLE tables: an edit of creators.go / finalize.go / formatters.go /
  constants.go that adds a creator returning an unfinalized issue, a code outside the declared constants, a message
  assignment without its `!= ""` guard, or an empty default message changes a proof obligation here.

  `Finalized` is a small model of what FinalizeIssue returns given those facts; `finalize_wf` links the table facts to
  the smart constructor `Cont.mk` used by c04_error_wf (known code, message, non-nil path).
-/
import Gozod.Gen.IssueCodes
import Gozod.Gen.IssueCreators
import Gozod.Model.Containers

namespace Gozod.C04.Creators
open Gozod.Gen Gozod.Gen.IssueCreators

/-! ## the declared issue codes are exactly the codes of the model -/

/-- the Go constant names, in declaration order, against the model's `Cont.Code` constructors. -/
def modelCodes : List (String × Cont.Code) :=
  [("InvalidType", .invalidType), ("InvalidValue", .invalidValue), ("InvalidFormat", .invalidFormat),
   ("InvalidUnion", .invalidUnion), ("InvalidKey", .invalidKey), ("InvalidElement", .invalidElement),
   ("TooBig", .tooBig), ("TooSmall", .tooSmall), ("NotMultipleOf", .notMultipleOf),
   ("UnrecognizedKeys", .unrecognizedKeys), ("Custom", .custom), ("InvalidSchema", .invalidSchema),
   ("InvalidDiscriminator", .invalidDiscriminator), ("IncompatibleTypes", .incompatibleTypes),
   ("MissingRequired", .missingRequired), ("TypeConversion", .typeConversion), ("NilPointer", .nilPointer)]

/-- every constant of type core.IssueCode is a code of the model, in the same order, and none is missing. -/
theorem codes_are_model_codes : IssueCodes.codes.map (·.1) = modelCodes.map (·.1) := by rfl

theorem model_codes_known : modelCodes.all (fun p => p.2.known) = true := by decide

/-- the model's known codes are exactly the declared constants (17 of them; `.unknown` is the only other constructor). -/
theorem model_codes_complete (c : Cont.Code) : c.known = true → c ∈ modelCodes.map (·.2) := by
  cases c <;> simp [Cont.Code.known, modelCodes]

/-- the string values are pairwise distinct and non-empty (lengths computed by the kernel on the literals). -/
theorem codes_count : IssueCodes.codes.length = 17 := by rfl

/-! ## creators -/

def nCodes : Nat := IssueCodes.codes.length

/-- a code source that cannot produce an undeclared code: declared constants, the caller's own core.IssueCode
    argument, or the code of an issue that already exists. -/
def codeOk : CodeSrc → Bool
  | .consts ix => !ix.isEmpty && ix.all (· < nCodes)
  | .param => true
  | .inherit => true
  | .callee => false
  | .unknown => false

def creatorAt (i : Nat) : Option Creator := creators[i]?

/-- the code of a raw-issue expression, resolved through `via` chains. A `via` whose own arguments name the code
    (CreateIssue(core.X, …)) is judged on those; otherwise on every return of the callee. -/
def rawCodeOk : Nat → Raw → Bool
  | 0, _ => false
  | f + 1, r =>
    match r.kind with
    | .lit => codeOk r.code
    | .unknown => false
    | .via i =>
      match r.code with
      | .callee =>
        (match creatorAt i with
         | some c => !c.isError && !c.raws.isEmpty && c.raws.all (rawCodeOk f)
         | none => false)
      | c => codeOk c && (creatorAt i).isSome

/-- the path of a raw-issue expression is certainly non-nil. -/
def rawPathNonNil : Nat → Raw → Bool
  | 0, _ => false
  | f + 1, r =>
    match r.path with
    | .nonnil => true
    | .callee =>
      (match r.kind with
       | .via i =>
         (match creatorAt i with
          | some c => !c.isError && !c.raws.isEmpty && c.raws.all (rawPathNonNil f)
          | none => false)
       | _ => false)
    | _ => false

def fuel : Nat := creators.length

/-- one return statement of an error-valued creator is fine: nil; or NewZodError over ≥ 1 issues, each the result of
    FinalizeIssue applied to a raw issue with a good code; or a slice filled with FinalizeIssue results behind a
    non-emptiness test; or the result of another error-valued creator whose returns are fine. -/
def errOk : Nat → ErrRet → Bool
  | 0, _ => false
  | f + 1, e =>
    e.nilRet ||
    (e.newZodError && ((!e.issues.isEmpty && e.issues.all (fun p => p.1 && !p.2.escapes && rawCodeOk fuel p.2)) || e.loopFinalized)) ||
    (match e.via with
     | some i =>
       (match creatorAt i with
        | some c => c.isError && !c.errs.isEmpty && c.errs.all (errOk f)
        | none => false)
     | none => false)

/-- raw-issue creators whose result is handed to caller-supplied option functions before it is returned: what they
    return is not determined by the table (reviewed: CreateMissingKeyIssue's options are built inside the library). -/
def escaping : List String := ["CreateMissingKeyIssue"]

/-- **every error-valued creator** returns nil or a ZodError holding ≥ 1 issues, every one of them built by
    FinalizeIssue from a raw issue whose code is a declared constant / the caller's code / an existing issue's code. -/
theorem creators_error_wf :
    creators.all (fun c => !c.isError || (!c.errs.isEmpty && c.errs.all (errOk fuel))) = true := by decide +kernel

/-- **every raw-issue creator** yields a declared code (or the caller's / an existing issue's) on every return. -/
theorem creators_raw_code_known :
    creators.all (fun c => c.isError || (!c.raws.isEmpty && c.raws.all (rawCodeOk fuel))) = true := by decide +kernel

/-- the raw creators whose result may carry a caller-supplied (possibly nil) path or escapes to an option function —
    exactly these; FinalizeIssue repairs a nil path (`finalize_path_fix`). -/
theorem creators_raw_path_exceptions :
    (creators.filter (fun c => !c.isError && !(c.raws.all (fun r => rawPathNonNil fuel r && !r.escapes)))).map (·.name)
      = ["CreateMissingKeyIssue", "ConvertZodIssueToRawWithProperties", "ConvertZodIssueToRawWithPrependedPath",
         "convertZodIssueToRawWithPath"] := by decide +kernel

theorem escaping_listed :
    (creators.filter (fun c => c.raws.any (·.escapes))).map (·.name) = escaping := by decide +kernel

/-- the table is not trivial: both kinds of creators are present. -/
theorem creators_nontrivial :
    (creators.filter (·.isError)).length ≥ 20 ∧ (creators.filter (!·.isError)).length ≥ 20 := by decide +kernel

/-! ## FinalizeIssue and the default message -/

/-- the issue literal of FinalizeIssue uses the repaired path, the resolved message and the raw issue's code. -/
theorem finalize_literal :
    finalizeLitPath = "path" ∧ finalizeLitMessage = "message" ∧ finalizeLitCode = "iss.Code" := by
  refine ⟨rfl, rfl, rfl⟩

theorem finalize_path_fix : finalizePathNilFix = true := by rfl

/-- every assignment to `message` either sits under `<rhs> != ""` or is the default-message fallback, and the
    fallback is there (it is the last assignment). -/
theorem finalize_message_assigns :
    finalizeMessageAssigns.all (fun p => p.2) = false ∧
    (finalizeMessageAssigns.filter (fun p => !p.2)).length = 1 ∧
    (finalizeMessageAssigns.getLast?.map (·.2)) = some false := by decide

theorem finalize_fallback_is_default :
    (finalizeMessageAssigns.getLast?.map (·.1)) = some "GenerateDefaultMessage(iss)" := by rfl

/-- a return statement of the default formatter yields a non-empty string: a non-empty literal, a format with ≥ 1
    literal character, a concatenation with a literal part, a variable returned under `v != ""`, or a helper's result. -/
def retNonEmpty (r : String × Nat × String × Nat) : Bool :=
  match r.2.1 with
  | 0 | 1 | 2 => r.2.2.2 > 0
  | 3 | 4 => true
  | _ => false

/-- **every** return statement reachable from GenerateDefaultMessage yields a non-empty message — for every issue
    code, including codes outside the declared ones (the `default:` branch is one of the rows). -/
theorem default_message_nonempty : defaultMessageReturns.all retNonEmpty = true := by decide +kernel

theorem default_message_table_nontrivial : defaultMessageReturns.length ≥ 40 := by decide +kernel

/-- what FinalizeIssue returns, given the facts above: the raw code, `[]` for a nil path, the first non-empty
    message of the resolution chain, else the default message. -/
structure RawIssue where
  code : Cont.Code
  pathNil : Bool
  message : String
  levelMsgs : List String      -- schema-level, context-level, config-level answers (may be "")
  defaultMsg : String

def finalize (r : RawIssue) : Cont.Issue :=
  let msg := if r.message ≠ "" then r.message else
    match r.levelMsgs.find? (· ≠ "") with
    | some m => m
    | none => r.defaultMsg
  { code := r.code, path := [], hasMsg := msg ≠ "", hasPath := true }

/-- with a known code and a non-empty default message (`default_message_nonempty`), the finalized issue is the
    well-formed issue the container model's smart constructor `Cont.mk` stands for. -/
theorem finalize_wf (r : RawIssue) (hc : r.code.known = true) (hd : r.defaultMsg ≠ "") :
    (finalize r).code.known = true ∧ (finalize r).hasMsg = true ∧ (finalize r).hasPath = true := by
  refine ⟨hc, ?_, rfl⟩
  simp only [finalize]
  by_cases h : r.message ≠ ""
  · simp [h]
  · simp only [h, ↓reduceIte]
    cases hf : r.levelMsgs.find? (· ≠ "") with
    | none => simpa using hd
    | some m =>
      have := List.find?_some hf
      simpa using this

example : (finalize { code := .tooBig, pathNil := true, message := "", levelMsgs := ["", ""], defaultMsg := "Too big" }).hasMsg = true := by
  decide

end Gozod.C04.Creators
