"""C12 — ToJSONSchema is a pure, deterministic function of the schema."""
import re
from . import common as C
from . import c08

MANIFEST = dict(
   technique="Lean 4 proof over definitions whose inputs are tables REGENERATED from jsonschema/to.go on every run (go/ast provenance analysis: write sites with the origin of the written memory, map ranges with their sinks, accessor calls, option fields, document stores; accessors classified alias/copy behaviourally): the store effect of a conversion = any sequence of executions of the regenerated write sites (ConvDoc.runTrace), the keywords of the document node = ConvDoc.docOf over the regenerated applyBag row (a transcription of applyBag / applyStringBag / convertFile / applyNumericRangeDefaults / toFloat / the leaf cases of doConvert, with a source fingerprint); both are what the driver executes. History correspondence: real derivations, ToJSONSchema calls with every option setting and Parse calls; each document compared with the one an isolated twin family gives, every live schema re-observed, and per conversion the keywords docOf derives from the schema's annotated Bag compared with the keywords of the real document",
   text="For /repo HEAD (conversion on a scratch copy since 6cd8299, sorted Bag keys since d72e9e7, Clone always copies the Bag). NO EFFECT: c12_trace_ext / c12_trace_pure (every sequence of executions, with any payloads, of write sites of the WHOLE regenerated table leaves every location that existed before as it was; the content is sites_private / c12_writes_private, a decide over the table; legacy_trace_impure: with the write site of the tree before 6cd8299 the same fold changes the schema), c12_trace_obs (every schema allocated before is observed as before), c12d_hist (along every interleaving of chaining calls, conversions executing any such traces, and parses, every live schema keeps its observation). PARSES AS BEFORE: stated for the kinds that have a content model, by the bridge 'the verdict is a function of the observed cells' imported from C08: c12_parse_obj_as_before (objects/structs: objParse on obsO), c12_parse_holder_as_before (unions, xors, intersections, enums, slices, sets, tuples, arrays, records, maps, transforms, pipes: hAccept over the world of observations, any nesting depth); for every other kind (the primitives' check lists) 'parses as before' is decided by the run only (probe sets re-parsed after every step). SAME DOCUMENT: docOf_perm (get_perm, canon_perm: the keywords docOf derives are the same for every enumeration order of the annotated Bag, because the regenerated row says sortedKeys: applyBagRow_sorted, applyBag_row_present; legacy_docOf_order_dependent for the row of the tree before d72e9e7), c12d_doc_as_before / c12d_doc_as_before_any_order (after any history the node of every live schema carries the keywords it carried before, the check callbacks being ANY function of the observation); named_functions_present (every function of to.go the statements name has rows in the regenerated tables: no vacuous quantification). docOf covers the bag-settable keywords of the converted schema's own node: every keyword for the leaf kinds (strings, integers, floats, bool, nil, any, unknown, number, date/time formats, file), the fields applyBag assigns for the structural kinds, nothing for wrappers and pipes. Registry: the Describe/Meta checks' OnAttach (run by the converter against the live schema) modelled in full (convertReg, executed by the driver): c12_reg_frame, c12_annotate_idem / c12_reg_twice / c12_reg_after_others, c12_reg_partial; the full statement c12_reg_full is refuted by conv_registers_meta_check (open known finding conversion-registers-meta-check). Definition-held data (literal member lists behind the Def pointer a family shares; convLiteral executed by the driver): convLiteral_ext / c12_def_pure, members_eq_spec / c12_def_after_others / c12_def_twice / c12_def_acc_irrelevant; excluded shape with witnesses inplace_dedup_changes_definition / inplace_dedup_changes_next_document. Over the regenerated tables: c12_writes_private, c12_aliasing_accessors_read_only, c12_accessors_classified, c12_scratch_bag_private, c12_ranges_partial (every loop over a map feeds an order-insensitive sink except ToJSONSchema(registry): registry_range_order_sensitive, c12_ranges_full_false, open known finding registry-document-order-dependent), c12_shape_range_sorted / c12_enum_sort_total / c12_applyBag_range_sorted / applyBag_field_collisions / sortedKeys_order_invariant; legacy_* = rows of earlier trees kept as constants. Options (Model/ConvOpts.lean, convertO executed by the driver for the in-place rewriting histories): c12_opts_ext / c12_opts_pure / c12_opts_entries_kept, c12_opts_deterministic / c12_opts_twice / c12_opts_after_others, c12_opts_hist, c12_opts_full_with_clone; for the code before 8997831 c12_opts_partial + witnesses override_edits_registry_examples / c12_opts_full_false; c12_options_modelled, c12_options_read_only, c12_override_handed_live_node, c12_doc_stores_private (legacy_examples_store_shared), c12_no_mutator_calls. Not listed any more (Proofs/C12.lean, LEGACY: about the Bag-level definitions Store.convert / Store.applyBag / entriesOf, which no driver executes and which hold by unfolding): c12_pure, c12_deterministic, c12_order_invariant, c12_doc_deterministic, c12_hist, today_convert_pollutes_parent, today_applyBag_order_dependent.",
   note="Proved: the statements above, about the executed definitions. Decided by the run only: that a real conversion's writes are executions of sites of the table (the translator's flow-insensitive provenance analysis is trusted; cross-checked by re-observing every live schema after every step and by the in-place rewriting histories H9); 'parses as before' for the kinds without a content model; the annotated Bag itself (the check callbacks are library code outside to.go: the harness replays annotatedInternals on a private copy and ships the result); structural recursion into member schemas, $defs/ref hoisting, applyMeta and how the value options shape them (16 option settings incl. URI/Override callbacks, ToJSONSchema(registry) steps); ToJSONSchema(registry): purity is claimed and checked, the document is order-dependent (open known finding registry-document-order-dependent); which schemas a conversion visits (whose Describe/Meta callbacks run) is measured on a scout replica. The oracle document is obtained from a replayed isolated twin, which assumes constructors and chaining calls are deterministic. Cfg.convScratch / cloneBagAlways are pinned to the behaviour of /repo HEAD (fixed), not probed. Strings travel in an injective token encoding the model never decodes (Bag keys outside [A-Za-z0-9_.-] would be ordered by their encoding). Trusted: Lean kernel, axioms propext/Classical.choice/Quot.sound, the Go harness, translator and comparer.",
   design="DESIGN.md §3.4, §5 C12")

MODULES = ["Gozod.Proofs.C12", "Gozod.Proofs.C12Def", "Gozod.Proofs.C12Access", "Gozod.Proofs.C12Opts", "Gozod.Proofs.C12Doc"]
GEN = C.os.path.join(C.LEAN, "Gozod", "Gen", "ConvAccess.lean")
THEOREMS = [
    # about the definitions the driver executes (Model/ConvDoc.lean over the regenerated tables): Proofs/C12Doc.lean
    "Gozod.C12Doc.sites_private", "Gozod.C12Doc.c12_trace_ext", "Gozod.C12Doc.c12_trace_pure", "Gozod.C12Doc.c12_trace_obs",
    "Gozod.C12Doc.legacy_trace_impure", "Gozod.C12Doc.c12_parse_obj_as_before", "Gozod.C12Doc.c12_parse_holder_as_before",
    "Gozod.C12Doc.get_perm", "Gozod.C12Doc.canon_perm", "Gozod.C12Doc.docOf_perm", "Gozod.C12Doc.applyBag_row_present",
    "Gozod.C12Doc.applyBagRow_sorted", "Gozod.C12Doc.named_functions_present", "Gozod.C12Doc.legacy_docOf_order_dependent",
    "Gozod.C12Doc.c12d_hist", "Gozod.C12Doc.c12d_doc_as_before", "Gozod.C12Doc.c12d_doc_as_before_any_order",
    # registry (convertReg / annotateEntry: executed by the driver)
    "Gozod.C12.c12_annotate_idem", "Gozod.C12.annotateEntry_eq", "Gozod.C12.c12_reg_frame", "Gozod.C12.c12_reg_twice",
    "Gozod.C12.c12_reg_after_others", "Gozod.C12.c12_reg_partial", "Gozod.C12.absorbed_after_conversion",
    "Gozod.C12.conv_registers_meta_check", "Gozod.C12.c12_reg_full_false", "Gozod.C12.merging_examples_not_idempotent",
    # definition-held data (member lists behind the shared Def pointer) read through accessors
    "Gozod.C12Def.convLiteral_ext", "Gozod.C12Def.c12_def_pure", "Gozod.C12Def.members_eq_spec",
    "Gozod.C12Def.c12_def_after_others", "Gozod.C12Def.c12_def_twice", "Gozod.C12Def.c12_def_acc_irrelevant",
    "Gozod.C12Def.inplace_dedup_changes_definition", "Gozod.C12Def.inplace_dedup_changes_next_document",
    # over the tables regenerated from jsonschema/to.go (+ behaviour of the accessors of types/*.go): Gen/ConvAccess.lean
    "Gozod.C12Access.c12_writes_private", "Gozod.C12Access.c12_aliasing_accessors_read_only",
    "Gozod.C12Access.c12_accessors_classified", "Gozod.C12Access.c12_scratch_bag_private",
    "Gozod.C12Access.c12_ranges_partial", "Gozod.C12Access.c12_ranges_full_false", "Gozod.C12Access.applyBag_field_collisions",
    "Gozod.C12Access.registry_range_order_sensitive", "Gozod.C12Access.c12_shape_range_sorted",
    "Gozod.C12Access.c12_enum_sort_total", "Gozod.C12Access.c12_applyBag_range_sorted", "Gozod.C12Access.sortedKeys_order_invariant",
    "Gozod.C12Access.legacy_shape_range_sensitive", "Gozod.C12Access.legacy_enum_sort_partial", "Gozod.C12Access.legacy_applyBag_range_sensitive",
    # the options struct and what the document holds by reference (tables regenerated from jsonschema/to.go)
    "Gozod.C12Access.c12_options_modelled", "Gozod.C12Access.c12_options_read_only", "Gozod.C12Access.c12_override_handed_live_node",
    "Gozod.C12Access.c12_doc_stores_private", "Gozod.C12Access.legacy_examples_store_shared", "Gozod.C12Access.c12_no_mutator_calls",
    # conversion options as parameters of the conversion step (Model/ConvOpts.lean)
    "Gozod.C12Opts.c12_opts_ext", "Gozod.C12Opts.c12_opts_pure", "Gozod.C12Opts.c12_opts_entries_kept",
    "Gozod.C12Opts.c12_opts_deterministic", "Gozod.C12Opts.c12_opts_after_others", "Gozod.C12Opts.c12_opts_twice",
    "Gozod.C12Opts.c12_opts_hist", "Gozod.C12Opts.c12_opts_full_with_clone", "Gozod.C12Opts.c12_opts_partial",
    "Gozod.C12Opts.override_edits_registry_examples", "Gozod.C12Opts.c12_opts_full_false", "Gozod.C12Opts.ovw_ok",
    "Gozod.C12Opts.convLiteral_fresh", "Gozod.C12Opts.c12_override_members_ext", "Gozod.C12Opts.c12_override_members_def_kept",
    "Gozod.C12Opts.inplace_members_not_fresh",
]

OPT_NAMES = ["default", "io-input", "unrepresentable-any", "reused-ref", "draft-07", "cycles-throw",
             "registry-self", "registry-all", "registry-empty", "uri+override-readonly", "override-edits-values", "unknown-strings",
             "combination+uri", "registry-full-entry", "override-rewrites-in-place", "caller-rewrites-returned-document"]


def mask(verdicts, steps):
    """C12 judges conversions and parses; chaining steps are C08's business (kept in the structure tie)."""
    out = []
    for k, v in enumerate(verdicts.split(";")):
        cls = steps[k][1] if k < len(steps) else "?"
        out.append(v if cls in ("conv", "parse", "convreg") else "-")
    return ";".join(out)


def key(op, impl, M, S):
    """Class of the first step that fails. A conversion whose only effect is the one the model derives from the code —
    the Describe/Meta checks of a visited schema being registered in GlobalRegistry (document equal to the isolated
    twin's, the changed schemas exactly the predicted ones) — is the listed class `conversion-registers-meta-check`;
    any other failing step of the history takes precedence."""
    head, steps = c08.steps_of(op)
    iv = impl.split(" ")[0].split(";")
    mv = (M or "").split(" ")[0].split(";")
    lazy = None
    for k, st in enumerate(steps):
        if k >= len(iv) or iv[k] in ("1:", "-"):
            continue
        typ = st[-1].partition("@")[2]
        if st[1] == "convreg":
            # ToJSONSchema(registry): `r` = the document differs from the isolated twin family's registry document (the
            # Registry.Range loop feeds the stateful converter in map order: the region `c12_ranges_partial` excludes,
            # witness `registry_range_order_sensitive`); a live schema that changed is never in this class
            if iv[k] == "r:":
                lazy = lazy or "registry-document-order-dependent"
                continue
            return "registry-conversion-changes-live-schema:" + typ
        if (st[1] == "conv" and st[7].startswith("W") and k < len(mv) and mv[k] == iv[k] and " S:" not in impl
                and (iv[k].startswith("0") or st[2] in ("14", "15"))):
            # in-place rewriting of a document (by an Override or by the caller) reaches the registry entry whose example
            # list the document holds (`applyMeta`: Examples = meta.Examples), exactly as the model derives (changed set,
            # entries afterwards, later documents): the listed class
            lazy = lazy or "document-examples-alias-registry-entry"
            continue
        if st[1] == "conv":
            if iv[k].startswith("n"):
                # fresh isolated twins of this schema do not agree among themselves: the conversion is not a function of
                # the schema (Go map iteration order shows in the document); class = the differing top-level keywords
                # (legacy keys, fixed by 3e22e56: doc-nondeterministic:<Base>:<option class>); now: the keywords in which
                # the documents of two fresh twins differ
                lazy = lazy or "doc-nondeterministic:" + (iv[k].partition(":")[0][1:] or "document")
                continue
            if iv[k].startswith("1:") and k < len(mv) and mv[k] == iv[k] and st[4] not in ("0", "scout-failed") and " S:" not in impl:
                lazy = lazy or "conversion-registers-meta-check"
                continue
            return ("doc-differs:" if iv[k].startswith("0") else "conversion-changes-live-schema:") + typ
        return "parse-changes-live-schema:" + typ
    return lazy or "tie:" + head[1]


M_PART = re.compile(r"m(-|[\[\]0-9,…]+)")


def drop_unshown(is_, ms):
    """A document that shows no member list at its top (`m-`: an error, a panic, a $ref to $defs) cannot be compared with
    the members the model derives: the member part of that step is dropped on both sides."""
    a, b = is_.split(";"), ms.split(";")
    if len(a) != len(b):
        return is_, ms
    for k in range(len(a)):
        if "m-" in a[k]:
            a[k] = M_PART.sub("", a[k], count=1)
            b[k] = M_PART.sub("", b[k], count=1)
    return ";".join(a), ";".join(b)


def split_k(struct):
    """'g..m..r..!k=..;g..!k-' -> (structs without the k parts, list of k parts ('' when a step has none))"""
    rest, ks = [], []
    for st in struct.split(";"):
        a, bang, k = st.partition("!")
        rest.append(a); ks.append(k if bang else "")
    return ";".join(rest), ks


def project_k(iks, mks):
    """The document-level tie: per conv step the keywords of the real document (impl, always `k=` + every bag-settable keyword
    of the node, or `k-`) against the keywords ConvDoc.docOf derives from the shipped annotated Bag (model): `k=` compared in
    full; `k~` (structural kinds: only the fields applyBag assigns are predicted) compared on the fields the model lists;
    `k-` (wrappers, pipes: the node is another schema's) not compared."""
    a, b = [], []
    for ik, mk in zip(iks, mks):
        if mk == "k-" or ik == "k-" and mk == "":
            a.append(""); b.append(""); continue
        if mk.startswith("k~") and ik.startswith("k="):
            fs = set(x.split("=")[0] for x in mk[2:].split(",") if x)
            ik = "k~" + ",".join(x for x in ik[2:].split(",") if x.split("=")[0] in fs)
        a.append(ik); b.append(mk)
    return "!".join(a), "!".join(b)


def rewrite(data):
    ops, impl, model, stats = data
    impl2, model2 = [], []
    for i in range(len(ops)):
        _, steps = c08.steps_of(ops[i])
        iv, is_ = c08.parts(impl[i])
        iv = mask(iv, steps)
        if "\t" not in model[i]:
            impl2.append(iv + " S:" + is_); model2.append(model[i] + "\t-"); continue
        m, s = model[i].split("\t", 1)
        mv, ms = c08.parts(m)
        is_, iks = split_k(is_)
        ms, mks = split_k(ms)
        ik, mk = project_k(iks, mks) if len(iks) == len(mks) else ("!".join(iks), "!".join(mks))
        is_, ms = drop_unshown(is_, ms)
        if ik != mk:
            is_, ms = is_ + " K:" + ik, ms + " K:" + mk
        sv, _ = c08.parts(s)
        mv, sv = mask(mv, steps), mask(sv, steps)
        # ToJSONSchema(registry): the model claims purity, not determinism — `r:` stands for "the document may differ" and is
        # matched by either outcome; a differing document is reported as `r:` (class registry-document-order-dependent)
        ivl, mvl = iv.split(";"), mv.split(";")
        for k, st in enumerate(steps):
            if st[1] == "convreg" and k < len(ivl) and k < len(mvl) and mvl[k] == "r:":
                same, _, ch = ivl[k].partition(":")
                if same == "1":
                    mvl[k] = "1:"
                else:
                    ivl[k] = "r:" + ch
        iv, mv = ";".join(ivl), ";".join(mvl)
        if is_ == ms:
            impl2.append(iv); model2.append(mv + "\t" + sv)
        else:
            impl2.append(iv + " S:" + is_); model2.append(mv + " S:" + ms + "\t" + sv + " S:" + is_)
    return ops, impl2, model2, stats


def describe(op):
    return ("history over base %s (harness/storex Bases()); after '#': <receiver>.<Method>/<variant> = chaining call, conv(i,optK) = "
            "ToJSONSchema(live[i], OptionSets()[K]), parse(i) = the probe set parsed with live[i]; verdict d:<changed> per conv step: "
            "d = document equals the isolated twin's" % c08.steps_of(op)[0][1])


def run(res):
    # ONE harness process regenerates Gen/ConvAccess.lean (go/ast provenance analysis of REPO's jsonschema/to.go: accessor
    # calls, write sites with the origin of the memory written, map ranges with their sinks, convertEnum's sort; accessors
    # classified alias/copy behaviourally) and then runs the histories; the proofs over the regenerated tables are built
    # afterwards, under the same lock (table and proof run belong to the same tree). The driver imports the tables too.
    import time
    t0 = time.time()
    timing = {}
    with C.Lock("c12-gen"):
        timing["wait_own_lock_s"] = round(time.time() - t0, 1)
        tb = time.time()
        okh, outh = C.build_harness("C12")      # slow only after /repo moved
        timing["harness_go_build_incl_go_lock_wait_s"] = round(time.time() - tb, 1)
        if not okh:
            C.tie_broken(res, "harness C12 does not build against the tree", outh[-3000:])
            return res.finish()
        # the translator FIRST: the driver imports the regenerated tables (its prediction goes through ConvDoc.docOf over the
        # regenerated applyBag row and ConvDoc.runTrace over the regenerated write sites)
        env = C.goenv(); env["C12_GEN"] = GEN
        rc, outg = C.run([C.harness_bin("C12")], env=env, timeout=600)
        if rc != 0:
            C.tie_broken(res, "translator jsonschema/to.go -> Gen/ConvAccess.lean", outg[-3000:])
            return res.finish()
        t1 = time.time()
        okd, outd = C.lake_build(["driver_c12"])
        timing["driver_build_incl_lake_lock_wait_s"] = round(time.time() - t1, 1)
        if not okd:
            C.tie_broken(res, "driver_c12 does not build over the regenerated tables (Gen/ConvAccess.lean)", outd[-3000:])
            return res.finish()
        C.os.environ.pop("C12_GEN_ALSO", None)
        t2 = time.time()
        data, err = C.correspond(res, "C12")
        timing["harness_relink_run_and_driver_s"] = round(time.time() - t2, 1)
        t3 = time.time()
        ok, detail = C.prove(res, MODULES, THEOREMS)
        timing["proofs_incl_lake_lock_wait_s"] = round(time.time() - t3, 1)
    changed = C.fingerprint(res, "C12")
    for k, lean_def, kind, det in changed:
        if kind == "missing":
            C.tie_broken(res, "fingerprint " + k, "the function transcribed as %s is gone from jsonschema/to.go: %s" % (lean_def, det))
    if changed:
        # the transcribed functions are reached by EVERY conv step of the run (docOf against the real document's keywords),
        # so the correspondence below is the re-validation; the changed functions are recorded in the evidence
        res.assumptions.append("source fingerprint: %d transcribed function(s) of jsonschema/to.go edited since recorded (%s); re-validated by this run's document tie" % (len(changed), ", ".join(c[0] for c in changed)))
    if data is not None and isinstance(data[3], dict):
        timing["harness_run_s"] = data[3].get("harness_s")
    res.coverage["timing"] = timing
    if not ok:
        # a statement over the regenerated tables that stops checking (a write site whose memory is not the converter's
        # own, an unsorted map range feeding an order-sensitive sink) aims nothing by itself: the histories are the
        # failing-input search (definition bases x accessors, fresh-twin determinism); if they are green the tie is broken
        C.tie_broken(res, "proof Gozod.Proofs.C12 / C12Def / C12Access (the latter is over the tables regenerated from jsonschema/to.go)", detail)
    if data is None:
        C.tie_broken(res, "correspondence C12/convert-histories (or the translator jsonschema/to.go -> Gen/ConvAccess.lean)", err)
        return res.finish()
    C.decide(res, "C12", rewrite(data), key, "C12/convert-histories", describe=describe)
    res.coverage["rule"] = ("per base schema (every schema type) and per exported schema-returning method: H1 = derive child, convert child, parent, "
        "parse, convert both again with random options; H2 = two siblings converted alternately, then the parent, then a sibling derived after the "
        "conversions; H3 = random family of 3-6 schemas, 2n random conversions (6 option settings) / parses interleaved with further derivations, "
        "then every schema converted once more; H5 = private metadata registries; H6 = every catalogue check value (gozod.Describe/gozod.Meta with GlobalMeta examples of every JSON kind, "
        "user-defined checks, every check the public methods build: storex/checks.go) through every method taking a core.ZodCheck, result converted 3x, parent, wrapper 3x, sibling, second check, all twice more; "
        "H7 = the catalogue attached with Internals().AddCheck on every base, converted 3x, child 2x, sibling, all again; H8 = ToJSONSchema(REGISTRY over the whole family) as a history step between conversions of its schemas (9 registry x option variants); H9 = in-place rewriting of documents (an Override overwriting every list / pointee of every node it is handed; the caller doing the same to the returned document) on every base with a Meta check carrying examples and on 6 bases whose registry entry has examples, every conv step with the measurement of which registry entries' example lists the document holds. 14 option sets in the random pool (values, private registries, URI + Override callbacks, unknown strings, combinations). Bases = every schema type (storex.Bases) + definition-data bases (storex.DefBases: literal member lists any-typed/typed with repeats, one slice member, nested slices, maps, mixed types, arrays; enums over string/int/float/bool/int8/any members with repeats; objects/unions/xors/tuples/arrays/intersections/maps/records/lazies holding the same member instance several times or several composite members). Snapshot per live schema: exported internals + what every slice/map accessor hands out + the definition's own slices/maps; parse fingerprint over the fixed probes + member-derived probes (every member, element, proper prefix) + probes derived from the schema's own boundary values read off an isolated twin (document keywords at every depth and the annotated Bag: numbers at bound-1/bound/bound+1 as int/int64/float64 and +-0.5, strings/lists/maps of length bound-1/bound/bound+1, objects with every declared key / each required key absent / an undeclared key; distribution in input_distribution: probe:*, bound:*:<straddled|all-accepted|all-rejected>, probes-from-bounds:*). A document that differs from the twin's is re-tried on 24 fresh twins: disagreement among isolated twins = verdict n (nondeterministic). Oracle per conversion: the document of an isolated replayed twin; registry entries "
        "before/after each conversion against the model (convertReg). Per conversion additionally the document-level tie: the annotated Bag of the converted schema (annotatedInternals replayed on a private copy; shipped in a non-sorted enumeration order) and internals.Type go to the Lean driver, ConvDoc.docOf derives the bag-settable keywords through the regenerated applyBag row, compared with the keywords of the real document's node (histogram class:conv-with-document-keywords). distinct = distinct op lines.")
    res.assumptions += [
        "constructors and chaining calls are deterministic (the isolated twin is the same derivation replayed)",
        "the annotated Bag determines the bag-settable keywords of the schema's own node (checked per conversion: ConvDoc.docOf against the real document); recursion into member schemas and $defs hoisting are validated by the runs only",
        "a real conversion's writes are executions of write sites of the regenerated table (translator's provenance analysis; cross-checked by re-observing every live schema after every step)",
    ]
    return res.finish()
