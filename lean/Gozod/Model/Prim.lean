/-
  Gozod.Model.Prim — `ParsePrimitive` and `ParsePrimitiveStrict` (internal/engine/parser.go:23-105,
  644-853) for a primitive schema whose checks are interpreted by an `Env`, with the modifier
  fields carrying concrete values.

  Inputs are classified the way `parsePrimitiveValue` classifies them:
    nil            untyped nil
    val v          a value of the schema's base Go type T
    ptr v          a non-nil *T
    nilPtr         a nil *T
    foreign        anything else (another Go kind, a pointer to another type, **T): no coercion
-/
import Gozod.Model.Checks
namespace Gozod.Prim
open Gozod

inductive Input (V : Type) where
  | nil | val (v : V) | ptr (v : V) | nilPtr | foreign
  deriving Repr

structure Internals (P O V : Type) where
  checks : List (Check P O) := []
  ptrSchema : Bool := false              -- built by the pointer constructor / Optional / Nilable: R = *T
  optional : Bool := false
  nilable : Bool := false
  nonOptional : Bool := false
  dv : Option V := none                  -- DefaultValue
  df : Option V := none                  -- DefaultFunc (its result)
  pv : Option V := none
  pf : Option V := none
  admitsNil : Bool := false              -- type code `unknown`
  ctorPtr : Bool := false                -- the checks were attached to a schema built by the pointer constructor
                                         -- (their wrappers' type parameter is *T): decides how they treat a nil payload
  isRefine : P → Bool := fun _ => false  -- which predicates are user refinements (`custom` checks)

/-- Result of a parse entry point, as the property observes it. -/
inductive Out (V : Type) where
  | okVal (v : V)                        -- a value (delivered as T or *T according to the schema)
  | okNil                                -- nil
  | errChecks (positions : List Nat)     -- issues of the schema's own checks
  | errNonOptional
  | errType
  deriving Repr, DecidableEq

section
variable {P O T V : Type}

/-- `filterNilChecks` + `ApplyChecks[any](nil, …)` (modifiers.go:80-85, 109-127): on the nil value only
    overwrite and refine/custom checks run. A refine wrapper accepts nil only when it was attached to a
    pointer-typed schema, and no earlier overwrite has turned the payload into a typed nil pointer
    (types/string.go:414-440, 553-573). Returns the positions of the refinements that report an issue. -/
def nilCheckIssues (i : Internals P O V) : Nat → List (Check P O) → Bool → List Nat
  | _, [], _ => []
  | k, .overwrite _ :: cs, typedNil => nilCheckIssues i (k + 1) cs (typedNil || i.ctorPtr)
  | k, .pred p abort _ :: cs, typedNil =>
    if i.isRefine p then
      (if !i.ctorPtr || typedNil then (if abort then [k] else k :: nilCheckIssues i (k + 1) cs typedNil)
       else nilCheckIssues i (k + 1) cs typedNil)
    else nilCheckIssues i (k + 1) cs typedNil

def checked (env : Env P O T V) (i : Internals P O V) (ptrIn : Bool) (v : V) : Out V :=
  let r := runChecksOn env i.ptrSchema ptrIn i.checks v
  if r.issues = [] then .okVal r.val else .errChecks r.issues

/-- `processModifiersCore` on a nil input followed by the `handled` / prefault continuation of
    `ParsePrimitive` (no engine-level transform on primitives). -/
def nilPath (env : Env P O T V) (i : Internals P O V) : Out V :=
  match i.dv, i.df with
  | some d, _ => if hasOverwrite i.checks then checked env i false d else .okVal d
  | none, some d => if hasOverwrite i.checks then checked env i false d else .okVal d
  | none, none =>
    match i.pv, i.pf with
    | some p, _ => checked env i false p
    | none, some p => checked env i false p
    | none, none =>
      if i.nonOptional then .errNonOptional
      else if i.optional || i.nilable then
        (match nilCheckIssues i 0 i.checks false with
         | [] => .okNil
         | ps => .errChecks ps)
      else if i.admitsNil then .okNil
      else .errType

/-- `ParsePrimitive`. -/
def parse (env : Env P O T V) (i : Internals P O V) : Input V → Out V
  | .nil => nilPath env i
  | .nilPtr => nilPath env i
  | .val v => checked env i false v
  | .ptr v => checked env i true v
  | .foreign => .errType

/-- The fast-path test of `ParsePrimitiveStrict` (parser.go:87-93): PrefaultFunc is not consulted. -/
def strictFast (i : Internals P O V) : Bool :=
  i.checks.isEmpty && i.dv.isNone && i.pv.isNone && !i.optional && !i.nilable && !i.nonOptional && i.df.isNone

/-- `ParsePrimitiveStrict` on an input of the schema's static type R (`val` when R = T, `ptr` /
    `nilPtr` when R = *T). With checks the value is extracted, validated once and re-wrapped. -/
def strictParse (env : Env P O T V) (i : Internals P O V) : Input V → Out V
  | .nil => nilPath env i
  | .nilPtr => nilPath env i
  | .val v => if strictFast i then .okVal v
              else if i.checks.isEmpty then .okVal v            -- validateAndReturn: nothing to do
              else checked env i false v                        -- parsePrimitiveStrictWithChecks
  | .ptr v => if strictFast i then .okVal v
              else if i.checks.isEmpty then .okVal v
              else checked env i false v                        -- validator runs on the extracted value: no pointer pass
  | .foreign => .errType

end
end Gozod.Prim
