"""C04 — Parse is total: nil error on success, else a well-formed ZodError, never a panic."""
import os
from . import common as C

MANIFEST = dict(
   technique="Lean 4 proof that every error the container model builds is well-formed relative to its members (>= 1 issue, known code, message, non-nil path; creators + FinalizeIssue modelled as smart constructors), + correspondence: (m) container cases where the model predicts the outcome shape, (x) the schema-type x Go-kind cross product with every call under recover(), judged on the implementation alone",
   text="c04_error_wf: for every container, member environment whose own errors are well-formed, Cfg with the intersection path patch and input, the model returns ok or an error with at least one issue, each with a known code, a message and a non-nil path (by induction: any nesting depth); c04_ok_no_error; witness c04_inter_nil_path for today's code. PARTIAL: panic-freedom cannot be a theorem about a total Lean model; it is decided by the tie: 75 hand-picked + generated schemas (every schema type, modifiers, coercion, compositions, recursion through Lazy; no user callbacks) x 118 values of every Go kind (nil, typed nils, **T, NaN/Inf/-0, complex, unhashable map values, funcs, chans, unsafe.Pointer, structs with interface fields, reflect.Value, deep nesting) x Parse/ParseAny/StrictParse under recover(); observation total | panic:<class> | malformed:<why>.",
   note="PARTIAL (DESIGN §8): the theorem covers the SHAPE of errors built by composites from their members' errors; it does not cover primitives' own creators (coordinator's C01 model) nor panics. Panic-freedom and error shape over the cross product are observed on the implementation under recover(), i.e. tested on an enumerated cross product, not proved for all inputs. Trusted: Lean kernel; axioms propext/Classical.choice/Quot.sound only; the Go harness, errors.As, comparer. Schemas with user callbacks (Refine/Transform/Overwrite/Check/DefaultFunc) are outside the statement and not generated.",
   design="DESIGN.md §5 C04; notes/C04.md")

MODULES = ["Gozod.Proofs.C04", "Gozod.Proofs.C04Creators"]
THEOREMS = ["Gozod.C04." + t for t in [
    "c04_error_wf", "c04_ok_no_error", "c04_inter_nil_path", "mergeUnrec_wf", "engine_wf",
    "sliceElems_wf", "objectFields_wf", "recordValues_wf",
]] + ["Gozod.C04.Creators." + t for t in [
    # statements over the tables regenerated from core/constants.go and internal/issues/{creators,finalize,formatters}.go
    "codes_are_model_codes", "model_codes_known", "model_codes_complete", "codes_count",
    "creators_error_wf", "creators_raw_code_known", "creators_raw_path_exceptions", "escaping_listed", "creators_nontrivial",
    "finalize_literal", "finalize_path_fix", "finalize_message_assigns", "finalize_fallback_is_default",
    "default_message_nonempty", "default_message_table_nontrivial", "finalize_wf",
]]

# constructors of package gozod / coerce the harness may leave uncalled, with the reason (anything else breaks the tie)
REVIEWED_UNCALLABLE = {
    "gozod.Custom": "takes a user callback", "gozod.Function": "function schema: implementations are user callbacks",
    "gozod.FunctionPtr": "function schema: implementations are user callbacks",
    "gozod.Check": "takes a user callback", "gozod.CheckFn": "takes a user callback", "gozod.Refine": "takes a user callback",
    "gozod.Transform": "takes a user callback", "gozod.Preprocess": "takes a user callback", "gozod.Overwrite": "takes a user callback",
    "gozod.Lazy": "getter", "gozod.LazyPtr": "getter of a typed schema (hand instantiation gozod.Lazy#0 covers the typed form)",
}
# generic functions that are not schema constructors / take user callbacks (their entry in genericInst is empty on purpose)
REVIEWED_GENERIC_EMPTY = {"gozod.NewRegistry", "gozod.Apply"}

def translate(res):
    """go/ast translators (harness/cmd/c04gen): the constructor table linked into the harness and the Lean tables of issue
    codes / creators / FinalizeIssue / default messages. Files are rewritten only when their content changes."""
    binp = os.path.join(C.BUILD, "bin", "c04gen")
    with C.Lock("go"):
        os.makedirs(os.path.dirname(binp), exist_ok=True)
        rc, out = C.run(["go", "build", "-o", binp, "./cmd/c04gen"], cwd=C.HARNESS, env=C.goenv(), timeout=900)
    if rc != 0: return "c04gen does not build:\n" + out[-2000:]
    rc, out = C.run([binp, "-repo", C.REPO, "-ctors", os.path.join(C.HARNESS, "cmd", "c04", "ctors_gen.go"),
                     "-lean", os.path.join(C.LEAN, "Gozod", "Gen")], timeout=300)
    if rc != 0: return "c04gen cannot find what it translates:\n" + out[-2000:]
    return ""

def split(line):
    f = line.split("\t")
    return f[0], None          # the model column is the prediction; the statement itself is the oracle

def family(label):
    """the schema family of a case label: `gozod.X` / `coerce.X` (two components), else the text before the first . or ("""
    import re
    m = re.match(r"((?:gozod|coerce)\.[A-Za-z0-9_]+)", label)
    if m: return m.group(1)
    m = re.match(r"([A-Za-z0-9_\[\]]+)", label)
    return m.group(1) if m else label[:20]

def key(op, impl, M, S):
    """failure class = observation + the schema family + the class of the input that exposed it (never the literal input):
         x-stream   <obs>:<family>:<value class>         value class: pointer chains lose their depth (**T->nil@1 -> T->nil), cyclic
                                                        inputs are `cyclic-input` (`cyclic-ptr-to-interface` for the *any cycle)
         extreme    <obs>:extreme-arg:<Method>:<family>  the schema was built with the zero / negative / extreme value of every parameter of <Method>
         cyclic     <obs>:cyclic-input|cyclic-ptr-to-interface:<family>
         nil chain  <obs>:nil-chain(<T>):<family>        a pointer chain over T that ends in a nil pointer
         dflt       <obs>:dflt:<Default|Prefault>:<family>  a default / prefault value of the wrong shape
         m-stream   <obs>:<container kind>"""
    import re
    body = C.op_body(op).split(" ")
    c = C.op_comment(op).strip().split(" ")
    kind = c[0] if c else "?"
    ob = impl.replace("err(malformed:", "malformed:").rstrip(")")
    if len(body) > 1 and body[1] == "m":
        return "%s:%s" % (ob, kind)
    label = " ".join(c[1:])
    call = re.search(r"\.(ParseAny|Parse|StrictParse)\((.*)\)(?: wrapped)?$", label)
    vname = call.group(2) if call else (body[4] if len(body) > 4 else "?")
    lab = label[:call.start()] if call else label
    fam = family(lab)
    if kind.startswith("dflt:"):
        m = re.search(r"\.(Default|Prefault)\(", lab)
        return "%s:dflt:%s:%s" % (ob, m.group(1) if m else "?", fam)
    z = re.search(r"\.([A-Za-z0-9]+)/(zero|neg|big)", lab)
    if z and ("[arg-broken]" in lab or "->nil" not in vname):
        return "%s:extreme-arg:%s:%s" % (ob, z.group(1), fam)
    if "cyclic" in vname:
        return "%s:%s:%s" % (ob, "cyclic-ptr-to-interface" if vname.startswith("cyclic-*any") else "cyclic-input", fam)
    nc = re.match(r"^\**(?:\*any\{)?\**(.*)->nil@\d+\}?$", vname)
    if nc:      # a pointer chain over T ending in a nil pointer (whatever its depth, also inside a *any)
        return "%s:nil-chain(%s):%s" % (ob, nc.group(1).replace(" ", ""), fam)
    vc = re.sub(r"^\*+", "", vname)
    vc = re.sub(r"@\d+$", "", vc)
    vc = re.sub(r"^<(.*)>$", r"nested:\1", vc)
    return "%s:%s:%s" % (ob, fam, vc)

def describe(op):
    return C.op_comment(op).strip()

def suspicious_rows():
    """rows of the regenerated creator table the translator could not classify (they make the table theorems fail):
    named so that the failing-input search can be aimed at the functions"""
    rows, cur = [], ""
    try:
        for ln in open(os.path.join(C.LEAN, "Gozod", "Gen", "IssueCreators.lean")):
            if "{ name :=" in ln: cur = ln.split('"')[1]
            if ".unknown" in ln or "9999" in ln or "(false, {" in ln: rows.append(cur)
    except OSError: pass
    return sorted(set(rows))

def run(res):
    err = translate(res)
    if err:
        C.tie_broken(res, "translator c04gen", err)
        return res.finish()
    ok, detail = C.prove(res, MODULES, THEOREMS)
    if not ok:
        sus = suspicious_rows()
        C.tie_broken(res, "proof Gozod.Proofs.C04 / C04Creators (tables regenerated from internal/issues, core/constants.go)",
                     ("creators the translator could not certify: %s\n\n" % ", ".join(sus) if sus else "") + detail)
    data, err = C.correspond(res, "C04")
    if data is None:
        C.tie_broken(res, "correspondence C04/totality", err)
        return res.finish()
    ops, impl, model, stats = data
    # constructor enumeration (c04gen -> ctors_gen.go): everything listed is called, or is a reviewed exception
    unc = {k: v for k, v in (stats.get("ctor_uncallable") or {}).items() if k.split("#")[0] not in REVIEWED_UNCALLABLE}
    gen_unc = [g for g in (stats.get("generic_uncovered") or [])]
    if unc or gen_unc:
        C.tie_broken(res, "constructor enumeration",
                     "exported constructors of package gozod/coerce the harness does not cover:\n  uncallable: %r\n  generic without instantiation: %r\n"
                     "(add an argument rule to ctorArg / an instantiation to genericInst in harness/cmd/c04/ctors.go)" % (unc, gen_unc))
    res.coverage["constructors"] = {"listed": stats.get("ctor_listed"), "schemas_built": stats.get("ctor_built"),
                                    "not_schema_functions": len(stats.get("ctor_non_schema") or []),
                                    "generic": len(stats.get("generic_listed") or []), "uncallable_reviewed": sorted((stats.get("ctor_uncallable") or {}).keys())}
    # the statement's oracle on the observation: conforming outcomes are ok / err(wf) / total
    conforming = {"ok", "err(wf)", "total"}
    ops2, impl2, model2 = [], [], []
    drift = []
    for i, (o, im, ml) in enumerate(zip(ops, impl, model)):
        M = ml.split("\t")[0]
        if im in conforming and M != im:
            drift.append(i)                      # impl conforms to the statement but the model predicted otherwise
        ops2.append(o); impl2.append(im)
        # statement violated → class key; else agreement is model == impl
        model2.append(M if im in conforming else "predicted:" + M)
    C.decide(res, "C04", (ops2, impl2, model2, stats), key, "C04/totality", split=split, describe=describe)
    res.coverage["rule"] = ("x: 75 schemas (every schema type, modifier, coercion, composition; recursive Lazy) + 60 (600 thorough) generated nestings x 118 Go values of every kind "
        "x Parse/ParseAny/StrictParse (StrictParse only where the value is assignable to the parameter type); m: 12 (120) generated schemas per container kind x valid / "
        "corrupted / 38 wrong-shape inputs with the Lean model predicting ok | err(wf) | err(malformed). distinct = distinct op lines. cfg = " + str(stats.get("cfg")))
    res.assumptions += [
        "PARTIAL: panic-freedom is observed under recover() on the enumerated cross product; it is not a theorem",
        "well-formedness of primitives' own errors is a hypothesis of c04_error_wf (checked on the implementation for every case, not proved here)",
    ]
    return res.finish()
