/-
  C05 — every issue's path addresses the offending location inside the input.

  Model: `Gozod.Model.Containers` (issue lists with paths, members abstract).
  `Child v s x`: `x` sits in `v` at segment `s` (slice index, map key / set element, struct field;
  one pointer is looked through).  `Reach`/`RoP`: a path reaches a value, or reaches the parent
  container of a missing key.
-/
import Gozod.Model.Containers

namespace Gozod.C05
open Gozod.Cont

/-! ### reaching values by paths -/

def ChildD (v : V) (s : Seg) (x : V) : Prop :=
  match v, s with
  | .slice _ (some xs), .idx i => getIdx xs i = some x
  | .map _ _ (some es), .key k => ∃ e ∈ es, keyId e.1 = k ∧ e.2 = x
  | .strct _ fs, .key k => (k, x) ∈ fs
  | _, _ => False

/-- `x` is the part of `v` at segment `s` (through at most one pointer). -/
def Child (v : V) (s : Seg) (x : V) : Prop :=
  ChildD v s x ∨ (match v with
                  | .ptr _ (some w) => ChildD w s x
                  | _ => False)

inductive Reach : V → List Seg → V → Prop
  | here (v : V) : Reach v [] v
  | step {v x w : V} {s : Seg} {p : List Seg} : Child v s x → Reach x p w → Reach v (s :: p) w

/-- the path reaches a value, or all but its last segment does (parent of a missing key). -/
def RoP (v : V) (p : List Seg) : Prop :=
  (∃ w, Reach v p w) ∨ ∃ q s, p = q ++ [s] ∧ ∃ w, Reach v q w

theorem rop_nil (v : V) : RoP v [] := Or.inl ⟨v, .here v⟩

theorem rop_single (v : V) (s : Seg) : RoP v [s] := Or.inr ⟨[], s, rfl, v, .here v⟩

theorem rop_cons {v x : V} {s : Seg} {p : List Seg} (hc : Child v s x) (h : RoP x p) : RoP v (s :: p) := by
  rcases h with ⟨w, hw⟩ | ⟨q, t, rfl, w, hw⟩
  · exact Or.inl ⟨w, .step hc hw⟩
  · exact Or.inr ⟨s :: q, t, rfl, w, .step hc hw⟩

/-! ### where a container's issues come from -/

/-- The per-container law: an issue reported for `v` is
    * a container-level issue at the root or at one of the container's own keys, or
    * the issue `c` of a member asked about the part `x` at segment `s`, with `s` put in front, or
    * the issue of a member asked about `v` itself, path unchanged (union-like containers). -/
inductive From (env : Env) (v : V) : Issue → Prop
  | root {i : Issue} : i.path = [] → From env v i
  | own {i : Issue} (s : Seg) : i.path = [s] → From env v i
  | child {i : Issue} (s : Seg) (x : V) (m : Mid) (c : Issue) :
      Child v s x → c ∈ errs env m x → i.path = s :: c.path → From env v i
  | same {i : Issue} (m : Mid) (c : Issue) : c ∈ errs env m v → i.path = c.path → From env v i
  | keyed {i : Issue} (k x : V) (m : Mid) (c : Issue) :
      Child v k.seg x → c ∈ errs env m k → i.path = k.seg :: c.path → From env v i

theorem sizeIssues_path {cs : List SizeCk} {n : Nat} {i : Issue} (h : i ∈ sizeIssues cs n) : i.path = [] := by
  induction cs with
  | nil => simp [sizeIssues] at h
  | cons c cs ih =>
    simp only [sizeIssues, List.mem_append] at h
    rcases h with h | h
    · by_cases hc : c.holds n = true
      · simp [hc] at h
      · simp only [hc, Bool.false_eq_true, ↓reduceIte, List.mem_singleton] at h
        subst h
        cases c <;> simp [SizeCk.issue, mk] <;> split <;> rfl
    · exact ih h

theorem getIdx_succ_of {xs : List V} {x y : V} {j : Nat} (h : getIdx xs j = some y) :
    getIdx (x :: xs) (j + 1) = some y := by simpa [getIdx] using h

/-- sequence payloads: element `j` of the extracted list is the child of `v` at index `j`. -/
def SeqOf (v : V) (xs : List V) : Prop := ∀ j x, getIdx xs j = some x → Child v (.idx j) x

theorem seqOf_slice {t : Ty} {v : V} {xs : List V} (h : extractSlice t v = some xs) : SeqOf v xs := by
  intro j x hj
  unfold extractSlice at h
  split at h
  · split at h
    · cases h; exact Or.inl hj
    · split at h
      · cases h; exact Or.inl hj
      · cases h
  · split at h
    · cases h; exact Or.inr hj
    · split at h
      · cases h; exact Or.inr hj
      · cases h
  · split at h
    · cases h; cases j <;> simp [getIdx] at hj
    · cases h
  · cases h

theorem seqOf_array {v : V} {xs : List V} (h : extractArray v = some xs) : SeqOf v xs := by
  intro j x hj
  unfold extractArray at h
  split at h
  · cases h; exact Or.inl hj
  · cases h; exact Or.inr hj
  · cases h; cases j <;> simp [getIdx] at hj
  · cases h

theorem seqOf_tuple {v : V} {xs : List V} (h : extractTuple v = some xs) : SeqOf v xs := by
  intro j x hj
  unfold extractTuple at h
  split at h
  · cases h; exact Or.inl hj
  · cases h

/-- shifting: the tail of a list seen from index `k+1`. -/
theorem sliceElems_from (cfg : Cfg) (env : Env) (e : Mid) (v : V) (k : Nat) (xs : List V)
    (hx : ∀ j x, getIdx xs j = some x → Child v (.idx (k + j)) x) :
    ∀ i ∈ sliceElems cfg env e k xs, From env v i := by
  induction xs generalizing k with
  | nil => intro i h; simp [sliceElems] at h
  | cons x xs ih =>
    intro i h
    simp only [sliceElems, List.mem_append, List.mem_map] at h
    rcases h with ⟨c, hc, rfl⟩ | h
    · have hch : Child v (.idx k) x := by simpa using hx 0 x rfl
      by_cases hp : cfg.slicePrepend = true
      · simp only [hp, ↓reduceIte]
        exact .child (.idx k) x e c hch hc rfl
      · simp only [hp, Bool.false_eq_true, ↓reduceIte]
        exact .own (.idx k) rfl
    · refine ih (k + 1) ?_ i h
      intro j y hj
      have := hx (j + 1) y (getIdx_succ_of hj)
      simpa [Nat.add_assoc, Nat.add_comm 1 j] using this

theorem tupleElems_from (env : Env) (v : V) (k : Nat) (ms : List Mid) (r : Option Mid) (xs : List V)
    (hx : ∀ j x, getIdx xs j = some x → Child v (.idx (k + j)) x) :
    ∀ i ∈ tupleElems env k ms r xs, From env v i := by
  induction xs generalizing k ms with
  | nil => intro i h; cases ms <;> simp [tupleElems] at h
  | cons x xs ih =>
    have hch : Child v (.idx k) x := by simpa using hx 0 x rfl
    have hx' : ∀ j y, getIdx xs j = some y → Child v (.idx (k + 1 + j)) y := by
      intro j y hj
      have := hx (j + 1) y (getIdx_succ_of hj)
      simpa [Nat.add_assoc, Nat.add_comm 1 j] using this
    intro i h
    cases ms with
    | cons m ms =>
      simp only [tupleElems, List.mem_append, List.mem_map] at h
      rcases h with ⟨c, hc, rfl⟩ | h
      · exact .child (.idx k) x m c hch hc rfl
      · exact ih (k + 1) ms hx' i h
    | nil =>
      cases r with
      | none => simp [tupleElems] at h
      | some r =>
        simp only [tupleElems, List.mem_append, List.mem_map] at h
        rcases h with ⟨c, hc, rfl⟩ | h
        · exact .child (.idx k) x r c hch hc rfl
        · exact ih (k + 1) [] hx' i h

theorem arrayElems_from (env : Env) (v : V) (k : Nat) (ms : List Mid) (r : Option Mid) (xs : List V) :
    ∀ i ∈ arrayElems env k ms r xs, From env v i := by
  induction xs generalizing k ms with
  | nil => intro i h; cases ms <;> simp [arrayElems] at h
  | cons x xs ih =>
    intro i h
    cases ms with
    | cons m ms =>
      simp only [arrayElems, List.mem_append] at h
      rcases h with h | h
      · by_cases ha : acc env m x = true
        · simp [ha] at h
        · simp only [ha, Bool.false_eq_true, ↓reduceIte, List.mem_singleton] at h
          subst h; exact .own (.idx k) rfl
      · exact ih (k + 1) ms i h
    | nil =>
      cases r with
      | none => simp [arrayElems] at h
      | some r =>
        simp only [arrayElems, List.mem_append] at h
        rcases h with h | h
        · by_cases ha : acc env r x = true
          · simp [ha] at h
          · simp only [ha, Bool.false_eq_true, ↓reduceIte, List.mem_singleton] at h
            subst h; exact .own (.idx k) rfl
        · exact ih (k + 1) [] i h

/-- map-like payloads: every entry's value is the child of `v` at the entry's key. -/
def EntriesOf (v : V) (es : List (V × V)) : Prop := ∀ e ∈ es, Child v e.1.seg e.2

theorem seg_eq_keyId (k : V) : k.seg = .key (keyId k) := by
  cases k <;> rfl

theorem entriesOf_of_map {k e : Ty} {es : List (V × V)} : EntriesOf (.map k e (some es)) es := by
  intro en hen
  rw [seg_eq_keyId]
  exact Or.inl ⟨en, hen, rfl, rfl⟩

theorem entriesOf_of_ptr {t k e : Ty} {es : List (V × V)} : EntriesOf (.ptr t (some (.map k e (some es)))) es := by
  intro en hen
  rw [seg_eq_keyId]
  exact Or.inr ⟨en, hen, rfl, rfl⟩

theorem entriesOf_nil (v : V) : EntriesOf v [] := by intro e h; cases h

theorem entriesOf_map {v : V} {es : List (V × V)} (h : extractMap v = some es) : EntriesOf v es := by
  unfold extractMap at h
  split at h
  · cases h; exact entriesOf_of_map
  · cases h; exact entriesOf_of_ptr
  · cases h; exact entriesOf_nil _
  · cases h

theorem entriesOf_record {v : V} {es : List (V × V)} (h : extractRecord v = some es) : EntriesOf v es := by
  unfold extractRecord at h
  split at h
  · split at h
    · cases h; exact entriesOf_of_map
    · cases h
  · cases h; exact entriesOf_of_ptr
  · cases h; exact entriesOf_nil _
  · cases h

theorem entriesOf_object {v : V} {es : List (V × V)} (h : extractObject v = some es) : EntriesOf v es := by
  unfold extractObject at h
  split at h
  · cases h; exact entriesOf_of_map
  · cases h; exact entriesOf_of_ptr
  · cases h; exact entriesOf_nil _
  · cases h

theorem mapEntries_from (env : Env) (v : V) (km vm : Option Mid) (es : List (V × V))
    (hx : EntriesOf v es) : ∀ i ∈ mapEntries env km vm es, From env v i := by
  induction es with
  | nil => intro i h; simp [mapEntries] at h
  | cons e es ih =>
    obtain ⟨k, x⟩ := e
    intro i h
    simp only [mapEntries, List.mem_append, List.mem_map] at h
    rcases h with (⟨c, hc, rfl⟩ | ⟨c, hc, rfl⟩) | h
    · -- a key issue is filed under the entry's key, followed by the key schema's own path
      cases km with
      | none => simp [optErrs] at hc
      | some m =>
        exact .keyed k x m c (hx (k, x) (List.mem_cons_self ..)) (by simpa [optErrs] using hc) rfl
    · cases vm with
      | none => simp [optErrs] at hc
      | some m =>
        exact .child k.seg x m c (hx (k, x) (List.mem_cons_self ..)) (by simpa [optErrs] using hc) rfl
    · exact ih (fun e he => hx e (List.mem_cons_of_mem _ he)) i h


/-! ### set (map-shaped inputs) -/

/-- every extracted element is a key of `v`. -/
def KeysOf (v : V) (xs : List V) : Prop := ∀ x ∈ xs, ∃ u, Child v x.seg u

theorem keysOf_entries {v : V} {es : List (V × V)} (h : EntriesOf v es) : KeysOf v (es.map (·.1)) := by
  intro x hx
  obtain ⟨e, he, rfl⟩ := List.mem_map.1 hx
  exact ⟨e.2, h e he⟩

theorem keysOf_set {t : Ty} {v : V} {xs : List V} (h : extractSet t v = some xs)
    (hv : ∀ e ys, v ≠ .slice e ys) : KeysOf v xs := by
  unfold extractSet at h
  split at h
  · split at h
    · cases h; exact keysOf_entries entriesOf_of_map
    · split at h
      · cases h; exact keysOf_entries entriesOf_of_map
      · cases h
  · exact absurd rfl (hv _ _)
  · split at h
    · cases h; exact keysOf_entries entriesOf_of_ptr
    · cases h
  · split at h
    · cases h; intro x hx; cases hx
    · cases h
  · cases h

theorem setElems_from (env : Env) (v : V) (m : Mid) (xs : List V) (hx : KeysOf v xs) :
    ∀ i ∈ setElems env m xs, From env v i := by
  induction xs with
  | nil => intro i h; simp [setElems] at h
  | cons x xs ih =>
    intro i h
    simp only [setElems, List.mem_append, List.mem_map] at h
    rcases h with ⟨c, hc, rfl⟩ | h
    · obtain ⟨u, hu⟩ := hx x (List.mem_cons_self ..)
      exact .keyed x u m c hu hc rfl
    · exact ih (fun y hy => hx y (List.mem_cons_of_mem _ hy)) i h

/-! ### record -/

theorem recordEnumKeys_from (env : Env) (v : V) (allowed : List Nat) (p : Bool) (es : List (V × V)) :
    ∀ i ∈ recordEnumKeys allowed p es, From env v i := by
  intro i h
  unfold recordEnumKeys at h
  simp only [List.mem_append] at h
  rcases h with h | h
  · split at h
    · cases h
    · simp only [List.mem_singleton] at h; subst h; exact .root rfl
  · split at h
    · cases h
    · obtain ⟨k, _, rfl⟩ := List.mem_map.1 h
      exact .own (.key k) rfl

theorem recordSchemaKeys_from (cfg : Cfg) (env : Env) (v : V) (m : Mid) (loose : Bool) (es : List (V × V))
    (hx : EntriesOf v es) : ∀ i ∈ recordSchemaKeys cfg env m loose es, From env v i := by
  induction es with
  | nil => intro i h; simp [recordSchemaKeys] at h
  | cons e es ih =>
    obtain ⟨k, x⟩ := e
    intro i h
    simp only [recordSchemaKeys, List.mem_append] at h
    rcases h with h | h
    · cases loose
      · simp only [Bool.false_eq_true, ↓reduceIte, List.mem_map] at h
        obtain ⟨c, hc, rfl⟩ := h
        by_cases hp : cfg.recordKeyPath = true
        · simp only [hp, ↓reduceIte]
          exact .keyed k x m c (hx (k, x) (List.mem_cons_self ..)) hc rfl
        · simp only [hp, Bool.false_eq_true, ↓reduceIte]
          exact .root rfl
      · simp at h
    · exact ih (fun e he => hx e (List.mem_cons_of_mem _ he)) i h

theorem recordValues_from (cfg : Cfg) (env : Env) (v : V) (ks : KeySpec) (vm : Mid) (loose : Bool)
    (es : List (V × V)) (hx : EntriesOf v es) (hp : cfg.recordKeyPath = true) :
    ∀ is, recordValues cfg env ks vm loose es = some is → ∀ i ∈ is, From env v i := by
  induction es with
  | nil => intro is h; simp [recordValues] at h
  | cons e es ih =>
    obtain ⟨k, x⟩ := e
    intro is h
    have ih' := ih (fun e he => hx e (List.mem_cons_of_mem _ he))
    simp only [recordValues] at h
    split at h
    · exact ih' is h
    · cases he : env vm x with
      | ok r => simp only [he] at h; exact ih' is h
      | err a t =>
        simp only [he, hp, ↓reduceIte, Option.some.injEq] at h
        subst h
        intro i hi
        obtain ⟨c, hc, rfl⟩ := List.mem_map.1 hi
        refine .child k.seg x vm c (hx (k, x) (List.mem_cons_self ..)) ?_ rfl
        simpa [errs, he] using hc

/-! ### object and struct -/

theorem lookupKey_mem {id : Nat} {es : List (V × V)} {x : V} (h : lookupKey id es = some x) :
    ∃ e ∈ es, keyId e.1 = id ∧ e.2 = x := by
  induction es with
  | nil => simp [lookupKey] at h
  | cons e es ih =>
    obtain ⟨k, y⟩ := e
    simp only [lookupKey] at h
    split at h
    · next hk => cases h; exact ⟨(k, x), List.mem_cons_self .., hk, rfl⟩
    · obtain ⟨e, he, h1, h2⟩ := ih h
      exact ⟨e, List.mem_cons_of_mem _ he, h1, h2⟩

/-- an object payload: looking a key up in the entries finds a child of `v`. -/
def ObjOf (v : V) (es : List (V × V)) : Prop :=
  EntriesOf v es ∧ ∀ id x, lookupKey id es = some x → Child v (.key id) x

theorem objOf_object {v : V} {es : List (V × V)} (h : extractObject v = some es) : ObjOf v es := by
  refine ⟨entriesOf_object h, ?_⟩
  intro id x hl
  obtain ⟨e, he, hk, hx⟩ := lookupKey_mem hl
  unfold extractObject at h
  split at h
  · cases h; exact Or.inl ⟨e, he, hk, hx⟩
  · cases h; exact Or.inr ⟨e, he, hk, hx⟩
  · cases h; cases he
  · cases h

theorem objectFields_from (env : Env) (v : V) (p : Partial) (es : List (V × V)) (shape : List Field)
    (hx : ObjOf v es) : ∀ i ∈ (objectFields env p es shape).1, From env v i := by
  induction shape with
  | nil => intro i h; simp [objectFields] at h
  | cons f rest ih =>
    intro i h
    simp only [objectFields] at h
    revert h ih
    generalize objectFields env p es rest = rec
    obtain ⟨is, n⟩ := rec
    intro ih h
    cases hk : lookupKey f.name es with
    | none =>
      simp only [hk, List.mem_append] at h
      rcases h with h | h
      · split at h
        · cases h
        · simp only [List.mem_singleton] at h; subst h; exact .own (.key f.name) rfl
      · exact ih i h
    | some x =>
      simp only [hk] at h
      split at h
      · simp only [List.mem_cons] at h
        rcases h with rfl | h
        · exact .own (.key f.name) rfl
        · exact ih i h
      · cases he : env f.m x with
        | ok r => simp only [he] at h; exact ih i h
        | err a t =>
          simp only [he, List.mem_append, List.mem_map] at h
          rcases h with ⟨c, hc, rfl⟩ | h
          · exact .child (.key f.name) x f.m c (hx.2 _ _ hk) (by simpa [errs, he] using hc) rfl
          · exact ih i h

/-- the catchall issues of the unknown-key loop, on their own. -/
def unkIssues (env : Env) (shape : List Field) (mode : Mode) (c : Option Mid) : List (V × V) → List Issue
  | [] => []
  | (k, x) :: es =>
    (if isKnown shape k then [] else
      match mode, c with
      | .passthrough, some cm => (errs env cm x).map (prepend k.seg)
      | .strip, some cm => (errs env cm x).map (prepend k.seg)      -- /repo 507cd5d
      | _, _ => []) ++ unkIssues env shape mode c es

theorem objectUnknown_fst (env : Env) (shape : List Field) (mode : Mode) (c : Option Mid) (es : List (V × V)) :
    (objectUnknown env shape mode c es).1 = unkIssues env shape mode c es := by
  induction es with
  | nil => rfl
  | cons e es ih =>
    obtain ⟨k, x⟩ := e
    simp only [objectUnknown, unkIssues]
    rw [← ih]
    generalize objectUnknown env shape mode c es = rec
    obtain ⟨is, un, n⟩ := rec
    by_cases hk : isKnown shape k = true
    · simp [hk]
    · simp only [hk, Bool.false_eq_true, ↓reduceIte]
      cases mode <;> cases c <;> simp
      all_goals (unfold errs; rename_i cm; cases env cm x <;> simp)

theorem objectUnknown_from (env : Env) (v : V) (shape : List Field) (mode : Mode) (c : Option Mid)
    (es : List (V × V)) (hx : EntriesOf v es) :
    ∀ i ∈ (objectUnknown env shape mode c es).1, From env v i := by
  rw [objectUnknown_fst]
  induction es with
  | nil => intro i h; simp [unkIssues] at h
  | cons e es ih =>
    obtain ⟨k, x⟩ := e
    intro i h
    have ih' := ih (fun e he => hx e (List.mem_cons_of_mem _ he))
    simp only [unkIssues, List.mem_append] at h
    rcases h with h | h
    · split at h
      · cases h
      · split at h
        · next cm =>
          obtain ⟨d, hd, rfl⟩ := List.mem_map.1 h
          exact .child k.seg x cm d (hx (k, x) (List.mem_cons_self ..)) hd rfl
        · next cm =>
          obtain ⟨d, hd, rfl⟩ := List.mem_map.1 h
          exact .child k.seg x cm d (hx (k, x) (List.mem_cons_self ..)) hd rfl
        · cases h
    · exact ih' i h

theorem lookupField_mem {id : Nat} {fs : List (Nat × V)} {x : V} (h : lookupField id fs = some x) :
    (id, x) ∈ fs := by
  induction fs with
  | nil => simp [lookupField] at h
  | cons e fs ih =>
    obtain ⟨n, y⟩ := e
    simp only [lookupField] at h
    split at h
    · next hn => cases h; subst hn; exact List.mem_cons_self ..
    · exact List.mem_cons_of_mem _ (ih h)

def FieldsOf (v : V) (fs : List (Nat × V)) : Prop := ∀ id x, (id, x) ∈ fs → Child v (.key id) x

theorem fieldsOf_struct {sid : Nat} {v : V} {fs : List (Nat × V)} (h : extractStruct sid v = some fs) :
    FieldsOf v fs := by
  intro id x hm
  unfold extractStruct at h
  split at h
  · split at h
    · cases h; exact Or.inl hm
    · cases h
  · split at h
    · cases h; exact Or.inr hm
    · cases h
  · cases h

theorem structFields_from (env : Env) (v : V) (fs : List (Nat × V)) (shape : List Field)
    (hx : FieldsOf v fs) : ∀ i ∈ structFields env fs shape, From env v i := by
  induction shape with
  | nil => intro i h; simp [structFields] at h
  | cons f rest ih =>
    intro i h
    simp only [structFields, List.mem_append] at h
    rcases h with h | h
    · cases hk : lookupField f.name fs with
      | none =>
        simp only [hk] at h
        split at h
        · cases h
        · simp only [List.mem_singleton] at h; subst h; exact .own (.key f.name) rfl
      | some x =>
        simp only [hk, List.mem_map] at h
        obtain ⟨c, hc, rfl⟩ := h
        exact .child (.key f.name) x f.m c (hx _ _ (lookupField_mem hk)) hc rfl
    · exact ih i h

/-! ### the law for every container -/

theorem engine_from {α : Type} (env : Env) (m : Mods) (ex : V → Option α) (va : α → Res) (v : V)
    (h : ∀ a, ex v = some a → ∀ i ∈ (va a).issues, From env v i) :
    ∀ i ∈ (engine m ex va v).issues, From env v i := by
  intro i hi
  unfold engine at hi
  split at hi
  · unfold nilPath at hi
    split at hi
    · simp only [Res.issues, List.mem_singleton] at hi; subst hi; exact .root rfl
    · split at hi
      · simp [Res.issues] at hi
      · simp only [Res.issues, List.mem_singleton] at hi; subst hi; exact .root rfl
  · cases he : ex v with
    | none => simp only [he, Res.issues, List.mem_singleton] at hi; subst hi; exact .root rfl
    | some a => simp only [he] at hi; exact h a he i hi

theorem ofIssues_issues (is : List Issue) : (ofIssues is).issues = is := by
  cases is <;> rfl

theorem mresIssues_eq (env : Env) (m : Mid) (v : V) : mresIssues (env m v) = errs env m v := by
  unfold mresIssues errs; cases env m v <;> rfl

theorem du_issues (env : Env) (m : Mods) (disc : Nat) (dmap : List (Nat × Mid)) (opts : List Mid) (v : V)
    (i : Issue) (hi : i ∈ (parseDU env m disc dmap opts v).issues) :
    i.path = [] ∨ ∃ t, i ∈ errs env t v := by
  unfold parseDU at hi
  split at hi
  · simp [Res.issues] at hi
  · split at hi
    · next es _ =>
      dsimp only at hi
      cases hk : lookupKey disc (es.getD []) with
      | none =>
        rw [hk] at hi
        simp only [Res.issues, List.mem_singleton] at hi
        left; rw [hi]; rfl
      | some dv =>
        rw [hk] at hi
        dsimp only at hi
        cases hd : lookupDisc dv dmap with
        | some t =>
          rw [hd] at hi
          dsimp only at hi
          cases he : env t (.map .str .any es) with
          | ok r => rw [he] at hi; simp [Res.issues] at hi
          | err a b =>
            rw [he] at hi
            right; exact ⟨t, by simpa [errs, he, Res.issues] using hi⟩
        | none =>
          rw [hd] at hi
          dsimp only at hi
          split at hi
          · simp [Res.issues] at hi
          · simp only [Res.issues, List.mem_singleton] at hi
            left; rw [hi]; rfl
    · simp only [Res.issues, List.mem_singleton] at hi
      left; rw [hi]; rfl

theorem lazy_issues (cfg : Cfg) (env : Env) (m : Mods) (direct : Bool) (t : Mid) (v : V) (i : Issue)
    (hi : i ∈ (parseLazy cfg env m direct t v).issues) : i.path = [] ∨ i ∈ errs env t v := by
  unfold parseLazy at hi
  split at hi
  · split at hi
    · simp only [Res.issues, List.mem_singleton] at hi
      left; rw [hi]; rfl
    · split at hi
      · simp [Res.issues] at hi
      · simp only [Res.issues, List.mem_singleton] at hi
        left; rw [hi]; rfl
  · unfold lazyAsk at hi
    by_cases h : (cfg.lazyWrap || direct) = true
    · rw [if_pos h] at hi
      cases he : env t v with
      | ok r => rw [he] at hi; simp [Res.issues] at hi
      | err a b =>
        rw [he] at hi
        dsimp only at hi
        split at hi
        · simp [Res.issues] at hi
        · right; simpa [errs, he, Res.issues] using hi
    · rw [if_neg h] at hi
      dsimp only at hi
      have hp : ([lazyPlaceholder].any (fun x => x.code == .invalidType && x.expLazy)) = true := by decide
      rw [if_pos hp] at hi
      simp [Res.issues] at hi

/-- **C05, per container**: every issue a composite reports comes from the container itself (at
    its root or at one of its own keys) or is a member's issue with the member's location in front.
    Record needs the C05-record-key-path patch; Set is stated for map-shaped inputs. -/
theorem c05_paths_from_members (cfg : Cfg) (env : Env) (n : Node) (v : V)
    (hrec : match n with | .record .. => cfg.recordKeyPath = true | _ => True)
    (hset : match n with | .set .. => ∀ e ys, v ≠ .slice e ys | _ => True) :
    ∀ i ∈ (run cfg env n v).issues, From env v i := by
  cases n with
  | slice m t e cs =>
    apply engine_from; intro xs hx i hi
    simp only [validateSlice, ofIssues_issues, List.mem_append] at hi
    rcases hi with hi | hi
    · exact .root (sizeIssues_path hi)
    · exact sliceElems_from cfg env e v 0 xs (by intro j x hj; simpa using seqOf_slice hx j x hj) i hi
  | array m items rest cs =>
    apply engine_from; intro xs hx i hi
    unfold validateArray at hi
    split at hi
    · next a b hs => exact .root (sizeIssues_path (hs ▸ hi))
    · repeat' split at hi
      all_goals first
        | (simp only [Res.issues, List.mem_singleton] at hi; subst hi; exact .root rfl)
        | (rw [ofIssues_issues] at hi; exact arrayElems_from env v 0 items rest xs i hi)
  | tuple m items req rest cs =>
    apply engine_from; intro xs hx i hi
    unfold validateTuple at hi
    repeat' split at hi
    all_goals first
      | (simp only [Res.issues, List.mem_singleton] at hi; subst hi; exact .root rfl)
      | (rw [ofIssues_issues] at hi; exact .root (sizeIssues_path hi))
      | skip
    next a b ht =>
      exact tupleElems_from env v 0 items rest xs (by intro j x hj; simpa using seqOf_tuple hx j x hj) i (ht ▸ hi)
  | map m km vm cs =>
    apply engine_from; intro es hx i hi
    unfold validateMap at hi
    split at hi
    · next a b hs => exact .root (sizeIssues_path (hs ▸ hi))
    · rw [ofIssues_issues] at hi; exact mapEntries_from env v km vm es (entriesOf_map hx) i hi
  | record m ks vm loose part cs =>
    apply engine_from; intro es hx i hi
    have hE := entriesOf_record hx
    cases ks with
    | none =>
      simp only [validateRecord] at hi
      split at hi
      · next a b hs => exact .root (sizeIssues_path (hs ▸ hi))
      · split at hi
        · next is hr => exact recordValues_from cfg env v .none vm loose es hE hrec is hr i hi
        · simp [ofIssues, Res.issues] at hi
    | enum al km =>
      simp only [validateRecord] at hi
      split at hi
      · next a b hs => exact .root (sizeIssues_path (hs ▸ hi))
      · split at hi
        · next is hr => exact recordValues_from cfg env v (.enum al km) vm loose es hE hrec is hr i hi
        · rw [ofIssues_issues] at hi; exact recordEnumKeys_from env v al part es i hi
    | schema km =>
      simp only [validateRecord] at hi
      split at hi
      · next a b hs => exact .root (sizeIssues_path (hs ▸ hi))
      · split at hi
        · next is hr => exact recordValues_from cfg env v (.schema km) vm loose es hE hrec is hr i hi
        · rw [ofIssues_issues] at hi; exact recordSchemaKeys_from cfg env v km loose es hE i hi
  | set m t e cs =>
    apply engine_from; intro xs hx i hi
    unfold validateSet at hi
    split at hi
    · next a b hs => exact .root (sizeIssues_path (hs ▸ hi))
    · rw [ofIssues_issues] at hi; exact setElems_from env v e xs (keysOf_set hx hset) i hi
  | object m shape mode c p cs =>
    apply engine_from; intro es hx i hi
    have hO := objOf_object hx
    unfold validateObject at hi
    have hF := objectFields_from env v p es shape hO
    have hU := objectUnknown_from env v shape mode c es hO.1
    revert hi hF hU
    generalize objectFields env p es shape = rf
    generalize objectUnknown env shape mode c es = ru
    obtain ⟨fi, fn⟩ := rf
    obtain ⟨ui, un, unN⟩ := ru
    intro hi hF hU
    simp only [ofIssues_issues, List.mem_append] at hi
    rcases hi with ((hi | hi) | hi) | hi
    · exact hF i hi
    · exact hU i hi
    · split at hi
      · cases hi
      · simp only [List.mem_singleton] at hi; subst hi; exact .root rfl
    · exact .root (sizeIssues_path hi)
  | struct m ptrC sid shape =>
    apply engine_from; intro fs hx i hi
    simp only [validateStruct, ofIssues_issues] at hi
    exact structFields_from env v fs shape (fieldsOf_struct hx) i hi
  | union m opts =>
    simp only [run]
    apply engine_from; intro a _ i hi
    unfold validateUnion at hi
    repeat' split at hi
    all_goals first
      | (simp [Res.issues] at hi; done)
      | (simp only [Res.issues, List.mem_singleton] at hi; subst hi; exact .root rfl)
  | xor m opts =>
    simp only [run]
    apply engine_from; intro a _ i hi
    unfold validateXor at hi
    repeat' split at hi
    all_goals first
      | (simp [Res.issues] at hi; done)
      | (simp only [Res.issues, List.mem_singleton] at hi; subst hi; exact .root rfl)
  | inter m l r =>
    simp only [run]
    apply engine_from; intro a ha i hi
    cases ha
    unfold validateInter at hi
    split at hi
    · next x y hm =>
      have hi' : i ∈ mergeUnrec cfg (mresIssues (env l v)) (mresIssues (env r v)) := hm ▸ hi
      rw [mresIssues_eq, mresIssues_eq] at hi'
      unfold mergeUnrec at hi'
      simp only [List.mem_append, List.mem_filter] at hi'
      rcases hi' with (⟨h1, _⟩ | ⟨h1, _⟩) | h1
      · exact .same l i h1 rfl
      · exact .same r i h1 rfl
      · split at h1
        · cases h1
        · simp only [List.mem_singleton] at h1; subst h1; exact .root rfl
    · split at hi
      · simp [Res.issues] at hi
      · simp only [Res.issues, List.mem_singleton] at hi; subst hi; exact .root rfl
  | du m disc dmap opts =>
    intro i hi
    rcases du_issues env m disc dmap opts v i hi with h | ⟨t, h⟩
    · exact .root h
    · exact .same t i h rfl
  | lazy m direct t =>
    intro i hi
    rcases lazy_issues cfg env m direct t v i hi with h | h
    · exact .root h
    · exact .same t i h rfl

/-! ### resolution -/

/-- (WEAK — superseded by `c05_resolves_level` / `c05_resolves_nested` in Proofs/C05Nest.lean: `RoP` accepts every path whose
    parent resolves, whatever the issue; `hm` / `hk` quantify over every member id; audit M1, M2.)
    **C05, resolution** (one nesting level): if every member's issue path addresses a location in
    the value the member was asked about, and key/element schemas report at the key itself, then
    every path the composite reports reaches a value of the input or the parent of a missing key. -/
theorem c05_path_resolves (cfg : Cfg) (env : Env) (n : Node) (v : V)
    (hrec : match n with | .record .. => cfg.recordKeyPath = true | _ => True)
    (hset : match n with | .set .. => ∀ e ys, v ≠ .slice e ys | _ => True)
    (hm : ∀ m x c, c ∈ errs env m x → RoP x c.path)
    (hk : ∀ m k x c, Child v k.seg x → c ∈ errs env m k → c.path = []) :
    ∀ i ∈ (run cfg env n v).issues, RoP v i.path := by
  intro i hi
  cases c05_paths_from_members cfg env n v hrec hset i hi with
  | root h => rw [h]; exact rop_nil v
  | own s h => rw [h]; exact rop_single v s
  | child s x m c hc hmem h => rw [h]; exact rop_cons hc (hm m x c hmem)
  | same m c hmem h => rw [h]; exact hm m v c hmem
  | keyed k x m c hc hmem h => rw [h, hk m k x c hc hmem]; exact rop_single v _

/-! ### single fault -/

/-- (WEAK — superseded by `c05_single_fault_nested` in Proofs/C05Nest.lean: the hypotheses below quantify over EVERY member
    id `m`, not the member asked at the position, so no heterogeneous container meets them; audit H3.)
    **C05, single fault**: if the only members that reject are those asked about parts of `v` at
    segment `s₀` (every other asked member accepts, no container-level issue), every reported path
    starts with `s₀` — it is the planted location, or lies inside it — or is the root. Stated on
    `From`: a member issue filed under another segment cannot exist when that member accepted. -/
theorem c05_single_fault (cfg : Cfg) (env : Env) (n : Node) (v : V) (s₀ : Seg)
    (hrec : match n with | .record .. => cfg.recordKeyPath = true | _ => True)
    (hset : match n with | .set .. => ∀ e ys, v ≠ .slice e ys | _ => True)
    (hother : ∀ s x m, Child v s x → s ≠ s₀ → errs env m x = [])
    (hkeys : ∀ (k x : V) m, Child v k.seg x → k.seg ≠ s₀ → errs env m k = [])
    (hself : ∀ m, errs env m v = []) :
    ∀ i ∈ (run cfg env n v).issues, i.path = [] ∨ (∃ s, i.path = [s]) ∨ ∃ p, i.path = s₀ :: p := by
  intro i hi
  cases c05_paths_from_members cfg env n v hrec hset i hi with
  | root h => exact Or.inl h
  | own s h => exact Or.inr (Or.inl ⟨s, h⟩)
  | child s x m c hc hmem h =>
    by_cases hs : s = s₀
    · subst hs; exact Or.inr (Or.inr ⟨c.path, h⟩)
    · rw [hother s x m hc hs] at hmem; cases hmem
  | same m c hmem h => rw [hself m] at hmem; cases hmem
  | keyed k x m c hc hmem h =>
    by_cases hs : k.seg = s₀
    · rw [hs] at h; exact Or.inr (Or.inr ⟨c.path, h⟩)
    · rw [hkeys k x m hc hs] at hmem; cases hmem

/-! ### completeness of the paths (after the patches) and today's witnesses -/

/-- **C05, completeness**: with the two path patches every member issue keeps its own path behind
    the member's location (slice: `[i] ++ child path`; record: `[key] ++ child path`). -/
theorem c05_complete_patched (env : Env) (m : Mods) (t : Ty) (e : Mid) (cs : List SizeCk) (v : V)
    (cfg : Cfg) (hp : cfg.slicePrepend = true) (xs : List V) (hx : extractSlice t v = some xs)
    (hv : v.isNilLike = false) (j : Nat) (x : V) (hj : getIdx xs j = some x) (c : Issue)
    (hc : c ∈ errs env e x) :
    ∃ i ∈ (run cfg env (.slice m t e cs) v).issues, i.path = .idx j :: c.path := by
  have key : ∀ (k : Nat) (ys : List V) (j : Nat), getIdx ys j = some x →
      ∃ i ∈ sliceElems cfg env e k ys, i.path = .idx (k + j) :: c.path := by
    intro k ys
    induction ys generalizing k with
    | nil => intro j h; simp [getIdx] at h
    | cons y ys ih =>
      intro j h
      cases j with
      | zero =>
        simp only [getIdx, Option.some.injEq] at h; subst h
        refine ⟨prepend (.idx k) c, ?_, rfl⟩
        simp only [sliceElems, hp, ↓reduceIte, List.mem_append, List.mem_map]
        exact Or.inl ⟨c, hc, rfl⟩
      | succ j =>
        simp only [getIdx] at h
        obtain ⟨i, hi, hpth⟩ := ih (k + 1) j h
        refine ⟨i, ?_, by rw [hpth]; congr 2; omega⟩
        simp only [sliceElems, List.mem_append]
        exact Or.inr hi
  obtain ⟨i, hi, hpth⟩ := key 0 xs j hj
  refine ⟨i, ?_, by simpa using hpth⟩
  simp only [run, engine, hv, Bool.false_eq_true, ↓reduceIte, hx, validateSlice, ofIssues_issues,
    List.mem_append]
  exact Or.inr hi

/-- today (`slicePrepend = false`): `Slice(Object{a: String()})` reports `[0]`, not `[0, "a"]`. -/
theorem c05_slice_drops_child_path :
    (run { slicePrepend := false } (fun _ _ => .err (mk .invalidType [.key 7]) []) (.slice {} .any 0 [])
      (.slice .any (some [.map .str .any (some [(.atom .str 7, .atom .int 1)])]))).issues.map (·.path)
      = [[.idx 0]] := by decide

/-- today (`recordKeyPath = false`): a record value issue carries no key — `["a"]`, not `["k", "a"]`. -/
theorem c05_record_drops_key :
    (run { recordKeyPath := false } (fun m _ => if m = 0 then .ok .nil else .err (mk .invalidType [.key 7]) [])
      (.record {} (.schema 0) 1 false false [])
      (.map .str .any (some [(.atom .str 9, .map .str .any (some [(.atom .str 7, .atom .int 1)]))]))).issues.map (·.path)
      = [[.key 7]] := by decide

/-- array wraps a failing element in ONE `invalid_element` issue at `[i]`; the inner path is dropped. -/
theorem c05_array_drops_child_path (cfg : Cfg) :
    (run cfg (fun _ _ => .err (mk .invalidType [.key 7]) [mk .tooSmall [.key 8]]) (.array {} [0] none [])
      (.slice .any (some [.map .str .any (some [(.atom .str 7, .atom .int 1)])]))).issues.map (·.path)
      = [[.idx 0]] := by
  simp [run, engine, V.isNilLike, extractArray, validateArray, sizeIssues, arrayElems, acc, ofIssues, Res.issues, mk]

/-! ### several faults; every issue of a member, not only the first -/

/-- (WEAK, as `c05_single_fault`: hypotheses over every member id.)
    **C05, k faults**: if the only members that reject are those asked about the parts of `v` at the
    segments in `S` (every other asked member accepts), every reported path is the root, a single own
    key, or starts with one of the faulty segments — whatever the number of issues each faulty member
    reports. `c05_single_fault` is the case `S = [s₀]`. -/
theorem c05_multi_fault (cfg : Cfg) (env : Env) (n : Node) (v : V) (S : List Seg)
    (hrec : match n with | .record .. => cfg.recordKeyPath = true | _ => True)
    (hset : match n with | .set .. => ∀ e ys, v ≠ .slice e ys | _ => True)
    (hother : ∀ s x m, Child v s x → s ∉ S → errs env m x = [])
    (hkeys : ∀ (k x : V) m, Child v k.seg x → k.seg ∉ S → errs env m k = [])
    (hself : ∀ m, errs env m v = []) :
    ∀ i ∈ (run cfg env n v).issues, i.path = [] ∨ (∃ s, i.path = [s]) ∨ ∃ s ∈ S, ∃ p, i.path = s :: p := by
  intro i hi
  cases c05_paths_from_members cfg env n v hrec hset i hi with
  | root h => exact Or.inl h
  | own s h => exact Or.inr (Or.inl ⟨s, h⟩)
  | child s x m c hc hmem h =>
    by_cases hs : s ∈ S
    · exact Or.inr (Or.inr ⟨s, hs, c.path, h⟩)
    · rw [hother s x m hc hs] at hmem; cases hmem
  | same m c hmem h => rw [hself m] at hmem; cases hmem
  | keyed k x m c hc hmem h =>
    by_cases hs : k.seg ∈ S
    · exact Or.inr (Or.inr ⟨k.seg, hs, c.path, h⟩)
    · rw [hkeys k x m hc hs] at hmem; cases hmem

/-- the schema a tuple asks about position `j`: the `j`-th item, else the rest schema. -/
def memAt : List Mid → Option Mid → Nat → Option Mid
  | m :: _, _, 0 => some m
  | _ :: ms, r, j + 1 => memAt ms r j
  | [], r, _ => r

theorem prepend_paths (s : Seg) (cs : List Issue) :
    (cs.map (prepend s)).map (·.path) = cs.map (fun c => s :: c.path) := by
  simp [List.map_map, prepend, Function.comp_def]

/-- the issues of the element at `k + j`, ALL of them, in order, each behind its own index, are a
    sub-list of what the element loop collects. -/
theorem tupleElems_block (env : Env) (k : Nat) (ms : List Mid) (r : Option Mid) (xs : List V)
    (j : Nat) (x : V) (mem : Mid) (hj : getIdx xs j = some x) (hm : memAt ms r j = some mem) :
    ((errs env mem x).map (prepend (.idx (k + j)))).Sublist (tupleElems env k ms r xs) := by
  induction xs generalizing k ms j with
  | nil => simp [getIdx] at hj
  | cons y ys ih =>
    cases j with
    | zero =>
      simp only [getIdx, Option.some.injEq] at hj; subst hj
      cases ms with
      | cons m ms =>
        simp only [memAt, Option.some.injEq] at hm; subst hm
        simp only [tupleElems, Nat.add_zero]
        exact List.sublist_append_left _ _
      | nil =>
        simp only [memAt] at hm; subst hm
        simp only [tupleElems, Nat.add_zero]
        exact List.sublist_append_left _ _
    | succ j =>
      simp only [getIdx] at hj
      have e : k + (j + 1) = k + 1 + j := by omega
      rw [e]
      cases ms with
      | cons m ms =>
        simp only [memAt] at hm
        simp only [tupleElems]
        exact (ih (k + 1) ms j hj hm).trans (List.sublist_append_right _ _)
      | nil =>
        cases r with
        | none => simp [memAt] at hm
        | some r =>
          simp only [tupleElems]
          exact (ih (k + 1) [] j hj (by simpa [memAt] using hm)).trans (List.sublist_append_right _ _)

/-- **C05, tuple, every issue of an element**: when the tuple has an admissible length, ALL issues the
    schema of position `j` reports for element `j` — however many — appear among the tuple's issues, in
    order, each with path `[j] ++ its own path` (no issue of the element is lost, none gets a sibling's
    path). -/
theorem c05_tuple_all_issues (cfg : Cfg) (env : Env) (m : Mods) (items : List Mid) (req : Nat)
    (rest : Option Mid) (cs : List SizeCk) (v : V) (xs : List V)
    (hv : v.isNilLike = false) (hx : extractTuple v = some xs)
    (hreq : req ≤ xs.length) (hmax : rest.isSome = true ∨ xs.length ≤ items.length)
    (j : Nat) (x : V) (mem : Mid) (hj : getIdx xs j = some x) (hm : memAt items rest j = some mem) :
    ((errs env mem x).map (fun c => Seg.idx j :: c.path)).Sublist
      ((run cfg env (.tuple m items req rest cs) v).issues.map (·.path)) := by
  have hb := tupleElems_block env 0 items rest xs j x mem hj hm
  rw [Nat.zero_add] at hb
  have h1 : ¬ xs.length < req := by omega
  have h2 : ¬ ((rest.isNone && decide (xs.length > items.length)) = true) := by
    rcases hmax with h | h
    · cases rest <;> simp_all
    · simp; intro _; omega
  simp only [run, engine, hv, Bool.false_eq_true, ↓reduceIte, hx, validateTuple, h1, h2]
  rw [← prepend_paths]
  cases ht : tupleElems env 0 items rest xs with
  | nil =>
    rw [ht] at hb
    rw [List.sublist_nil.1 hb]
    exact List.nil_sublist _
  | cons a t =>
    rw [ht] at hb
    simpa [Res.issues] using hb.map (·.path)

/-- **C05, struct, every issue of a field**: ALL issues the schema of a field the struct has reports
    appear among the struct's issues, in order, each with path `[field] ++ its own path`. -/
theorem structFields_block (env : Env) (fs : List (Nat × V)) (shape : List Field) (f : Field) (x : V)
    (hf : f ∈ shape) (hl : lookupField f.name fs = some x) :
    ((errs env f.m x).map (prepend (.key f.name))).Sublist (structFields env fs shape) := by
  induction shape with
  | nil => cases hf
  | cons g rest ih =>
    simp only [structFields]
    rcases List.mem_cons.1 hf with rfl | h
    · rw [hl]; exact List.sublist_append_left _ _
    · exact (ih h).trans (List.sublist_append_right _ _)

theorem c05_struct_all_issues (cfg : Cfg) (env : Env) (m : Mods) (ptrC : Bool) (sid : Nat)
    (shape : List Field) (v : V) (fs : List (Nat × V)) (hv : v.isNilLike = false)
    (hx : extractStruct sid v = some fs) (f : Field) (x : V) (hf : f ∈ shape)
    (hl : lookupField f.name fs = some x) :
    ((errs env f.m x).map (fun c => Seg.key f.name :: c.path)).Sublist
      ((run cfg env (.struct m ptrC sid shape) v).issues.map (·.path)) := by
  have hb := structFields_block env fs shape f x hf hl
  simp only [run, engine, hv, Bool.false_eq_true, ↓reduceIte, hx, validateStruct, ofIssues_issues]
  rw [← prepend_paths]
  exact hb.map (·.path)

/-- object: the issues of a present field (not an explicit nil of an exact-optional field), ALL of
    them, each behind the field name, are a sub-list of what the shape loop collects. -/
theorem objectFields_block (env : Env) (p : Partial) (es : List (V × V)) (shape : List Field) (f : Field)
    (x : V) (hf : f ∈ shape) (hl : lookupKey f.name es = some x)
    (hnil : (x.isNil && f.exactOptional) = false) :
    ((errs env f.m x).map (prepend (.key f.name))).Sublist (objectFields env p es shape).1 := by
  induction shape with
  | nil => cases hf
  | cons g rest ih =>
    simp only [objectFields]
    rcases List.mem_cons.1 hf with rfl | h
    · rw [hl]
      simp only [hnil, Bool.false_eq_true, ↓reduceIte]
      unfold errs
      cases env f.m x with
      | ok r => exact List.nil_sublist _
      | err a t => exact List.sublist_append_left _ _
    · have := ih h
      generalize objectFields env p es rest = rec at this ⊢
      obtain ⟨is, n⟩ := rec
      cases hk : lookupKey g.name es with
      | none => exact this.trans (List.sublist_append_right _ _)
      | some y =>
        dsimp only
        split
        · exact this.trans (List.sublist_cons_self _ _)
        · cases env g.m y with
          | ok r => exact this
          | err a t => exact this.trans (List.sublist_append_right _ _)

/-- **C05, object, every issue of a field**. -/
theorem c05_object_all_issues (cfg : Cfg) (env : Env) (m : Mods) (shape : List Field) (mode : Mode)
    (catchall : Option Mid) (p : Partial) (cs : List SizeCk) (v : V) (es : List (V × V))
    (hv : v.isNilLike = false) (hx : extractObject v = some es) (f : Field) (x : V) (hf : f ∈ shape)
    (hl : lookupKey f.name es = some x) (hnil : (x.isNil && f.exactOptional) = false) :
    ((errs env f.m x).map (fun c => Seg.key f.name :: c.path)).Sublist
      ((run cfg env (.object m shape mode catchall p cs) v).issues.map (·.path)) := by
  have hb := objectFields_block env p es shape f x hf hl hnil
  simp only [run, engine, hv, Bool.false_eq_true, ↓reduceIte, hx, validateObject]
  revert hb
  generalize objectFields env p es shape = rf
  generalize objectUnknown env shape mode catchall es = ru
  obtain ⟨fi, fn⟩ := rf
  obtain ⟨ui, un, unN⟩ := ru
  intro hb
  simp only [ofIssues_issues]
  rw [← prepend_paths]
  refine (hb.map (·.path)).trans ?_
  simp only [List.map_append, List.append_assoc]
  exact List.sublist_append_left _ _

/-- two issues of ONE tuple element under an object field keep two DIFFERENT, correct paths:
    `Object{pair: Tuple([Object{code, x}])}` with both inner fields bad reports `[pair 0 code]` and `[pair 0 x]`
    (the composition of `c05_tuple_all_issues` and `c05_object_all_issues` on a concrete nesting via `parseF`). -/
theorem c05_nested_two_issues :
    let defs : Mid → Def := fun id =>
      if id = 0 then .node (.object {} [{ name := 1, m := 1 }] .strip none {} [])
      else if id = 1 then .node (.tuple {} [2] 1 none [])
      else if id = 2 then .node (.object {} [{ name := 5, m := 3 }, { name := 6, m := 4 }] .strip none {} [])
      else .leaf
    let env : Env := fun _ _ => .err (mk .tooSmall []) []
    let inner := V.map .str .any (some [(.atom .str 5, .atom .str 50), (.atom .str 6, .atom .str 60)])
    let input := V.map .str .any (some [(.atom .str 1, .slice .any (some [inner]))])
    (mresIssues (parseF {} defs env (fun _ v => v) 3 0 input)).map (·.path)
      = [[.key 1, .idx 0, .key 5], [.key 1, .idx 0, .key 6]] := by
  decide

end Gozod.C05
