package main

// Type-driven part of the second translator (round 4c, audit B LOW): EVERY expression that flows into a `Path`
// field of type []any, whatever the variables on the way are called and however the slice is built.
//
// A *carrier* is a variable (local, package-level, parameter, struct field) or a function result that holds a path.
// The carriers are the least set that contains every struct field named `Path` of type []any and, with a carrier,
// every carrier an expression written to it reads.  For every carrier, every write is enumerated (go/types; the
// five packages of pathtypes.go, tests excluded):
//
//	assignment / definition / `var` spec          x = e, x := e, var x = e, a, b := f()
//	composite-literal field                       T{Path: e}
//	argument for a parameter                      f(e)   (f declared in the five packages)
//	return statement of a function result         return e
//	element write / bulk write                    x[i] = v, copy(x, e)
//	range variable                                for _, x := range e
//
// and the written expression is classified by SHAPE:
//
//	nil | literal ([]any{…}: the elements are recorded) | append (append(p, …): p classified, the elements recorded)
//	| make | reslice (p[i:j]) | convert ([]any(p)) | clone (slices.Clone(p)) | concat (slices.Concat(p, q): the
//	elements of each are carried over) | copy | forward (another carrier)
//	| call (result of a function of the five packages: a carrier) | unrecognised
//
// `pathSinks` lists every (file:function, shape, expression); Proofs/C19PathTypes.lean decides over the whole table
// that no row is `unrecognised` (c19_path_sinks_recognised): a path built in a way this translator does not
// understand breaks that proof, i.e. the tie, instead of being silently absent from `pathElementSites`.
// The elements found here (literal / append / index contexts) are merged into `pathElementSites`.

import (
	"fmt"
	"go/ast"
	"go/token"
	"go/types"
	"path/filepath"
	"sort"
	"strings"
)

type sinkRow struct{ where, shape, expr string }

type pkgUnit struct {
	path  string
	files []*ast.File
	info  *types.Info
}

type write struct {
	u    *pkgUnit
	fn   string
	pos  token.Pos
	expr ast.Expr // the written expression (nil for kinds that carry none)
	kind string   // "assign" | "elem" | "copy" | "range" | "result-of"
	res  string   // for "result-of": the carrier key of the function result that is assigned
}

type sinkAnalysis struct {
	fset     *token.FileSet
	repo     string
	ours     map[string]bool // import paths of the five packages
	writes   map[string][]write
	paramKey map[*types.Var]string
	carriers map[string]bool
	queue    []string
	rows     []sinkRow
	elems    []site
	hasBody  map[string]bool // function keys with a declaration in the five packages
}

func (a *sinkAnalysis) where(pos token.Pos, fn string) string {
	ps := a.fset.Position(pos)
	r, _ := filepath.Rel(a.repo, ps.Filename)
	return filepath.ToSlash(r) + ":" + fn
}

// funcKey identifies a function or method across packages (a package is type-checked from source, its importers
// see it through export data: object identity does not carry over).  Methods are keyed by NAME only, so that a call
// through an interface reaches every implementation (conservative: same-named methods share their carriers).
func funcKey(f *types.Func) string {
	sig, _ := f.Type().(*types.Signature)
	if sig != nil && sig.Recv() != nil {
		return "method:" + f.Name()
	}
	if f.Pkg() == nil {
		return "func:" + f.Name()
	}
	return "func:" + f.Pkg().Path() + "." + f.Name()
}

func (a *sinkAnalysis) varKey(u *pkgUnit, v *types.Var) string {
	if k, ok := a.paramKey[v]; ok {
		return k
	}
	if v.IsField() {
		p := ""
		if v.Pkg() != nil {
			p = v.Pkg().Path()
		}
		return "field:" + p + "." + v.Name() // same-named []any fields of one package share their carriers (conservative)
	}
	if v.Pkg() != nil && v.Parent() == v.Pkg().Scope() {
		return "global:" + v.Pkg().Path() + "." + v.Name()
	}
	return "local:" + a.fset.Position(v.Pos()).String() + ":" + v.Name()
}

// objKey resolves x (an identifier or a selector) to the carrier key of the variable it names.
func (a *sinkAnalysis) objKey(u *pkgUnit, x ast.Expr) string {
	var id *ast.Ident
	switch v := ast.Unparen(x).(type) {
	case *ast.Ident:
		id = v
	case *ast.SelectorExpr:
		id = v.Sel
	default:
		return ""
	}
	obj := u.info.Uses[id]
	if obj == nil {
		obj = u.info.Defs[id]
	}
	if v, ok := obj.(*types.Var); ok {
		return a.varKey(u, v)
	}
	return ""
}

func (a *sinkAnalysis) callee(u *pkgUnit, c *ast.CallExpr) types.Object {
	switch f := ast.Unparen(c.Fun).(type) {
	case *ast.Ident:
		return u.info.Uses[f]
	case *ast.SelectorExpr:
		return u.info.Uses[f.Sel]
	case *ast.IndexExpr: // explicit instantiation f[T](…)
		switch g := ast.Unparen(f.X).(type) {
		case *ast.Ident:
			return u.info.Uses[g]
		case *ast.SelectorExpr:
			return u.info.Uses[g.Sel]
		}
	}
	return nil
}

func (a *sinkAnalysis) inOurs(f *types.Func) bool { return f.Pkg() != nil && a.ours[f.Pkg().Path()] }

func (a *sinkAnalysis) addWrite(key string, w write) {
	if key != "" {
		a.writes[key] = append(a.writes[key], w)
	}
}

// index collects every write of one package, keyed by the carrier key of its target.
func (a *sinkAnalysis) index(u *pkgUnit) {
	for _, f := range u.files {
		for _, d := range f.Decls {
			fd, ok := d.(*ast.FuncDecl)
			if !ok {
				a.indexNode(u, "", "", nil, d)
				continue
			}
			fobj, _ := u.info.Defs[fd.Name].(*types.Func)
			fk := ""
			var sig *types.Signature
			if fobj != nil {
				fk = funcKey(fobj)
				a.hasBody[fk] = true
				sig, _ = fobj.Type().(*types.Signature)
				if sig != nil {
					for i := 0; i < sig.Params().Len(); i++ {
						a.paramKey[sig.Params().At(i)] = fmt.Sprintf("%s#%d", fk, i)
					}
					// named results are assigned like locals and returned by a bare `return`
					for i := 0; i < sig.Results().Len(); i++ {
						if r := sig.Results().At(i); r.Name() != "" && r.Name() != "_" {
							a.paramKey[r] = fmt.Sprintf("%s>%d", fk, i)
						}
					}
				}
			}
			if fd.Body != nil {
				a.indexNode(u, fd.Name.Name, fk, sig, fd.Body)
			}
		}
	}
}

func (a *sinkAnalysis) indexNode(u *pkgUnit, fn, fk string, sig *types.Signature, root ast.Node) {
	var walk func(n ast.Node, fn, fk string, sig *types.Signature)
	walk = func(n ast.Node, fn, fk string, sig *types.Signature) {
		ast.Inspect(n, func(n ast.Node) bool {
			switch v := n.(type) {
			case *ast.FuncLit:
				// a closure: its parameters and results are its own; a path returned from a closure is not followed
				lsig, _ := u.info.TypeOf(v).(*types.Signature)
				lk := fmt.Sprintf("closure:%s", a.fset.Position(v.Pos()))
				if lsig != nil {
					for i := 0; i < lsig.Params().Len(); i++ {
						a.paramKey[lsig.Params().At(i)] = fmt.Sprintf("%s#%d", lk, i)
					}
				}
				walk(v.Body, fn, lk, lsig)
				return false
			case *ast.AssignStmt:
				if len(v.Lhs) == len(v.Rhs) {
					for i, lhs := range v.Lhs {
						if ix, ok := ast.Unparen(lhs).(*ast.IndexExpr); ok {
							if isAnySlice(u.info.TypeOf(ix.X)) {
								a.addWrite(a.objKey(u, ix.X), write{u: u, fn: fn, pos: v.Rhs[i].Pos(), expr: v.Rhs[i], kind: "elem"})
							}
							continue
						}
						if isAnySlice(u.info.TypeOf(lhs)) {
							a.addWrite(a.objKey(u, lhs), write{u: u, fn: fn, pos: v.Rhs[i].Pos(), expr: v.Rhs[i], kind: "assign"})
						}
					}
				} else if len(v.Rhs) == 1 {
					if c, ok := ast.Unparen(v.Rhs[0]).(*ast.CallExpr); ok {
						for i, lhs := range v.Lhs {
							if !isAnySlice(u.info.TypeOf(lhs)) {
								continue
							}
							w := write{u: u, fn: fn, pos: c.Pos(), expr: c, kind: "result-of"}
							if f, ok := a.callee(u, c).(*types.Func); ok && a.inOurs(f) {
								w.res = fmt.Sprintf("%s>%d", funcKey(f), i)
							}
							a.addWrite(a.objKey(u, lhs), w)
						}
					}
				}
			case *ast.ValueSpec:
				for i, nm := range v.Names {
					if i < len(v.Values) && len(v.Names) == len(v.Values) && isAnySlice(u.info.TypeOf(nm)) {
						a.addWrite(a.objKey(u, nm), write{u: u, fn: fn, pos: v.Values[i].Pos(), expr: v.Values[i], kind: "assign"})
					}
				}
			case *ast.CompositeLit:
				if _, ok := u.info.TypeOf(v).Underlying().(*types.Struct); ok {
					for _, el := range v.Elts {
						kv, ok := el.(*ast.KeyValueExpr)
						if !ok {
							continue
						}
						if k, ok := kv.Key.(*ast.Ident); ok {
							if fv, ok := u.info.Uses[k].(*types.Var); ok && fv.IsField() && isAnySlice(fv.Type()) {
								a.addWrite(a.varKey(u, fv), write{u: u, fn: fn, pos: kv.Value.Pos(), expr: kv.Value, kind: "assign"})
							}
						}
					}
				}
			case *ast.CallExpr:
				switch f := a.callee(u, v).(type) {
				case *types.Builtin:
					if f.Name() == "copy" && len(v.Args) == 2 && isAnySlice(u.info.TypeOf(v.Args[0])) {
						dst := v.Args[0]
						if se, ok := ast.Unparen(dst).(*ast.SliceExpr); ok {
							dst = se.X
						}
						a.addWrite(a.objKey(u, dst), write{u: u, fn: fn, pos: v.Args[1].Pos(), expr: v.Args[1], kind: "copy"})
					}
				case *types.Func:
					if fsig, ok := f.Type().(*types.Signature); ok && a.inOurs(f) {
						for i, arg := range v.Args {
							if i < fsig.Params().Len() && !(fsig.Variadic() && i >= fsig.Params().Len()-1) && isAnySlice(fsig.Params().At(i).Type()) {
								a.addWrite(fmt.Sprintf("%s#%d", funcKey(f), i), write{u: u, fn: fn, pos: arg.Pos(), expr: arg, kind: "assign"})
							}
						}
					}
				}
			case *ast.ReturnStmt:
				if sig != nil && len(v.Results) == sig.Results().Len() {
					for i, r := range v.Results {
						if isAnySlice(sig.Results().At(i).Type()) {
							a.addWrite(fmt.Sprintf("%s>%d", fk, i), write{u: u, fn: fn, pos: r.Pos(), expr: r, kind: "assign"})
						}
					}
				}
			case *ast.RangeStmt:
				for _, x := range []ast.Expr{v.Key, v.Value} {
					if x != nil && isAnySlice(u.info.TypeOf(x)) {
						a.addWrite(a.objKey(u, x), write{u: u, fn: fn, pos: v.X.Pos(), expr: v.X, kind: "range"})
					}
				}
			}
			return true
		})
	}
	walk(root, fn, fk, sig)
}

func (a *sinkAnalysis) carrier(key string) {
	if key != "" && !a.carriers[key] {
		a.carriers[key] = true
		a.queue = append(a.queue, key)
	}
}

func (a *sinkAnalysis) elem(w write, ctx string, el ast.Expr, spread bool) {
	t := w.u.info.TypeOf(el)
	if spread {
		if s, ok := t.Underlying().(*types.Slice); ok {
			t = s.Elem()
		}
		ctx += "-spread"
	}
	a.elems = append(a.elems, site{a.where(el.Pos(), w.fn), ctx, show(a.fset, el), typeClass(t)})
}

// classify names the shape of an expression written to a carrier, records the elements it adds and the carriers it reads.
func (a *sinkAnalysis) classify(w write, e ast.Expr) string {
	u := w.u
	e = ast.Unparen(e)
	if tv, ok := u.info.Types[e]; ok && tv.IsNil() {
		return "nil"
	}
	switch v := e.(type) {
	case *ast.CompositeLit:
		if isAnySlice(u.info.TypeOf(v)) {
			for _, el := range v.Elts {
				if kv, ok := el.(*ast.KeyValueExpr); ok {
					el = kv.Value
				}
				a.elem(w, "literal", el, false)
			}
			return "literal"
		}
	case *ast.SliceExpr:
		if s := a.classify(w, v.X); s == "unrecognised" {
			return s
		}
		return "reslice"
	case *ast.Ident, *ast.SelectorExpr:
		if k := a.objKey(u, e); k != "" {
			a.carrier(k)
			return "forward"
		}
	case *ast.CallExpr:
		if tv, ok := u.info.Types[v.Fun]; ok && tv.IsType() && len(v.Args) == 1 {
			if s := a.classify(w, v.Args[0]); s == "unrecognised" {
				return s
			}
			return "convert"
		}
		switch f := a.callee(u, v).(type) {
		case *types.Builtin:
			switch f.Name() {
			case "make":
				return "make"
			case "append":
				if len(v.Args) == 0 || a.classify(w, v.Args[0]) == "unrecognised" {
					return "unrecognised"
				}
				for i, arg := range v.Args[1:] {
					spread := v.Ellipsis.IsValid() && i == len(v.Args)-2
					if spread && a.classify(w, arg) == "unrecognised" {
						return "unrecognised"
					}
					a.elem(w, "append", arg, spread)
				}
				return "append"
			}
		case *types.Func:
			if f.Pkg() != nil && f.Pkg().Path() == "slices" && (f.Name() == "Clone" || f.Name() == "Clip" || f.Name() == "Grow") && len(v.Args) >= 1 {
				if s := a.classify(w, v.Args[0]); s == "unrecognised" {
					return s
				}
				return "clone"
			}
			if f.Pkg() != nil && f.Pkg().Path() == "slices" && f.Name() == "Concat" {
				// slices.Concat(p, q, …): every argument is a path whose elements are carried over
				for _, arg := range v.Args {
					if a.classify(w, arg) == "unrecognised" {
						return "unrecognised"
					}
					a.elem(w, "concat", arg, true)
				}
				return "concat"
			}
			if a.inOurs(f) {
				k := funcKey(f) + ">0"
				if !a.hasBody[funcKey(f)] {
					return "unrecognised" // declared in the five packages but without a body we have seen (interface-only method)
				}
				a.carrier(k)
				return "call"
			}
		}
	}
	return "unrecognised"
}

func (a *sinkAnalysis) run() {
	for len(a.queue) > 0 {
		k := a.queue[0]
		a.queue = a.queue[1:]
		for _, w := range a.writes[k] {
			shape := "unrecognised"
			switch w.kind {
			case "assign":
				shape = a.classify(w, w.expr)
			case "elem":
				a.elem(w, "index", w.expr, false)
				continue
			case "copy":
				if a.classify(w, w.expr) != "unrecognised" {
					shape = "copy"
				}
			case "result-of":
				if w.res != "" && a.hasBody[strings.SplitN(w.res, ">", 2)[0]] {
					a.carrier(w.res)
					shape = "call"
				}
			case "range":
				shape = "unrecognised" // a path taken out of a collection of paths: not followed
			}
			a.rows = append(a.rows, sinkRow{a.where(w.pos, w.fn), shape, show(a.fset, w.expr)})
		}
	}
}

// pathSinks runs the analysis over the type-checked packages; the seed carriers are the `Path` fields of type []any.
func pathSinks(fset *token.FileSet, repo string, units []*pkgUnit) ([]sinkRow, []site, error) {
	a := &sinkAnalysis{fset: fset, repo: repo, ours: map[string]bool{}, writes: map[string][]write{}, paramKey: map[*types.Var]string{},
		carriers: map[string]bool{}, hasBody: map[string]bool{}}
	for _, u := range units {
		a.ours[u.path] = true
	}
	for _, u := range units {
		a.index(u)
	}
	seeds := 0
	for _, u := range units {
		for id, obj := range u.info.Defs {
			if v, ok := obj.(*types.Var); ok && v.IsField() && id.Name == "Path" && isAnySlice(v.Type()) {
				a.carrier(a.varKey(u, v))
				seeds++
			}
		}
	}
	if seeds == 0 {
		return nil, nil, fmt.Errorf("no struct field `Path []any` found in the five packages")
	}
	a.run()
	sort.Slice(a.rows, func(i, j int) bool {
		x, y := a.rows[i], a.rows[j]
		if x.where != y.where {
			return x.where < y.where
		}
		if x.expr != y.expr {
			return x.expr < y.expr
		}
		return x.shape < y.shape
	})
	out := a.rows[:0]
	for i, r := range a.rows {
		if i == 0 || r != a.rows[i-1] {
			out = append(out, r)
		}
	}
	return out, a.elems, nil
}
