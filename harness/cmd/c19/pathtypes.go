package main

// Second translator of C19 (go/ast + go/types, source only):  -genpaths PATH  writes
// lean/Gozod/Gen/C19PathTypes.lean — the table of every place where the library puts an element into an issue path,
// with the STATIC Go type of the element:
//
//	(file:function, context, expression, static type)
//
// Sites (packages core, internal/checks, internal/engine, internal/issues, types of the working tree; tests excluded):
//   literal   an element of a composite literal of type []any that is assigned to a `.Path` field / variable named
//             like a path, is the value of a `Path:` key, or is passed for a parameter named like a path;
//   append    a non-first argument of append(p, …) where p is a []any named like a path (… spreads are recorded
//             with the slice's element type);
//   index     the right-hand side of `p[i] = x` where p is a []any named like a path.
//
// Proofs/C19PathTypes.lean decides over the WHOLE table that every static type is string, int, or an interface /
// type parameter (a value of any dynamic type — Map keys, Set elements), i.e. that Model/IssuesGo.lean's `El`
// (str | int | other) has a constructor for everything the library can emit, and that the `any` sites are there
// (so the `other` constructor is not vacuous).  Type information as in harness/opsgen/typeload.go:
// `go list -export -deps` + the gc importer, the packages themselves checked from source.

import (
	"bytes"
	"encoding/json"
	"flag"
	"fmt"
	"go/ast"
	"go/importer"
	"go/parser"
	"go/token"
	"go/types"
	"io"
	"os"
	"os/exec"
	"path/filepath"
	"sort"
	"strings"
)

var genPathsPath = flag.String("genpaths", "", "translator: write Gen/C19PathTypes.lean to this path and exit")

var pathPkgs = []string{"./core", "./internal/checks", "./internal/engine", "./internal/issues", "./types"}

type listed struct {
	Dir        string
	ImportPath string
	Export     string
	GoFiles    []string
	DepOnly    bool
	Error      *struct{ Err string }
}

func pathLike(name string) bool { return strings.Contains(strings.ToLower(name), "path") }

// exprName is the last identifier of x (a, a.b, a.b(), a[i]) — what the value is called at the site.
func exprName(x ast.Expr) string {
	switch v := x.(type) {
	case *ast.Ident:
		return v.Name
	case *ast.SelectorExpr:
		return v.Sel.Name
	case *ast.CallExpr:
		return exprName(v.Fun)
	case *ast.IndexExpr:
		return exprName(v.X)
	case *ast.StarExpr:
		return exprName(v.X)
	case *ast.ParenExpr:
		return exprName(v.X)
	}
	return ""
}

func isAnySlice(t types.Type) bool {
	if t == nil {
		return false
	}
	s, ok := t.Underlying().(*types.Slice)
	if !ok {
		return false
	}
	i, ok := s.Elem().Underlying().(*types.Interface)
	return ok && i.NumMethods() == 0
}

// typeClass names the static type as the Lean side reads it.
func typeClass(t types.Type) string {
	if t == nil {
		return "unknown"
	}
	if _, ok := t.(*types.TypeParam); ok {
		return "typeparam"
	}
	if b, ok := t.(*types.Basic); ok {
		switch b.Kind() {
		case types.UntypedInt:
			return "int"
		case types.UntypedString:
			return "string"
		}
		return b.Name()
	}
	if i, ok := t.Underlying().(*types.Interface); ok {
		if i.NumMethods() == 0 {
			return "any"
		}
		return "interface"
	}
	return types.TypeString(t, func(p *types.Package) string { return p.Name() })
}

type site struct{ where, ctx, expr, typ string }

func runGenPaths(out string) error {
	repo := repoDir()
	cmd := exec.Command("go", append([]string{"list", "-export", "-deps", "-json=Dir,ImportPath,Export,GoFiles,DepOnly,Error"}, pathPkgs...)...)
	cmd.Dir = repo
	var stderr bytes.Buffer
	cmd.Stderr = &stderr
	raw, err := cmd.Output()
	if err != nil {
		return fmt.Errorf("go list: %v: %s", err, stderr.String())
	}
	exports := map[string]string{}
	var own []listed
	dec := json.NewDecoder(bytes.NewReader(raw))
	for {
		var p listed
		if err := dec.Decode(&p); err == io.EOF {
			break
		} else if err != nil {
			return err
		}
		if p.Error != nil {
			return fmt.Errorf("go list %s: %s", p.ImportPath, p.Error.Err)
		}
		if p.Export != "" {
			exports[p.ImportPath] = p.Export
		}
		if !p.DepOnly {
			own = append(own, p)
		}
	}
	if len(own) != len(pathPkgs) {
		return fmt.Errorf("go list named %d of the %d packages", len(own), len(pathPkgs))
	}
	fset := token.NewFileSet()
	imp := importer.ForCompiler(fset, "gc", func(path string) (io.ReadCloser, error) {
		f, ok := exports[path]
		if !ok {
			return nil, fmt.Errorf("no export data for %s", path)
		}
		return os.Open(f)
	})

	var sites []site
	var units []*pkgUnit
	for _, p := range own {
		var files []*ast.File
		for _, n := range p.GoFiles {
			f, err := parser.ParseFile(fset, filepath.Join(p.Dir, n), nil, 0)
			if err != nil {
				return err
			}
			files = append(files, f)
		}
		info := &types.Info{Types: map[ast.Expr]types.TypeAndValue{}, Uses: map[*ast.Ident]types.Object{}, Defs: map[*ast.Ident]types.Object{}}
		conf := types.Config{Importer: imp, Error: func(error) {}}
		if _, err := conf.Check(p.ImportPath, fset, files, info); err != nil {
			return fmt.Errorf("type-check %s: %v", p.ImportPath, err)
		}
		units = append(units, &pkgUnit{path: p.ImportPath, files: files, info: info})
		// where = file:function (no line numbers: the table changes only when a site does)
		fn := ""
		rel := func(pos token.Pos) string {
			ps := fset.Position(pos)
			r, _ := filepath.Rel(repo, ps.Filename)
			return filepath.ToSlash(r) + ":" + fn
		}
		add := func(ctx string, el ast.Expr, spread bool) {
			t := info.TypeOf(el)
			if spread {
				if s, ok := t.Underlying().(*types.Slice); ok {
					t = s.Elem()
				}
				ctx += "-spread"
			}
			sites = append(sites, site{rel(el.Pos()), ctx, show(fset, el), typeClass(t)})
		}
		lit := func(x ast.Expr) {
			if cl, ok := ast.Unparen(x).(*ast.CompositeLit); ok && isAnySlice(info.TypeOf(cl)) {
				for _, el := range cl.Elts {
					add("literal", el, false)
				}
			}
		}
		for _, f := range files {
			ast.Inspect(f, func(n ast.Node) bool {
				switch v := n.(type) {
				case *ast.FuncDecl:
					fn = v.Name.Name
				case *ast.AssignStmt:
					for i, lhs := range v.Lhs {
						if i >= len(v.Rhs) {
							break
						}
						if ix, ok := lhs.(*ast.IndexExpr); ok && pathLike(exprName(ix.X)) && isAnySlice(info.TypeOf(ix.X)) {
							add("index", v.Rhs[i], false)
						} else if pathLike(exprName(lhs)) {
							lit(v.Rhs[i])
						}
					}
				case *ast.ValueSpec:
					for i, nm := range v.Names {
						if i < len(v.Values) && pathLike(nm.Name) {
							lit(v.Values[i])
						}
					}
				case *ast.KeyValueExpr:
					if k, ok := v.Key.(*ast.Ident); ok && pathLike(k.Name) {
						lit(v.Value)
					}
				case *ast.CallExpr:
					if id, ok := v.Fun.(*ast.Ident); ok && id.Name == "append" && len(v.Args) > 1 && isAnySlice(info.TypeOf(v.Args[0])) {
						first := ast.Unparen(v.Args[0])
						named := pathLike(exprName(first))
						if cl, ok := first.(*ast.CompositeLit); ok && !named {
							// append([]any{index}, issue.Path...): the literal is a path when what is spread onto it is one
							if v.Ellipsis.IsValid() && pathLike(exprName(v.Args[len(v.Args)-1])) {
								named = true
								for _, el := range cl.Elts {
									add("literal", el, false)
								}
							}
						}
						if named {
							for i, a := range v.Args[1:] {
								add("append", a, v.Ellipsis.IsValid() && i == len(v.Args)-2)
							}
						}
						return true
					}
					// arguments passed for parameters named like a path
					if sig, ok := info.TypeOf(v.Fun).(*types.Signature); ok {
						for i, a := range v.Args {
							if i < sig.Params().Len() && pathLike(sig.Params().At(i).Name()) {
								lit(a)
							}
						}
					}
				}
				return true
			})
		}
	}
	// the type-driven enumeration (pathsinks.go): every expression that flows into a `Path []any` field
	sinks, more, err := pathSinks(fset, repo, units)
	if err != nil {
		return err
	}
	if len(sinks) < 10 {
		return fmt.Errorf("translator found only %d writes to path carriers", len(sinks))
	}
	sites = append(sites, more...)
	sort.Slice(sites, func(i, j int) bool {
		a, b := sites[i], sites[j]
		if a.where != b.where {
			return a.where < b.where
		}
		if a.expr != b.expr {
			return a.expr < b.expr
		}
		if a.ctx != b.ctx {
			return a.ctx < b.ctx
		}
		return a.typ < b.typ
	})
	dedup := sites[:0]
	for i, x := range sites {
		if i == 0 || x != sites[i-1] {
			dedup = append(dedup, x)
		}
	}
	sites = dedup
	if len(sites) < 10 {
		return fmt.Errorf("translator found only %d path-element sites", len(sites))
	}
	var b strings.Builder
	b.WriteString("/- REGENERATED by `harness/cmd/c19 -genpaths` from core, internal/checks, internal/engine, internal/issues and types\n   on every run of ./check C19.  Do not edit. -/\n")
	b.WriteString("namespace Gozod.Gen.C19PathTypes\n\n")
	b.WriteString("/-- (file:function, context, expression, static type) of every place where the library puts an element into an issue path -/\n")
	b.WriteString("def pathElementSites : List (String × String × String × String) := [\n")
	for i, s := range sites {
		sep := ","
		if i == len(sites)-1 {
			sep = ""
		}
		fmt.Fprintf(&b, "  (%s, %s, %s, %s)%s\n", leanStr(s.where), leanStr(s.ctx), leanStr(s.expr), leanStr(s.typ), sep)
	}
	b.WriteString("]\n\n/-- (file:function, shape, expression) of every expression written to a carrier of a path: a `Path []any` field, or a\n    variable / parameter / field / function result that flows into one (harness/cmd/c19/pathsinks.go) -/\n")
	b.WriteString("def pathSinks : List (String × String × String) := [\n")
	for i, s := range sinks {
		sep := ","
		if i == len(sinks)-1 {
			sep = ""
		}
		fmt.Fprintf(&b, "  (%s, %s, %s)%s\n", leanStr(s.where), leanStr(s.shape), leanStr(s.expr), sep)
	}
	b.WriteString("]\n\nend Gozod.Gen.C19PathTypes\n")
	if old, err := os.ReadFile(out); err == nil && string(old) == b.String() {
		return nil
	}
	return os.WriteFile(out, []byte(b.String()), 0o644)
}
