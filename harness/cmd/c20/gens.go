package main

import (
	"fmt"
	"strings"

	"verifharness/hx"
)

// gen: valid samples (fixed + random), hand-picked near misses, the format's alphabet (used for
// insertions and substitutions) and its separators.
type gen struct {
	fixed    []string
	near     []string
	random   func(r *hx.Rng) string
	alphabet string
	seps     string
}

const hexLower = "0123456789abcdef"
const hexUpper = "0123456789ABCDEF"
const b64Std = "ABCDEFGHIJKLMNOPQRSTUVWXYZabcdefghijklmnopqrstuvwxyz0123456789+/"
const b64URL = "ABCDEFGHIJKLMNOPQRSTUVWXYZabcdefghijklmnopqrstuvwxyz0123456789-_"

var octetVals = []int{0, 1, 9, 10, 19, 99, 100, 101, 199, 200, 249, 250, 254, 255}

func randOctet(r *hx.Rng) int {
	if r.Chance(60) {
		return hx.Pick(r, octetVals)
	}
	return r.Intn(256)
}

func randIPv4(r *hx.Rng) string {
	return fmt.Sprintf("%d.%d.%d.%d", randOctet(r), randOctet(r), randOctet(r), randOctet(r))
}

func randHexStr(r *hx.Rng, n int, alpha string) string {
	b := make([]byte, n)
	for i := range b {
		b[i] = alpha[r.Intn(len(alpha))]
	}
	return string(b)
}

func randMAC(r *hx.Rng, d string) string {
	alpha := hexLower
	if r.Bool() {
		alpha = hexUpper
	}
	p := make([]string, 6)
	for i := range p {
		p[i] = randHexStr(r, 2, alpha)
	}
	return strings.Join(p, d)
}

func randB64(r *hx.Rng, alpha string, pad bool) string {
	n := r.Intn(14)
	if n%4 == 1 {
		n++
	}
	s := randHexStr(r, n, alpha)
	if pad {
		for len(s)%4 != 0 {
			s += "="
		}
	}
	return s
}

func randUUID(r *hx.Rng, ver string) string {
	alpha := hexLower
	switch r.Intn(3) {
	case 1:
		alpha = hexUpper
	case 2:
		alpha = "0123456789abcdefABCDEF"
	}
	v := ver
	if v == "" {
		v = string("12345678"[r.Intn(8)])
	}
	return randHexStr(r, 8, alpha) + "-" + randHexStr(r, 4, alpha) + "-" + v + randHexStr(r, 3, alpha) + "-" +
		string("89abAB"[r.Intn(6)]) + randHexStr(r, 3, alpha) + "-" + randHexStr(r, 12, alpha)
}

var years = []int{0, 1, 4, 96, 100, 200, 400, 1600, 1700, 1900, 1996, 1999, 2000, 2001, 2023, 2024, 2100, 2400, 9996, 9999}

func isLeap(y int) bool { return y%4 == 0 && (y%100 != 0 || y%400 == 0) }
func daysIn(y, m int) int {
	switch m {
	case 2:
		if isLeap(y) {
			return 29
		}
		return 28
	case 4, 6, 9, 11:
		return 30
	}
	return 31
}

func randDate(r *hx.Rng) string {
	y := r.Intn(10000)
	if r.Chance(60) {
		y = hx.Pick(r, years)
	}
	m := 1 + r.Intn(12)
	if r.Chance(40) {
		m = 2
	}
	d := 1 + r.Intn(daysIn(y, m))
	if r.Chance(50) {
		d = daysIn(y, m)
	}
	return fmt.Sprintf("%04d-%02d-%02d", y, m, d)
}

func randTime(r *hx.Rng) string {
	h := hx.Pick(r, []int{0, 1, 9, 10, 19, 20, 23, r.Intn(24)})
	mi := hx.Pick(r, []int{0, 9, 30, 59, r.Intn(60)})
	s := hx.Pick(r, []int{0, 9, 30, 59, r.Intn(60)})
	t := fmt.Sprintf("%02d:%02d:%02d", h, mi, s)
	if r.Chance(40) {
		t += "." + randHexStr(r, 1+r.Intn(9), "0123456789")
	}
	if r.Chance(50) {
		return t + "Z"
	}
	return t + hx.Pick(r, []string{"+", "-"}) + fmt.Sprintf("%02d:%02d", hx.Pick(r, []int{0, 1, 9, 12, 14, 23}), hx.Pick(r, []int{0, 30, 45, 59}))
}

func randHextet(r *hx.Rng) string {
	return hx.Pick(r, []string{"0", "1", "a", "ff", "db8", "2001", "ffff", "FFFF", "0000", "fe80", "AbCd", "10", "abc"})
}

func randIPv6(r *hx.Rng) string {
	switch r.Intn(6) {
	case 0: // full form
		p := make([]string, 8)
		for i := range p {
			p[i] = randHextet(r)
		}
		return strings.Join(p, ":")
	case 1: // a::b
		a, b := r.Intn(7), 0
		b = r.Intn(7 - a)
		var l, rr []string
		for i := 0; i < a; i++ {
			l = append(l, randHextet(r))
		}
		for i := 0; i < b; i++ {
			rr = append(rr, randHextet(r))
		}
		return strings.Join(l, ":") + "::" + strings.Join(rr, ":")
	case 2:
		return "::ffff:" + randIPv4(r)
	case 3:
		return "::" + randIPv4(r)
	case 4:
		p := make([]string, 1+r.Intn(4))
		for i := range p {
			p[i] = randHextet(r)
		}
		return strings.Join(p, ":") + "::" + randIPv4(r)
	}
	return "fe80::" + randHextet(r) + "%eth0"
}

var gens = map[string]*gen{
	"ipv4": {
		fixed:    []string{"0.0.0.0", "255.255.255.255", "192.168.1.1", "1.2.3.4", "10.0.0.1", "249.250.199.200"},
		near:     []string{"", "256.0.0.0", "1.2.3", "1.2.3.4.5", "01.2.3.4", "1.2.3.04", "1..2.3", "00.0.0.0", "1.2.3.256", "1.2.3.260", "1.2.3.300", "999.1.1.1", "1.2.3.4.", ".1.2.3.4", "1.2.3.4/8", "0x1.2.3.4", "1.2.3.0255", "١.2.3.4"},
		random:   randIPv4,
		alphabet: "0123456789.",
		seps:     ".",
	},
	"cidrv4": {
		fixed: []string{"0.0.0.0/0", "255.255.255.255/32", "192.168.1.0/24", "10.0.0.0/8", "1.2.3.4/9", "1.2.3.4/10", "1.2.3.4/29", "1.2.3.4/30", "1.2.3.4/31", "1.2.3.4/19", "1.2.3.4/20"},
		near:  []string{"", "1.2.3.4", "1.2.3.4/", "1.2.3.4/33", "1.2.3.4/032", "1.2.3.4/00", "1.2.3.4/40", "1.2.3.4/99", "1.2.3.4/100", "1.2.3.4/128", "256.2.3.4/8", "01.2.3.4/8", "1.2.3/8", "::ffff:1.2.3.4/120", "::ffff:1.2.3.4/96", "0:0:0:0:0:ffff:102:304/120", "::ffff:102:304/128", "::1.2.3.4/120", "1.2.3.4/8/8", "1.2.3.4/-1", "1.2.3.4/+8", "1.2.3.4%eth0/8", "2001:db8::/32"},
		random: func(r *hx.Rng) string {
			return randIPv4(r) + "/" + fmt.Sprint(hx.Pick(r, []int{0, 1, 8, 9, 10, 16, 24, 29, 30, 31, 32, r.Intn(33)}))
		},
		alphabet: "0123456789./",
		seps:     "./",
	},
	"mac": {
		fixed:    []string{"00:1A:2B:3C:4D:5E", "00:1a:2b:3c:4d:5e", "ff:ff:ff:ff:ff:ff", "FF:FF:FF:FF:FF:FF", "01:23:45:67:89:00", "00:00:00:00:00:00"},
		near:     []string{"", "00:1A:2b:3C:4D:5E", "00-1A-2B-3C-4D-5E", "001A2B3C4D5E", "00:1A:2B:3C:4D", "00:1A:2B:3C:4D:5E:6F", "0:1A:2B:3C:4D:5E", "00:1A:2B:3C:4D:5G", "001A.2B3C.4D5E", "00:1A-2B:3C:4D:5E", "aA:00:00:00:00:00"},
		random:   func(r *hx.Rng) string { return randMAC(r, ":") },
		alphabet: "0123456789abcdefABCDEF:",
		seps:     ":",
	},
	"macdash": {
		fixed:    []string{"00-1A-2B-3C-4D-5E", "00-1a-2b-3c-4d-5e", "ff-ff-ff-ff-ff-ff"},
		near:     []string{"", "00:1A:2B:3C:4D:5E", "00-1A-2b-3C-4D-5E", "00-1A-2B-3C-4D", "00-1A:2B-3C-4D-5E", "00--1A-2B-3C-4D-5E"},
		random:   func(r *hx.Rng) string { return randMAC(r, "-") },
		alphabet: "0123456789abcdefABCDEF-",
		seps:     "-",
	},
	"base64": {
		fixed:    []string{"", "QQ==", "QUI=", "QUJD", "QUJDRA==", "SGVsbG8gV29ybGQ=", "+/+/", "ab+/", "0000"},
		near:     []string{"A", "A=", "A==", "A===", "AB", "AB=", "ABC", "ABC==", "ABCD=", "ABCD==", "=", "==", "====", "QQ=", "Q=Q=", "QQ==QQ==", "QUI=QUJD", "-_-_", "QUJD\n", "QU JD", "QUJDRA"},
		random:   func(r *hx.Rng) string { return randB64(r, b64Std, true) },
		alphabet: b64Std + "=-_",
		seps:     "=",
	},
	"base64url": {
		fixed:    []string{"", "QQ", "QUI", "QUJD", "QUJDRA", "QQ==", "QUI=", "-_-_", "ab-_", "0000", "SGVsbG8gV29ybGQ", "SGVsbG8gV29ybGQ="},
		near:     []string{"A", "A=", "A==", "A===", "AB=", "ABC==", "ABCD=", "ABCD==", "ABCDE", "ABCDE=", "=", "==", "===", "Q=Q", "QQ==QQ", "+/+/", "QUJD\n", "QU JD", "QQ=", "ABCDEF=", "ABCDEFG=="},
		random:   func(r *hx.Rng) string { return randB64(r, b64URL, r.Bool()) },
		alphabet: b64URL + "=+/",
		seps:     "=",
	},
	"hex": {
		fixed:    []string{"", "0", "00", "deadBEEF", "0123456789abcdefABCDEF", "a", "F"},
		near:     []string{"0x00", "g", "G", "0g", "00 ", "-1", "+1", "1.0", "dead beef", "０"},
		random:   func(r *hx.Rng) string { return randHexStr(r, r.Intn(12), "0123456789abcdefABCDEF") },
		alphabet: "0123456789abcdefABCDEF",
		seps:     "",
	},
	"uuid": {
		fixed: []string{"00000000-0000-0000-0000-000000000000", "123e4567-e89b-12d3-a456-426614174000", "123E4567-E89B-42D3-A456-426614174000",
			"550e8400-e29b-41d4-a716-446655440000", "6ba7b810-9dad-11d1-80b4-00c04fd430c8", "017f22e2-79b0-7cc3-98c4-dc0c0c07398f", "01234567-89ab-8def-bdef-0123456789ab"},
		near: []string{"", "ffffffff-ffff-ffff-ffff-ffffffffffff", "123e4567-e89b-02d3-a456-426614174000", "123e4567-e89b-92d3-a456-426614174000", "123e4567-e89b-12d3-7456-426614174000",
			"123e4567-e89b-12d3-c456-426614174000", "00000000-0000-0000-0000-000000000001", "00000000-0000-1000-8000-000000000000", "00000000-0000-0000-8000-000000000000",
			"00000000-0000-1000-0000-000000000000", "123e4567e89b12d3a456426614174000", "{123e4567-e89b-12d3-a456-426614174000}", "urn:uuid:123e4567-e89b-12d3-a456-426614174000",
			"123e4567-e89b-12d3-a456-42661417400", "123e4567-e89b-12d3-a456-4266141740000", "123e4567_e89b_12d3_a456_426614174000", "g23e4567-e89b-12d3-a456-426614174000"},
		random:   func(r *hx.Rng) string { return randUUID(r, "") },
		alphabet: "0123456789abcdefABCDEF-",
		seps:     "-",
	},
	"e164": {
		fixed: []string{"+14155552671", "+1234567", "+123456789012345", "+9999999", "+10000000", "+442071838750"},
		near:  []string{"", "+", "+123456", "+1234567890123456", "+0123456789", "14155552671", "++14155552671", "+1 415 555 2671", "+1-415-555-2671", "+1415555267a", "+１４１５５５５２６７１", "0014155552671", "+12345678 "},
		random: func(r *hx.Rng) string {
			return "+" + randHexStr(r, 1, "123456789") + randHexStr(r, hx.Pick(r, []int{6, 7, 10, 13, 14, 6 + r.Intn(9)}), "0123456789")
		},
		alphabet: "0123456789+",
		seps:     "+",
	},
	"isodate": {
		fixed: []string{"2024-12-06", "2024-02-29", "2000-02-29", "2023-02-28", "1900-02-28", "0000-02-29", "0000-01-01", "9999-12-31", "2024-01-31", "2024-04-30", "2024-06-30", "2024-09-30", "2024-11-30", "2024-10-10", "0400-02-29", "0004-02-29"},
		near: []string{"", "2023-02-29", "1900-02-29", "2100-02-29", "0100-02-29", "2024-02-30", "2024-02-31", "2024-04-31", "2024-06-31", "2024-09-31", "2024-11-31", "2024-00-10", "2024-13-10", "2024-10-00", "2024-10-32",
			"2024-1-06", "2024-12-6", "24-12-06", "02024-12-06", "2024/12/06", "20241206", "2024-12-06T00:00:00Z", "2024-12-06 ", "+2024-12-06", "-2024-12-06", "2024-12-06Z", "2024-W01-1", "2024-366", "２０２４-12-06"},
		random:   randDate,
		alphabet: "0123456789-",
		seps:     "-",
	},
	"isotime": {
		fixed: []string{"15:30", "15:30:00", "00:00", "23:59:59", "15:30:00.5", "15:30:00.123456789", "09:09:09", "20:00:00.0", "19:59"},
		near:  []string{"", "15", "15:3", "15:30:", "15:30:0", "15:30:00.", "15:30:00,5", "15:30.5", "24:00", "23:60", "23:59:60", "1:30", "015:30", "15:30:00Z", "15:30:00+08:00", "T15:30:00", "15:30:00 ", "15-30-00", "15:30:00.5.5", "15:30:00,", "１５:30"},
		random: func(r *hx.Rng) string {
			t := randTime(r)
			i := strings.IndexAny(t, "Z+-")
			t = t[:i]
			if r.Chance(30) {
				return t[:5]
			}
			return t
		},
		alphabet: "0123456789:.,",
		seps:     ":.",
	},
	"isodatetime": {
		fixed: []string{"2024-12-06T15:30:00Z", "2024-02-29T00:00:00Z", "2000-02-29T23:59:59Z", "2024-12-06T15:30:00.5Z", "2024-12-06T15:30:00.123456789Z", "2024-12-06T15:30:00+08:00", "2024-12-06T15:30:00-00:00",
			"2024-12-06T15:30:00.000+23:59", "0000-01-01T00:00:00Z", "9999-12-31T23:59:59.999999999-23:59", "2024-12-06T09:09:09+00:00"},
		near: []string{"", "2024-12-06", "2024-12-06T15:30:00", "2024-12-06T15:30Z", "2024-12-06T15:30+08:00", "2024-12-06T15:30:00,5Z", "2024-12-06T1:30:00Z", "2024-12-06T24:00:00Z", "2024-12-06T15:60:00Z", "2024-12-06T15:30:60Z",
			"2024-12-06T23:59:60Z", "2024-12-06t15:30:00Z", "2024-12-06T15:30:00z", "2024-12-06 15:30:00Z", "2024-12-06T15:30:00+24:00", "2024-12-06T15:30:00+23:60", "2024-12-06T15:30:00+0800", "2024-12-06T15:30:00+08",
			"2024-12-06T15:30:00.Z", "2024-12-06T15:30:00.+08:00", "2023-02-29T00:00:00Z", "2024-02-30T00:00:00Z", "2024-13-01T00:00:00Z", "2024-12-06T15:30:00ZZ", "2024-12-06T15:30:00Z+08:00", "2024-12-06T15:3:00Z",
			"2024-12-06T15:30:0Z", "2024-12-06T15:30:00+8:00", "2024-12-06T15:30:00+08:0", "2024-12-6T15:30:00Z", "2024-12-06T15:30:00 Z", "2024-12-06T15:30:00.5", "2024-12-06T15:30.5Z", "2024-12-06T15Z"},
		random:   func(r *hx.Rng) string { return randDate(r) + "T" + randTime(r) },
		alphabet: "0123456789-:.TZ+,tz",
		seps:     "-:T.",
	},
	"ipv6": {
		fixed: []string{"::", "::1", "1::", "2001:db8::8a2e:370:7334", "2001:0db8:85a3:0000:0000:8a2e:0370:7334", "fe80::1", "1:2:3:4:5:6:7:8", "1:2:3:4:5:6:7::", "::2:3:4:5:6:7:8", "1::8", "1:2:3:4::6:7:8",
			"::ffff:192.168.1.1", "::192.168.1.1", "64:ff9b::192.0.2.33", "ABCD:EF01:2345:6789:ABCD:EF01:2345:6789", "1:2:3:4:5:6:1.2.3.4", "1::1.2.3.4", "::ffff:0:1.2.3.4"},
		near: []string{"", ":", ":::", "1:2:3:4:5:6:7", "1:2:3:4:5:6:7:8:9", "1::2::3", "12345::", "g::", "::g", "1:2:3:4:5:6:7:8::", "::1:2:3:4:5:6:7:8", "1.2.3.4", "::1.2.3.256", "::01.2.3.4", "::1.2.3", "fe80::1%eth0", "fe80::1%",
			"::1%eth0", "fe80:1%eth0", "[::1]", "::1/128", "1:2:3:4:5:6:7:1.2.3.4", "1:2:3:4:5::1.2.3.4", "::ffff:1.2.3.4.5", "0:0:0:0:0:0:0:0", "0:0:0:0:0:0:0::", ":1", "1:", "::1:", ":1::", "1:::2"},
		random:   randIPv6,
		alphabet: "0123456789abcdefABCDEF:.%",
		seps:     ":.",
	},
	"cidrv6": {
		fixed: []string{"::/0", "2001:db8::/32", "::1/128", "fe80::/10", "2001:db8::8a2e:370:7334/64", "1:2:3:4:5:6:7:8/127", "::ffff:1.2.3.4/120", "::/9", "::/10", "::/99", "::/100", "::/119", "::/120", "::/128", "1::/19"},
		near:  []string{"", "::", "::/", "::/129", "::/130", "::/200", "::/0128", "::/00", "::/01", "1.2.3.4/24", "::/-1", "::/+1", "2001:db8::/32/1", "fe80::1%eth0/64", "1:2:3:4:5:6:7/64", "g::/8", "::ffff:1.2.3.4/24", "::1.2.3.4/100", "1:2:3:4:5:6:1.2.3.4/64"},
		random: func(r *hx.Rng) string {
			return randIPv6(r) + "/" + fmt.Sprint(hx.Pick(r, []int{0, 1, 9, 10, 64, 99, 100, 119, 120, 127, 128, r.Intn(129)}))
		},
		alphabet: "0123456789abcdefABCDEF:./%",
		seps:     ":./",
	},
}

func init() {
	ver := func(v string, others ...string) *gen {
		g := &gen{
			fixed:    []string{randUUIDFixed(v, "a"), randUUIDFixed(v, "8"), randUUIDFixed(v, "B"), strings.ToUpper(randUUIDFixed(v, "9"))},
			near:     []string{"", "00000000-0000-0000-0000-000000000000", "ffffffff-ffff-ffff-ffff-ffffffffffff", randUUIDFixed(v, "7"), randUUIDFixed(v, "c"), randUUIDFixed(v, "0")},
			random:   func(r *hx.Rng) string { return randUUID(r, v) },
			alphabet: "0123456789abcdefABCDEF-",
			seps:     "-",
		}
		for _, o := range others {
			g.near = append(g.near, randUUIDFixed(o, "a"))
		}
		return g
	}
	gens["uuidv4"] = ver("4", "1", "3", "5", "0", "9", "a")
	gens["uuidv6"] = ver("6", "1", "5", "7", "0", "9", "f")
	gens["uuidv7"] = ver("7", "1", "6", "8", "0", "9", "f")
	gens["uuidp4"] = ver("4", "1", "3", "5", "0", "9", "a")
	gens["uuidp6"] = ver("6", "1", "5", "7", "0", "9", "f")
	gens["uuidp7"] = ver("7", "1", "6", "8", "0", "9", "f")
	gens["macdot"] = &gen{
		fixed:    []string{"00.1A.2B.3C.4D.5E", "00.1a.2b.3c.4d.5e", "ff.ff.ff.ff.ff.ff"},
		near:     []string{"", "00:1A:2B:3C:4D:5E", "00.1A.2b.3C.4D.5E", "00.1A.2B.3C.4D", "00.1A:2B.3C.4D.5E", "00..1A.2B.3C.4D.5E", "00x1Ax2Bx3Cx4Dx5E", "001A.2B3C.4D5E"},
		random:   func(r *hx.Rng) string { return randMAC(r, ".") },
		alphabet: "0123456789abcdefABCDEF.",
		seps:     ".",
	}
	g := *gens["uuid"]
	g.near = append(append([]string{}, g.near...), "123e4567-e89b-f2d3-a456-426614174000", "123E4567-E89B-A2D3-A456-426614174000")
	gens["guid"] = &g
}

func randUUIDFixed(ver, variant string) string {
	return "123e4567-e89b-" + ver + "2d3-" + variant + "456-426614174000"
}
