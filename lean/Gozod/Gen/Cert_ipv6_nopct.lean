/- GENERATED: no certificate exists for ipv6_nopct: the pattern and the specification differ on the byte string (hex) 3a3a302e302e302e3030 (pattern true, specification false). -/
