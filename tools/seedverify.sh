#!/bin/bash
# tools/seedverify.sh <ID> [check-ids...]: verify an independently written property-breaking change in /tmp/seed-<ID>/_seed
# (applies, builds, existing suite green, demo fails with / passes without), then run our checks against it.
set +u
ID=$1; shift
CHECKS=${@:-$ID}
WT=/tmp/seed-$ID
export GOFLAGS=-mod=mod GOPROXY=off
cd $WT || exit 2
git checkout -q -- . 2>/dev/null
cat _seed/meta.json | head -30
echo "--- patch stat"; git apply --stat _seed/patch.diff | tail -3
DEMO=$(ls _seed/*_test.go 2>/dev/null | head -1)
rundemo() {
  if [ -n "$DEMO" ]; then
    pk=$(grep -m1 '^package ' $DEMO | awk '{print $2}' | sed 's/_test$//')
    pkgdir=.
    if [ "$pk" != "gozod" ]; then pkgdir=$(grep -rl --include=*.go "^package $pk\$" . 2>/dev/null | grep -v _seed | head -1 | xargs dirname); fi
    [ -d "$pkgdir" ] || pkgdir=.
    cp $DEMO $pkgdir/zz_seed_demo_test.go
    (cd $pkgdir && go test -vet=off -count=1 -run 'Seed|seed|Demo|C[0-9][0-9]' . 2>&1 | tail -4); rc=${PIPESTATUS[0]}
    out=$(cd $pkgdir && go test -vet=off -count=1 -run 'Seed|seed|Demo|C[0-9][0-9]' . 2>&1 | tail -1)
    rm -f $pkgdir/zz_seed_demo_test.go
    echo "$out" | grep -q "^ok" && return 0 || return 1
  elif [ -d _seed/demo ]; then
    (cd _seed/demo && go run . >/dev/null 2>&1); return $?
  fi
  return 3
}
echo "--- demo WITHOUT change (must pass)"; rundemo; echo "rc=$?"
git apply _seed/patch.diff || { echo "PATCH DOES NOT APPLY"; exit 2; }
echo "--- build + suite WITH change"; go build ./... 2>&1 | head -3
go test -vet=off -count=1 ./... 2>&1 | grep -v "^ok\|no test files" | head -5; echo "(suite lines above = failures; none = green)"
echo "--- demo WITH change (must fail)"; rundemo; echo "rc=$?"
for c in $CHECKS; do
  echo "--- ./check $c quick against the changed tree"
  (cd /verif && VERIF_REPO=$WT timeout 1200 ./check $c quick 2>&1 | grep -v "^KNOWN" | tail -6)
done
git checkout -q -- .
