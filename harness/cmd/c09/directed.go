// Round 4b: the DIRECTED run. Instead of oversampling random schemas of a type, every zero-argument constructor of
// the type (value, pointer and Coerced* variants — ctors_registry.go, checked against types/*.go on every run) is put
// under every modifier history of length <= 2 (aimed types) or under the empty history and one drawn history (all other
// types, every run), in the variants plain / refined / +overwrite, and each resulting schema meets the type's boundary
// inputs: every sample of its family (valid ones and each corruption), untyped nil, the nil of R, a typed nil pointer, a
// pointer to a sample, and a pool of foreign values that contains the standard library's value types (netip.Addr,
// *netip.Addr, net.IP, time.Time, *big.Int, json.Number, []byte, a fmt.Stringer, an error, a func).
package main

import (
	"encoding/json"
	"errors"
	"fmt"
	"go/ast"
	"go/parser"
	"go/token"
	"math/big"
	"net"
	"net/netip"
	"path/filepath"
	"reflect"
	"sort"
	"strings"
	"time"

	"verifharness/hx"
)

type stringerT struct{ s string }

func (s stringerT) String() string { return s.s }

// foreignPool: inputs of kinds that are not the StrictParse parameter of (most) schemas; they reach ParseAny / MustParse /
// MustParseAny of every schema, and the strict pair where R happens to be their type (R = any).
func foreignPool() []any {
	a4 := netip.MustParseAddr("192.168.1.1")
	a6 := netip.MustParseAddr("2001:db8::1")
	return []any{
		42, "str", 1.5, true, []string{"a"}, map[string]int{"k": 1}, struct{ X int }{3}, int8(7), []any{1, "x"}, map[string]any{"a": 50},
		a4, &a4, a6, &a6, net.ParseIP("192.168.1.1"), net.ParseIP("2001:db8::1"), netip.Addr{}, (*netip.Addr)(nil), net.IP(nil),
		netip.MustParsePrefix("10.0.0.0/8"), net.HardwareAddr{0, 0x1a, 0x2b, 0x3c, 0x4d, 0x5e},
		time.Unix(1700000000, 0).UTC(), time.Duration(1500) * time.Millisecond, big.NewInt(50), *big.NewInt(5), (*big.Int)(nil),
		json.Number("7"), []byte("192.168.1.1"), stringerT{"true"}, errors.New("boom"), func() {}, uint64(1) << 63, complex(1, 2), "true", "1", "",
	}
}

type dinput struct {
	tok   string
	v     reflect.Value
	typed bool // of the StrictParse parameter type
}

func anyOf(x any) reflect.Value {
	v := reflect.New(anyT).Elem()
	if x != nil {
		v.Set(reflect.ValueOf(x))
	}
	return v
}

func tokOf(x any) string {
	if x != nil && reflect.TypeOf(x).Kind() == reflect.Func {
		return "func"
	}
	return strings.ReplaceAll(fmt.Sprintf("%T", x), " ", "") + ":" + canon(x)
}

// directedInputs: the boundary inputs of a schema whose StrictParse takes `want`.
func directedInputs(fams []*gentry, want reflect.Type) []dinput {
	var ins []dinput
	seen := map[string]bool{}
	add := func(tok string, v reflect.Value, typed bool) {
		if seen[tok] {
			return
		}
		seen[tok] = true
		ins = append(ins, dinput{tok, v, typed})
	}
	for _, e := range fams {
		for _, x := range append(append([]any{}, e.ins...), e.dflt) {
			if v, ok := conv(x, want); ok {
				add(canon(x), v, true)
			}
			// the sample as it is, and behind a pointer (any-input entry points)
			add(tokOf(x), anyOf(x), reflect.TypeOf(x) == want || want.Kind() == reflect.Interface)
			p := reflect.New(reflect.TypeOf(x))
			p.Elem().Set(reflect.ValueOf(x))
			add("&"+tokOf(x), anyOf(p.Interface()), p.Type() == want || want.Kind() == reflect.Interface)
			// typed nil pointer to the sample's type
			add("nilptr:"+strings.ReplaceAll(p.Type().String(), " ", ""), anyOf(reflect.Zero(p.Type()).Interface()), p.Type() == want || want.Kind() == reflect.Interface)
		}
	}
	switch want.Kind() {
	case reflect.Pointer, reflect.Map, reflect.Slice, reflect.Interface, reflect.Func:
		add("nil-of-R", reflect.Zero(want), true)
	}
	add("nil", anyOf(nil), want.Kind() == reflect.Interface)
	for _, x := range foreignPool() {
		add(tokOf(x), anyOf(x), reflect.TypeOf(x) == want || want.Kind() == reflect.Interface)
	}
	return ins
}

// histories of modifier calls of length <= 2 over the eight classic modifiers.
func allHistories() [][]string {
	hs := [][]string{{}}
	for _, a := range classicMods {
		hs = append(hs, []string{a})
	}
	for _, a := range classicMods {
		for _, b := range classicMods {
			hs = append(hs, []string{a, b})
		}
	}
	return hs
}

func familiesByGoType() map[string][]*gentry {
	all := append(gentries(), gentries2()...)
	m := map[string][]*gentry{}
	for i := range all {
		e := &all[i]
		var gt string
		hx.Safely(func() { gt = goTypeOf(e.plain()) })
		if gt != "" {
			m[gt] = append(m[gt], e)
		}
	}
	return m
}

// sourceCtors: the zero-argument-callable, non-generic constructors in <repo>/types/*.go, by schema type (go/ast).
func sourceCtors(repo string) (map[string][]string, error) {
	fset := token.NewFileSet()
	files, _ := filepath.Glob(filepath.Join(repo, "types", "*.go"))
	out := map[string][]string{}
	for _, f := range files {
		if strings.HasSuffix(f, "_test.go") {
			continue
		}
		af, err := parser.ParseFile(fset, f, nil, 0)
		if err != nil {
			return nil, err
		}
		for _, d := range af.Decls {
			fd, ok := d.(*ast.FuncDecl)
			if !ok || fd.Recv != nil || !fd.Name.IsExported() || fd.Type.TypeParams != nil || fd.Type.Results == nil || len(fd.Type.Results.List) != 1 {
				continue
			}
			ps := fd.Type.Params.List
			if len(ps) > 1 {
				continue
			}
			if len(ps) == 1 {
				if _, variadic := ps[0].Type.(*ast.Ellipsis); !variadic {
					continue
				}
			}
			rt := fd.Type.Results.List[0].Type
			if s, ok := rt.(*ast.StarExpr); ok {
				rt = s.X
			}
			rt = stripIndex(rt)
			if id, ok := rt.(*ast.Ident); ok && strings.HasPrefix(id.Name, "Zod") {
				out[id.Name] = append(out[id.Name], fd.Name.Name)
			}
		}
	}
	return out, nil
}

// unregisteredCtors: constructors of the source the registry does not know (a new constructor nobody exercises).
func unregisteredCtors(repo string) []string {
	src, err := sourceCtors(repo)
	if err != nil {
		return []string{"(cannot read " + repo + "/types: " + err.Error() + ")"}
	}
	var missing []string
	for ty, names := range src {
		have := map[string]bool{}
		for _, c := range zeroArgCtors[ty] {
			have[c.name] = true
		}
		for _, n := range names {
			if !have[n] {
				missing = append(missing, ty+":"+n)
			}
		}
	}
	sort.Strings(missing)
	return missing
}

// runDirected: see the file comment. `aim` = Go type names the table / a fingerprint reports as changed.
func runDirected(o *hx.Out, r *hx.Rng, aim map[string]bool, thorough bool) {
	fams := familiesByGoType()
	var types []string
	for ty := range zeroArgCtors {
		types = append(types, ty)
	}
	sort.Strings(types)
	hists := allHistories()
	for _, ty := range types {
		for _, c := range zeroArgCtors[ty] {
			// the family is looked up by the Go type of what the constructor returns (ZodInteger is an alias)
			var rt string
			hx.Safely(func() { rt = goTypeOf(c.mk()) })
			fs := fams[rt]
			if len(fs) == 0 {
				o.Count("directed-no-family:" + c.name)
				continue
			}
			tag := fs[0].name
			aimed := aim[ty] || aim[rt]
			variants := []string{"plain"}
			var hs [][]string
			switch {
			case aimed:
				variants = []string{"plain", "refined", "ow"}
				hs = hists
			case thorough:
				variants = []string{"plain", "refined", "ow"}
				hs = [][]string{{}, hists[1+r.Intn(len(hists)-1)], hists[1+r.Intn(len(hists)-1)], hists[1+r.Intn(len(hists)-1)]}
			default:
				hs = [][]string{{}, hists[1+r.Intn(len(hists)-1)]}
				if r.Chance(50) {
					variants = []string{hx.Pick(r, []string{"refined", "ow"})}
				}
			}
			type vh struct {
				variant string
				hs      [][]string
			}
			plan := []vh{}
			for _, variant := range variants {
				plan = append(plan, vh{variant, hs})
			}
			// always: a nil-filling Overwrite under the histories that make nil acceptable (an accepted nil meets the overwrite
			// checks only, /repo 7db47f1 — the one place where a nil path that skips the checks is still observable)
			fillHs := [][]string{{}, {"Optional"}, {"Nilable"}}
			if aimed || thorough {
				fillHs = hists
			}
			plan = append(plan, vh{"owfill", fillHs})
			for _, pl := range plan {
				variant := pl.variant
				for _, h := range pl.hs {
					var schema, base any
					applied := []string{"ctor:" + c.name, variant}
					pm := hx.Safely(func() {
						schema = c.mk()
						switch variant {
						case "refined":
							if s2, ok := applyStep(schema, step{"Refine", 0}, fs[0].dflt, nil); ok {
								schema = s2
							} else {
								applied[1] = "plain"
							}
						case "ow":
							if s2, ok := applyStep(schema, step{"Overwrite", 0}, fs[0].dflt, nil); ok {
								schema = s2
							} else {
								applied[1] = "plain"
							}
						case "owfill":
							if s2, ok := applyStep(schema, step{"Overwrite", 7}, fs[0].dflt, nil); ok {
								schema = s2
							} else {
								applied[1] = "plain"
							}
						}
						base = schema
						for k, m := range h {
							if s2, ok := applyStep(schema, step{m, k}, fs[0].dflt, nil); ok {
								schema = s2
								applied = append(applied, m)
							}
						}
					})
					if pm != "" || schema == nil {
						o.Emit(fmt.Sprintf("c09 gen %s %s | build #%s", tag, strings.Join(applied, " "), tag), "P=panic:"+strings.ReplaceAll(pm, " ", "_"))
						continue
					}
					sm := reflect.ValueOf(schema).MethodByName("StrictParse")
					if !sm.IsValid() {
						continue
					}
					want := sm.Type().In(0)
					gt := goTypeOf(schema)
					for _, in := range directedInputs(fs, want) {
						kind := "ill"
						if in.typed {
							kind = "gen"
						}
						emitCase(o, kind, tag, applied, base, schema, in.v, in.tok)
						o.Count("directed:" + tag)
						o.Count(fmt.Sprintf("directed-history-len:%d", len(applied)-2))
						o.Count("directed-variant:" + applied[1])
						o.Count("directed-input:" + inputClass(in.tok))
						o.Count("gotype:" + gt)
						o.Count("ctor:" + c.name)
						if aimed {
							o.Count("directed-aimed:" + ty)
						}
					}
				}
			}
		}
	}
}

// inputClass: the class of a directed input, for the distribution printed into the evidence.
func inputClass(tok string) string {
	switch {
	case tok == "nil":
		return "untyped-nil"
	case tok == "nil-of-R":
		return "nil-of-R"
	case strings.HasPrefix(tok, "nilptr:"):
		return "typed-nil-pointer"
	case strings.HasPrefix(tok, "&"):
		return "pointer-to-value"
	}
	return "value"
}
