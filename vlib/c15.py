"""C15 — Parse neither writes to caller data nor lets results alias schema-held state."""
from . import common as C

MANIFEST = dict(
   technique="Lean 4 proof over the store model with caller-visible value graphs (reach / ser / deep copy / mutate) + correspondence: pointers through Parse and StrictParse with input digests, and Parse–mutate–Parse histories over nested defaults and prefaults for every schema type",
   text="For the code after pending/C15-deep-clone-default.diff: c15_result_fresh (everything reachable from the value Parse(nil) returns was allocated by that call and looks like the default; nothing older is written; rests on copyOK: the deep copy is fresh and equal for every graph and depth), c15_mut_frame and c15_hist (any interleaving of Parse(nil) calls and in-place mutations of returned values leaves the schema's default graph, hence every later result, looking the same), c15_input_unchanged and c15_same_pointer (Parse through a caller's pointer without an overwrite leaves every location as it was and returns that pointer). Witness for the pinned code: today_nested_default_shared (cloneDefaultValue copies one level; the nested map is the schema's own).",
   note="Value graphs are followed to depth 6 (the harness builds depth <= 4). Parse on non-nil input is modelled only for the pointer path (validatePointer); that containers build fresh results from the input is covered by the reparse correspondence, not by a theorem. StrictParse returning the caller's pointer is checked by the correspondence (patch included). Structs with unexported reference-typed fields inside a default stay shared (stated limit of the patch). Trusted: Lean kernel, axioms propext/Classical.choice/Quot.sound, the Go harness (reflective digests and mutator).",
   design="DESIGN.md §3.4, §5 C15")

MODULES = ["Gozod.Proofs.C15", "Gozod.Proofs.C15Agg"]
THEOREMS = [
    "Gozod.C15.c15_result_fresh", "Gozod.C15.copyOK", "Gozod.C15.c15_mut_frame", "Gozod.C15.c15_hist",
    "Gozod.C15.c15_input_unchanged", "Gozod.C15.c15_same_pointer", "Gozod.C15.graph_frame",
    "Gozod.C15.today_nested_default_shared",
    # graphs with value-typed aggregates (structs / arrays held by value inside containers)
    "Gozod.C15.g_copyOK", "Gozod.C15.g_result_fresh", "Gozod.C15.g_assign_frame", "Gozod.C15.g_hist",
    "Gozod.C15.g_graph_frame", "Gozod.C15.rebuild_ext", "Gozod.C15.g_input_unchanged", "Gozod.C15.bulk_agg_copy_shared",
]


def key(op, impl, M, S):
    t = C.op_body(op).split(" ")
    cm = C.op_comment(op).split(" ")
    typ = cm[-1] if cm else "?"
    how = cm[0] if cm else "?"
    variant = how.split(".", 1)[1] if "." in how else how
    if t[1] == "ptr":
        u, same = (impl.split(" ") + ["?"])[:2]
        what = "input-written" if u == "W" else "different-pointer"
        return "ptr:%s:%s:%s:%s" % (t[2], what, typ, variant.split("/")[0])
    if t[1] == "dflt":
        return "%s-aliased:%s:depth%s" % (t[2], typ, t[3])
    if t[1] == "val":
        # val:<entry>:input-written:<schema type>:<top-level kind of the tree>:<Go type of the first cell that changed>
        kind = how.split(":", 1)[1] if ":" in how else how
        diff = next((x[5:] for x in cm if x.startswith("diff=")), "?")
        return "val:%s:input-written:%s:%s:%s" % (t[2], typ, kind, diff)
    if t[1] == "hist":
        depth = next((x[6:] for x in cm if x.startswith("depth=")), "?")
        iv, ifr, ih = (impl.split("|") + ["", "", ""])[:3]
        sv, sfr, sh = ((S or "").split("|") + ["", "", ""])[:3]
        if iv == sv and ifr == sfr and ih != sh:
            return "%s-look:%s" % (t[2], typ)          # Parse(nil) returned something that does not look like the value
        return "%s-aliased:%s:depth%s" % (t[2], typ, depth)
    return "reparse-changed:" + typ


def describe(op):
    return ("after '#': <Base>.<variant> (harness/storex Bases(); variant = chaining call applied to the base), probe=<index into storex.Probes()>; "
            "ptr: a fresh pointer to the probe value goes through Parse / StrictParse; dflt: <Base>.<Default|Prefault>/<argument variant>, "
            "Parse(nil), deep mutation of the result, Parse(nil) on the schema and on schema.Describe(), mutate, Parse(nil); "
            "val: schema=<generated tree> (harness/cmd/c15/schemas.go) with the by-value input built by storex.GraphGen from seed=<hex> "
            "(the op body after '|' is the input graph: R=map/slice/pointee cell, A=struct/array by value, S=scalar, Z=nil, B=shared cell), "
            "at=<first cell of the input that differs after the call>; hist: <Base>.<Default|Prefault> given the value generated from seed=<hex> "
            "(graph after '|'), steps P = Parse(nil) on a member of the family (schema, derived schemas, a second schema given the same value), "
            "M<j> = deep in-place mutation of the j-th result; observation = <same|CHANGED per later P>|<fresh|ALIASED>|<look of the first result>")


def run(res):
    ok, detail = C.prove(res, MODULES, THEOREMS)
    if not ok:
        C.tie_broken(res, "proof Gozod.Proofs.C15", detail)
    data, err = C.correspond(res, "C15")
    if data is None:
        C.tie_broken(res, "correspondence C15/parse-aliasing", err)
        return res.finish()
    C.decide(res, "C15", data, key, "C15/parse-aliasing", describe=describe)
    res.coverage["rule"] = ("every base schema (every type) and its Optional/Nilable/Nullish/one-check/one-check+Optional variants × every accepted probe "
        "value as a fresh pointer × {Parse, StrictParse}: digest of the input graph (contents+addresses) before/after, result pointer vs input pointer; "
        "every base × {Default, Prefault} × 3 argument variants (flat, nested maps/slices/pointers to depth 4): Parse(nil) – mutate – Parse(nil) on the "
        "schema and a derived one – mutate – Parse(nil); every base × accepted probe: Parse – mutate result – Parse(fresh copy). distinct = distinct op lines.")
    res.assumptions += [
        "the reflective mutator reaches everything a caller could reach through exported maps, slices, pointers and settable struct fields",
        "user callbacks (DefaultFunc/PrefaultFunc results) are the caller's own data and are not required to be copied",
    ]
    return res.finish()
