/-
  C10 — checks run in attachment order; overwrites feed later checks; abort stops them;
        transform runs once after all checks only on success; pipe = sequential composition.

  All theorems are generic in the value type `V` and in the environment interpreting
  predicates, overwrites and transforms, i.e. they hold for every user callback.
-/
import Gozod.Model.Checks

namespace Gozod.C10
open Gozod

variable {P O T V : Type}

/-! ### helper lemmas -/

theorem seenAt_succ (env : Env P O T V) (all : List (Check P O)) (k : Nat) (v : V)
    (c : Check P O) (h : all[k]? = some c) :
    seenAt env all (k + 1) v = stepSeen env c (seenAt env all k v) := by
  induction all generalizing k v with
  | nil => simp at h
  | cons d ds ih =>
    cases k with
    | zero =>
      simp at h; subst h
      cases d with
      | overwrite o => cases ds <;> simp [seenAt, stepSeen]
      | pred p a w => cases ds <;> simp [seenAt, stepSeen]
    | succ k =>
      simp at h
      cases d with
      | overwrite o => simp only [seenAt]; exact ih k _ h
      | pred p a w => simp only [seenAt]; exact ih k _ h

theorem getElem?_mid {α} (pre : List α) (c : α) (cs : List α) :
    (pre ++ c :: cs)[pre.length]? = some c := by simp

/-- Loop invariant of `executeChecks` after `n` checks of `all` have been processed. -/
structure Inv (env : Env P O T V) (all : List (Check P O)) (v0 : V) (n : Nat)
    (val : V) (iss : List Nat) (log : List (Ev V)) : Prop where
  val_eq : val = seenAt env all n v0
  log_ok : ∀ e ∈ log, e.val = seenAt env all e.pos v0 ∧ e.pos < n
  iss_ok : ∀ k ∈ iss, k < n ∧ failsAt env all k v0 = true ∧ abortAt all k = false
  sorted : iss.Pairwise (· < ·)
  none_before : iss = [] → ∀ k, k < n → failsAt env all k v0 = false
  head_least : ∀ k, iss.head? = some k → ∀ j, j < k → failsAt env all j v0 = false

/-- What holds of the result of `executeChecks`. -/
structure Post (env : Env P O T V) (all : List (Check P O)) (v0 : V) (r : Run V) : Prop where
  log_ok : ∀ e ∈ r.log, e.val = seenAt env all e.pos v0
  iss_fail : ∀ k ∈ r.issues, failsAt env all k v0 = true
  sorted : r.issues.Pairwise (· < ·)
  ok_none : r.issues = [] → (∀ k, k < all.length → failsAt env all k v0 = false) ∧
              r.val = seenAt env all all.length v0
  head_least : ∀ k, r.issues.head? = some k → ∀ j, j < k → failsAt env all j v0 = false
  abort_last : ∀ k ∈ r.issues, abortAt all k = true →
              (∀ e ∈ r.log, e.pos ≤ k) ∧ (∀ j ∈ r.issues, j ≤ k)

theorem Inv.toPost {env : Env P O T V} {all v0 val iss log}
    (h : Inv env all v0 all.length val iss log) : Post env all v0 ⟨val, iss, log⟩ where
  log_ok := fun e he => (h.log_ok e he).1
  iss_fail := fun k hk => (h.iss_ok k hk).2.1
  sorted := h.sorted
  ok_none := fun he => ⟨h.none_before he, h.val_eq⟩
  head_least := h.head_least
  abort_last := fun k hk ha => by
    have := (h.iss_ok k hk).2.2; rw [this] at ha; cases ha

private theorem pairwise_snoc {iss : List Nat} {i : Nat} (hs : iss.Pairwise (· < ·))
    (hlt : ∀ k ∈ iss, k < i) : (iss ++ [i]).Pairwise (· < ·) := by
  rw [List.pairwise_append]
  exact ⟨hs, List.pairwise_singleton _ _, fun a ha b hb => by simp at hb; subst hb; exact hlt a ha⟩

private theorem head_snoc {iss : List Nat} {i k : Nat} (h : (iss ++ [i]).head? = some k) :
    (iss = [] ∧ k = i) ∨ iss.head? = some k := by
  cases iss with
  | nil => simp at h; exact Or.inl ⟨rfl, h.symm⟩
  | cons a as => simp at h; exact Or.inr (by simp [h])

/-- Advancing the invariant over a check that neither reports nor changes the value. -/
private theorem Inv.skip {env : Env P O T V} {all v0 n val iss log} {c : Check P O}
    (h : Inv env all v0 n val iss log) (hc : all[n]? = some c)
    (hpred : ∀ o, c ≠ .overwrite o)
    (hnf : iss = [] → failsAt env all n v0 = false)
    (log' : List (Ev V)) (hl : ∀ e ∈ log', e.val = val ∧ e.pos = n) :
    Inv env all v0 (n + 1) val iss (log ++ log') where
  val_eq := by
    rw [seenAt_succ env all n v0 c hc]
    cases c with
    | overwrite o => exact absurd rfl (hpred o)
    | pred p a w => simp only [stepSeen]; exact h.val_eq
  log_ok := fun e he => by
    rcases List.mem_append.mp he with he | he
    · have := h.log_ok e he; exact ⟨this.1, by omega⟩
    · have := hl e he; rw [this.1, this.2]; exact ⟨h.val_eq, by omega⟩
  iss_ok := fun k hk => by have := h.iss_ok k hk; exact ⟨by omega, this.2⟩
  sorted := h.sorted
  none_before := fun he k hk => by
    by_cases hkn : k < n
    · exact h.none_before he k hkn
    · have : k = n := by omega
      subst this; exact hnf he
  head_least := h.head_least

/-- Advancing the invariant over a failing, non-aborting check. -/
private theorem Inv.fail {env : Env P O T V} {all v0 n val iss log} {p : P} {w : Option P}
    (h : Inv env all v0 n val iss log) (hc : all[n]? = some (.pred p false w))
    (hf : failsAt env all n v0 = true)
    (log' : List (Ev V)) (hl : ∀ e ∈ log', e.val = val ∧ e.pos = n) :
    Inv env all v0 (n + 1) val (iss ++ [n]) (log ++ log') where
  val_eq := by rw [seenAt_succ env all n v0 _ hc]; simp only [stepSeen]; exact h.val_eq
  log_ok := fun e he => by
    rcases List.mem_append.mp he with he | he
    · have := h.log_ok e he; exact ⟨this.1, by omega⟩
    · have := hl e he; rw [this.1, this.2]; exact ⟨h.val_eq, by omega⟩
  iss_ok := fun k hk => by
    rcases List.mem_append.mp hk with hk | hk
    · have := h.iss_ok k hk; exact ⟨by omega, this.2⟩
    · simp at hk; subst hk
      exact ⟨by omega, hf, by simp [abortAt, hc]⟩
  sorted := pairwise_snoc h.sorted (fun k hk => (h.iss_ok k hk).1)
  none_before := fun he => by simp at he
  head_least := fun k hk j hj => by
    rcases head_snoc hk with ⟨he, hkn⟩ | hh
    · subst hkn; exact h.none_before he j hj
    · exact h.head_least k hh j hj

/-- Result of stopping at a failing, aborting check. -/
private theorem Inv.abort {env : Env P O T V} {all v0 n val iss log} {p : P} {w : Option P}
    (h : Inv env all v0 n val iss log) (_hc : all[n]? = some (.pred p true w))
    (hf : failsAt env all n v0 = true)
    (log' : List (Ev V)) (hl : ∀ e ∈ log', e.val = val ∧ e.pos = n) :
    Post env all v0 ⟨val, iss ++ [n], log ++ log'⟩ where
  log_ok := fun e he => by
    rcases List.mem_append.mp he with he | he
    · exact (h.log_ok e he).1
    · have := hl e he; rw [this.1, this.2]; exact h.val_eq
  iss_fail := fun k hk => by
    rcases List.mem_append.mp hk with hk | hk
    · exact (h.iss_ok k hk).2.1
    · simp at hk; subst hk; exact hf
  sorted := pairwise_snoc h.sorted (fun k hk => (h.iss_ok k hk).1)
  ok_none := fun he => by simp at he
  head_least := fun k hk j hj => by
    rcases head_snoc hk with ⟨he, hkn⟩ | hh
    · subst hkn; exact h.none_before he j hj
    · exact h.head_least k hh j hj
  abort_last := fun k hk ha => by
    rcases List.mem_append.mp hk with hk | hk
    · have := (h.iss_ok k hk).2.2; rw [this] at ha; cases ha
    · simp at hk; subst hk
      constructor
      · intro e he
        rcases List.mem_append.mp he with he | he
        · have := (h.log_ok e he).2; omega
        · have := (hl e he).2; omega
      · intro j hj
        rcases List.mem_append.mp hj with hj | hj
        · have := (h.iss_ok j hj).1; omega
        · simp at hj; omega

theorem failsAt_of (env : Env P O T V) (all : List (Check P O)) (n : Nat) (v0 : V) (c : Check P O)
    (hc : all[n]? = some c) :
    failsAt env all n v0 = checkFails env c (seenAt env all n v0) := by
  unfold failsAt; rw [hc]

/-- The loop preserves the invariant and ends in `Post`. -/
theorem runFrom_post (env : Env P O T V) (v0 : V) :
    ∀ (cs pre : List (Check P O)) (val : V) (iss : List Nat) (log : List (Ev V)),
      Inv env (pre ++ cs) v0 pre.length val iss log →
      Post env (pre ++ cs) v0 (runFrom env pre.length cs val iss log) := by
  intro cs
  induction cs with
  | nil =>
    intro pre val iss log h
    simp only [runFrom]
    have : (pre ++ ([] : List (Check P O))).length = pre.length := by simp
    exact Inv.toPost (by rw [this]; exact h)
  | cons c cs ih =>
    intro pre val iss log h
    have hmid : (pre ++ c :: cs)[pre.length]? = some c := getElem?_mid pre c cs
    have hall : pre ++ c :: cs = (pre ++ [c]) ++ cs := by simp
    have hlen : (pre ++ [c]).length = pre.length + 1 := by simp
    have hfa := failsAt_of env (pre ++ c :: cs) pre.length v0 c hmid
    cases c with
    | overwrite o =>
      simp only [runFrom]
      have h' : Inv env (pre ++ .overwrite o :: cs) v0 (pre.length + 1) (env.apply o val) iss
          (log ++ [.over pre.length val]) := {
        val_eq := by rw [seenAt_succ env _ pre.length v0 _ hmid]; simp only [stepSeen]; rw [← h.val_eq]
        log_ok := fun e he => by
          rcases List.mem_append.mp he with he | he
          · have := h.log_ok e he; exact ⟨this.1, by omega⟩
          · simp at he; subst he; exact ⟨h.val_eq, by simp [Ev.pos]⟩
        iss_ok := fun k hk => by have := h.iss_ok k hk; exact ⟨by omega, this.2⟩
        sorted := h.sorted
        none_before := fun he k hk => by
          by_cases hkn : k < pre.length
          · exact h.none_before he k hkn
          · have : k = pre.length := by omega
            subst this; rw [hfa]; rfl
        head_least := h.head_least }
      have := ih (pre ++ [.overwrite o]) (env.apply o val) iss (log ++ [.over pre.length val])
        (by rw [← hall, hlen]; exact h')
      rw [← hall, hlen] at this; exact this
    | pred p a w =>
      cases w with
      | none =>
        simp only [runFrom]
        simp only [checkFails] at hfa
        by_cases hp : env.holds p val = true
        · rw [if_pos hp]
          have h' := Inv.skip h hmid (by intro o; simp)
            (fun _ => by rw [hfa, ← h.val_eq, hp]; rfl)
            [.check pre.length val] (by intro e he; simp at he; subst he; exact ⟨rfl, rfl⟩)
          have := ih (pre ++ [.pred p a none]) val iss _ (by rw [← hall, hlen]; exact h')
          rw [← hall, hlen] at this; exact this
        · rw [if_neg hp]
          have hf : failsAt env (pre ++ .pred p a none :: cs) pre.length v0 = true := by
            rw [hfa, ← h.val_eq]; simp at hp; simp [hp]
          cases a with
          | true =>
            simp only [↓reduceIte]
            exact Inv.abort h hmid hf [.check pre.length val]
              (by intro e he; simp at he; subst he; exact ⟨rfl, rfl⟩)
          | false =>
            simp only [Bool.false_eq_true, ↓reduceIte]
            have h' := Inv.fail h hmid hf [.check pre.length val]
              (by intro e he; simp at he; subst he; exact ⟨rfl, rfl⟩)
            have := ih (pre ++ [.pred p false none]) val _ _ (by rw [← hall, hlen]; exact h')
            rw [← hall, hlen] at this; exact this
      | some w =>
        simp only [runFrom]
        simp only [checkFails] at hfa
        by_cases hi : iss ≠ []
        · rw [if_pos hi]
          have h' := Inv.skip h hmid (by intro o; simp) (fun he => absurd he hi) []
            (by intro e he; simp at he)
          simp only [List.append_nil] at h'
          have := ih (pre ++ [.pred p a (some w)]) val iss log (by rw [← hall, hlen]; exact h')
          rw [← hall, hlen] at this; exact this
        · rw [if_neg hi]
          by_cases hw : env.holds w val = false
          · rw [if_pos hw]
            have h' := Inv.skip h hmid (by intro o; simp)
              (fun _ => by rw [hfa, ← h.val_eq, hw]; rfl)
              [.when pre.length val] (by intro e he; simp at he; subst he; exact ⟨rfl, rfl⟩)
            have := ih (pre ++ [.pred p a (some w)]) val iss _ (by rw [← hall, hlen]; exact h')
            rw [← hall, hlen] at this; exact this
          · rw [if_neg hw]
            have hw' : env.holds w val = true := by simpa using hw
            by_cases hp : env.holds p val = true
            · rw [if_pos hp]
              have h' := Inv.skip h hmid (by intro o; simp)
                (fun _ => by rw [hfa, ← h.val_eq, hp]; simp)
                [.when pre.length val, .check pre.length val]
                (by intro e he; simp at he; rcases he with he | he <;> subst he <;> exact ⟨rfl, rfl⟩)
              have := ih (pre ++ [.pred p a (some w)]) val iss _ (by rw [← hall, hlen]; exact h')
              rw [← hall, hlen] at this; exact this
            · rw [if_neg hp]
              have hf : failsAt env (pre ++ .pred p a (some w) :: cs) pre.length v0 = true := by
                rw [hfa, ← h.val_eq]; simp at hp; simp [hp, hw']
              cases a with
              | true =>
                simp only [↓reduceIte]
                exact Inv.abort h hmid hf [.when pre.length val, .check pre.length val]
                  (by intro e he; simp at he; rcases he with he | he <;> subst he <;> exact ⟨rfl, rfl⟩)
              | false =>
                simp only [Bool.false_eq_true, ↓reduceIte]
                have h' := Inv.fail h hmid hf [.when pre.length val, .check pre.length val]
                  (by intro e he; simp at he; rcases he with he | he <;> subst he <;> exact ⟨rfl, rfl⟩)
                have := ih (pre ++ [.pred p false (some w)]) val _ _ (by rw [← hall, hlen]; exact h')
                rw [← hall, hlen] at this; exact this

theorem Inv.init (env : Env P O T V) (cs : List (Check P O)) (v : V) :
    Inv env cs v 0 v [] [] where
  val_eq := by cases cs <;> rfl
  log_ok := fun e he => by simp at he
  iss_ok := fun k hk => by simp at hk
  sorted := List.Pairwise.nil
  none_before := fun _ k hk => by omega
  head_least := fun k hk => by simp at hk

/-- Everything `executeChecks` guarantees, for every check list, input and callbacks. -/
theorem runChecks_post (env : Env P O T V) (cs : List (Check P O)) (v : V) :
    Post env cs v (runChecks env cs v) := by
  have := runFrom_post env v cs [] v [] [] (by simpa using Inv.init env cs v)
  simpa [runChecks] using this

/-! ## The property, clause by clause -/

/-- **Every check sees the value produced by the overwrites attached before it.**
    (Each logged callback invocation — predicate, when-guard or overwrite — received exactly
    the fold of the earlier overwrites over the input.) -/
theorem c10_value_threading (env : Env P O T V) (cs : List (Check P O)) (v : V) :
    ∀ e ∈ (runChecks env cs v).log, e.val = seenAt env cs e.pos v :=
  (runChecks_post env cs v).log_ok

/-- **Issues appear in the order their checks were attached** (strictly increasing positions),
    and every reported issue belongs to a check that really fails on its threaded value. -/
theorem c10_issue_order (env : Env P O T V) (cs : List (Check P O)) (v : V) :
    (runChecks env cs v).issues.Pairwise (· < ·) ∧
    ∀ k ∈ (runChecks env cs v).issues, failsAt env cs k v = true :=
  ⟨(runChecks_post env cs v).sorted, (runChecks_post env cs v).iss_fail⟩

/-- **The first failing check is always among the reported issues** — it is their head. -/
theorem c10_first_failing (env : Env P O T V) (cs : List (Check P O)) (v : V) (k : Nat)
    (hk : failsAt env cs k v = true) (hleast : ∀ j, j < k → failsAt env cs j v = false) :
    (runChecks env cs v).issues.head? = some k := by
  have post := runChecks_post env cs v
  cases hiss : (runChecks env cs v).issues with
  | nil =>
    have hlen : k < cs.length := by
      apply Decidable.byContradiction; intro hc
      have : cs[k]? = none := by simp; omega
      simp [failsAt, this] at hk
    have := (post.ok_none hiss).1 k hlen
    rw [this] at hk; cases hk
  | cons a as =>
    have hh : (runChecks env cs v).issues.head? = some a := by simp [hiss]
    have ha : failsAt env cs a v = true := post.iss_fail a (by simp [hiss])
    have h1 := post.head_least a hh
    simp only [List.head?_cons, Option.some.injEq]
    rcases Nat.lt_trichotomy a k with h | h | h
    · have := hleast a h; rw [this] at ha; cases ha
    · exact h
    · have := h1 k h; rw [this] at hk; cases hk

/-- **Nothing attached after a failure marked abort is evaluated or reported.** -/
theorem c10_abort_stops (env : Env P O T V) (cs : List (Check P O)) (v : V) (k : Nat)
    (hk : k ∈ (runChecks env cs v).issues) (ha : abortAt cs k = true) :
    (∀ e ∈ (runChecks env cs v).log, e.pos ≤ k) ∧ (∀ j ∈ (runChecks env cs v).issues, j ≤ k) :=
  (runChecks_post env cs v).abort_last k hk ha

/-- **Parsing succeeds exactly when no check fails**, and then returns the input threaded
    through all overwrites. -/
theorem c10_ok_iff_no_fail (env : Env P O T V) (cs : List (Check P O)) (v : V) :
    (runChecks env cs v).issues = [] ↔ ∀ k, k < cs.length → failsAt env cs k v = false := by
  have post := runChecks_post env cs v
  constructor
  · intro h; exact (post.ok_none h).1
  · intro h
    cases hiss : (runChecks env cs v).issues with
    | nil => rfl
    | cons a as =>
      have ha : failsAt env cs a v = true := post.iss_fail a (by simp [hiss])
      have hlen : a < cs.length := by
        apply Decidable.byContradiction; intro hc
        have : cs[a]? = none := by simp; omega
        simp [failsAt, this] at ha
      rw [h a hlen] at ha; cases ha

theorem c10_ok_value (env : Env P O T V) (cs : List (Check P O)) (v : V)
    (h : (runChecks env cs v).issues = []) :
    (runChecks env cs v).val = seenAt env cs cs.length v :=
  ((runChecks_post env cs v).ok_none h).2

/-! ### Pointer inputs: the extra pass of `validatePointer` -/

theorem firstPass_mono (env : Env P O T V) (ps : Bool) :
    ∀ (cs : List (Check P O)) (i : Nat) (val : V) (log : List (Ev V)),
      (firstPassFrom env ps i cs val true log).hasIssue = true := by
  intro cs
  induction cs with
  | nil => intro i val log; rfl
  | cons c cs ih =>
    intro i val log
    cases c with
    | overwrite o => simp only [firstPassFrom]; split <;> exact ih _ _ _
    | pred p a w =>
      cases w with
      | none => simp only [firstPassFrom]; split <;> first | rfl | exact ih _ _ _
      | some w => simp only [firstPassFrom, ↓reduceIte]; exact ih _ _ _

/-- If the pass over the pointer ends without an issue, the regular pass reports none either and
    computes the same value: the early return of `validatePointer` is sound. -/
theorem firstPass_early (env : Env P O T V) :
    ∀ (cs : List (Check P O)) (i j : Nat) (val : V) (log : List (Ev V)) (log' : List (Ev V)),
      (firstPassFrom env true i cs val false log).hasIssue = false →
      (runFrom env j cs val [] log').issues = [] ∧
      (runFrom env j cs val [] log').val = (firstPassFrom env true i cs val false log).val := by
  intro cs
  induction cs with
  | nil => intro i j val log log' _; exact ⟨rfl, rfl⟩
  | cons c cs ih =>
    intro i j val log log' h
    cases c with
    | overwrite o =>
      simp only [firstPassFrom, ↓reduceIte] at h ⊢
      simp only [runFrom]
      exact ih _ _ _ _ _ h
    | pred p a w =>
      cases w with
      | none =>
        simp only [firstPassFrom] at h
        cases a with
        | true => simp at h
        | false =>
          simp only [Bool.false_eq_true, ↓reduceIte] at h
          rw [firstPass_mono] at h; cases h
      | some w =>
        simp only [firstPassFrom, Bool.false_eq_true, ↓reduceIte] at h ⊢
        by_cases hw : env.holds w val = false
        · rw [if_pos hw] at h ⊢
          simp only [runFrom, ne_eq, not_true_eq_false, ↓reduceIte, if_pos hw]
          exact ih _ _ _ _ _ h
        · rw [if_neg hw] at h
          cases a with
          | true => simp at h
          | false =>
            simp only [Bool.false_eq_true, ↓reduceIte] at h
            rw [firstPass_mono] at h; cases h

/-- For every combination of schema/input pointer-ness the reported issues and (on success) the
    value are those of the regular pass: the extra pass only adds callback invocations. -/
theorem c10_runOn_issues (env : Env P O T V) (ps pin : Bool) (cs : List (Check P O)) (v : V) :
    (runChecksOn env ps pin cs v).issues = (runChecks env cs v).issues ∧
    ((runChecks env cs v).issues = [] → (runChecksOn env ps pin cs v).val = (runChecks env cs v).val) := by
  unfold runChecksOn
  simp only
  by_cases h1 : (pin && hasOverwrite cs) = true
  · rw [if_pos h1]
    by_cases hr : (runChecks env cs v).issues ≠ []
    · rw [if_pos hr]; exact ⟨rfl, fun _ => rfl⟩
    · rw [if_neg hr]
      have hr' : (runChecks env cs v).issues = [] := Decidable.of_not_not hr
      by_cases h2 : (ps && !(firstPassFrom env ps 0 cs v false []).hasIssue) = true
      · rw [if_pos h2]
        simp only [Bool.and_eq_true, Bool.not_eq_eq_eq_not, Bool.not_true] at h2
        obtain ⟨hps, hfp⟩ := h2
        subst hps
        have := firstPass_early env cs 0 0 v [] [] hfp
        simp only [runChecks] at hr' ⊢
        exact ⟨hr'.symm, fun _ => this.2.symm⟩
      · rw [if_neg h2]; exact ⟨hr'.symm, fun _ => rfl⟩
  · rw [if_neg h1]; exact ⟨rfl, fun _ => rfl⟩

/-- The same for `validatePointer` as it was up to /repo 49e6e91 (extra pass first). -/
theorem c10_legacy_runOn_issues (env : Env P O T V) (ps pin : Bool) (cs : List (Check P O)) (v : V) :
    (legacyRunChecksOn env ps pin cs v).issues = (runChecks env cs v).issues ∧
    ((runChecks env cs v).issues = [] → (legacyRunChecksOn env ps pin cs v).val = (runChecks env cs v).val) := by
  unfold legacyRunChecksOn
  by_cases h1 : (pin && hasOverwrite cs) = true
  · rw [if_pos h1]
    by_cases h2 : (ps && !(firstPassFrom env ps 0 cs v false []).hasIssue) = true
    · rw [if_pos h2]
      simp only [Bool.and_eq_true, Bool.not_eq_eq_eq_not, Bool.not_true] at h2
      obtain ⟨hps, hfp⟩ := h2
      subst hps
      have := firstPass_early env cs 0 0 v [] [] hfp
      simp only [runChecks]
      exact ⟨this.1.symm, fun _ => this.2.symm⟩
    · rw [if_neg h2]; exact ⟨rfl, fun _ => rfl⟩
  · rw [if_neg h1]; exact ⟨rfl, fun _ => rfl⟩

/-- **Parsing succeeds exactly when no check fails** — for value and pointer schemas, value and
    pointer inputs. -/
theorem c10_runOn_ok_iff (env : Env P O T V) (ps pin : Bool) (cs : List (Check P O)) (v : V) :
    (runChecksOn env ps pin cs v).issues = [] ↔ ∀ k, k < cs.length → failsAt env cs k v = false := by
  rw [(c10_runOn_issues env ps pin cs v).1]; exact c10_ok_iff_no_fail env cs v

/-- The full statement about value threading, over the *whole* log including the extra pass. -/
def c10_value_threading_full (env : Env P O T V) : Prop :=
  ∀ (ps pin : Bool) (cs : List (Check P O)) (v : V),
    ∀ e ∈ (runChecksOn env ps pin cs v).log, e.val = seenAt env cs e.pos v

/-- The full statement about abort, over the whole log including the extra pass. -/
def c10_abort_stops_full (env : Env P O T V) : Prop :=
  ∀ (ps pin : Bool) (cs : List (Check P O)) (v : V) (k : Nat),
    k ∈ (runChecksOn env ps pin cs v).issues → abortAt cs k = true →
    ∀ e ∈ (runChecksOn env ps pin cs v).log, e.pos ≤ k

/-- Proved part: whenever the extra pass does not run (value inputs, or no overwrite attached). -/
theorem c10_value_threading_partial (env : Env P O T V) (ps pin : Bool) (cs : List (Check P O)) (v : V)
    (h : (pin && hasOverwrite cs) = false) :
    ∀ e ∈ (runChecksOn env ps pin cs v).log, e.val = seenAt env cs e.pos v := by
  unfold runChecksOn; rw [h]; simp only [Bool.false_eq_true, ↓reduceIte]
  exact c10_value_threading env cs v

theorem c10_abort_stops_partial (env : Env P O T V) (ps pin : Bool) (cs : List (Check P O)) (v : V) (k : Nat)
    (h : (pin && hasOverwrite cs) = false)
    (hk : k ∈ (runChecksOn env ps pin cs v).issues) (ha : abortAt cs k = true) :
    ∀ e ∈ (runChecksOn env ps pin cs v).log, e.pos ≤ k := by
  unfold runChecksOn at hk ⊢; rw [h] at hk ⊢; simp only [Bool.false_eq_true, ↓reduceIte] at hk ⊢
  exact (c10_abort_stops env cs v k hk ha).1

/-- **Abort, over the whole log, every input** (full since /repo 49e6e91): a rejected input has run
    the regular pass only, so nothing attached after an aborting failure is evaluated — also for
    pointer inputs with overwrites attached. -/
theorem c10_abort_stops_all (env : Env P O T V) : c10_abort_stops_full env := by
  intro ps pin cs v k hk ha
  have hi : (runChecksOn env ps pin cs v).issues = (runChecks env cs v).issues := (c10_runOn_issues env ps pin cs v).1
  have hne : (runChecks env cs v).issues ≠ [] := by
    rw [← hi]; intro h0; rw [h0] at hk; cases hk
  have hrun : runChecksOn env ps pin cs v = runChecks env cs v := by
    unfold runChecksOn
    simp only
    by_cases h1 : (pin && hasOverwrite cs) = true
    · rw [if_pos h1, if_pos hne]
    · rw [if_neg h1]
  rw [hrun] at hk ⊢
  exact (c10_abort_stops env cs v k hk ha).1

/-- The abort statement for `validatePointer` as it was up to /repo 49e6e91. -/
def c10_legacy_abort_stops_full (env : Env P O T V) : Prop :=
  ∀ (ps pin : Bool) (cs : List (Check P O)) (v : V) (k : Nat),
    k ∈ (legacyRunChecksOn env ps pin cs v).issues → abortAt cs k = true →
    ∀ e ∈ (legacyRunChecksOn env ps pin cs v).log, e.pos ≤ k

/-! ### Transform and Pipe -/

/-- **A Transform runs once, after everything in its source, and only on success.**
    On success the log of `transform src i t` is the source's log followed by exactly one
    invocation of the transform on the source's result; on failure it is the source's log
    (the transform is never invoked). -/
theorem c10_transform_once (env : Env P O T V) (src : Pipeline P O T) (i : Nat) (t : T) (v : V) (pin : Bool) :
    (∀ x, (parsePipeline env src v pin).out = .ok x →
        (parsePipeline env (.transform src i t) v pin).out = .ok (env.trans t x) ∧
        (parsePipeline env (.transform src i t) v pin).log = (parsePipeline env src v pin).log ++ [.tr i x]) ∧
    (∀ e, (parsePipeline env src v pin).out = .error e →
        (parsePipeline env (.transform src i t) v pin).out = .error e ∧
        (parsePipeline env (.transform src i t) v pin).log = (parsePipeline env src v pin).log) := by
  constructor
  · intro x hx; simp [parsePipeline, hx]
  · intro e he; simp [parsePipeline, he]

/-- **A Pipe hands the first schema's result to the second and succeeds exactly when both do.** -/
theorem c10_pipe (env : Env P O T V) (a b : Pipeline P O T) (v : V) (pin : Bool) :
    (parsePipeline env (.pipe a b) v pin).out =
      (match (parsePipeline env a v pin).out with
       | .ok x => (parsePipeline env b x (parsePipeline env a v pin).isPtr).out
       | .error e => .error e) := by
  simp only [parsePipeline]
  cases (parsePipeline env a v pin).out <;> rfl

theorem c10_pipe_ok_iff (env : Env P O T V) (a b : Pipeline P O T) (v : V) (pin : Bool) (y : V) :
    (parsePipeline env (.pipe a b) v pin).out = .ok y ↔
      ∃ x, (parsePipeline env a v pin).out = .ok x ∧
           (parsePipeline env b x (parsePipeline env a v pin).isPtr).out = .ok y := by
  rw [c10_pipe]
  cases h : (parsePipeline env a v pin).out with
  | ok x => simp
  | error e => simp

/-- A base schema succeeds exactly when no check fails (the pipeline-level reading), and then
    returns the input threaded through all its overwrites. -/
theorem c10_base_ok_iff (env : Env P O T V) (tag : Nat) (ps pin : Bool) (cs : List (Check P O)) (v : V) :
    (∃ x, (parsePipeline env (.base tag ps cs) v pin).out = .ok x) ↔
      ∀ k, k < cs.length → failsAt env cs k v = false := by
  rw [← c10_runOn_ok_iff env ps pin]
  simp only [parsePipeline]
  by_cases h : (runChecksOn env ps pin cs v).issues = [] <;> simp [h]

theorem c10_base_ok_value (env : Env P O T V) (tag : Nat) (ps pin : Bool) (cs : List (Check P O)) (v x : V)
    (h : (parsePipeline env (.base tag ps cs) v pin).out = .ok x) : x = seenAt env cs cs.length v := by
  simp only [parsePipeline] at h
  by_cases hi : (runChecksOn env ps pin cs v).issues = []
  · rw [if_pos hi] at h
    have h2 := c10_runOn_issues env ps pin cs v
    rw [h2.1] at hi
    have := c10_ok_value env cs v hi
    injection h with h; rw [← h, h2.2 hi, this]
  · rw [if_neg hi] at h; cases h

/-! ### non-vacuity: a concrete run exercising overwrite threading, when, abort -/

private def demoEnv : Env Nat Nat Nat Nat where
  holds := fun p v => v ≥ p         -- predicate p: "value ≥ p"
  apply := fun o v => v + o         -- overwrite o: "add o"
  trans := fun t v => v * t

example :
    let cs : List (Check Nat Nat) :=
      [.pred 5 false none, .overwrite 10, .pred 12 false none, .pred 100 true none, .pred 0 false none]
    (runChecks demoEnv cs 3).issues = [0, 3] ∧
    failsAt demoEnv cs 0 3 = true ∧ failsAt demoEnv cs 2 3 = false ∧
    abortAt cs 3 = true ∧ seenAt demoEnv cs 2 3 = 13 := by decide

/-! #### the hypotheses of the main theorems are inhabited (one non-trivial instance beside each) -/

private def demoChain : List (Check Nat Nat) :=
  [.pred 5 false none, .overwrite 10, .pred 12 false none, .pred 100 true none, .pred 0 false none]

-- `c10_first_failing`: check 0 fails on 3 and nothing before it does; it heads the report
example : failsAt demoEnv demoChain 0 3 = true ∧ (∀ j, j < 0 → failsAt demoEnv demoChain j 3 = false) ∧
    (runChecks demoEnv demoChain 3).issues.head? = some 0 :=
  ⟨by decide, fun j h => absurd h (Nat.not_lt_zero j), by decide⟩

-- `c10_first_failing` with a non-zero least failing position (an overwrite and a passing check before it)
example : failsAt demoEnv demoChain 3 7 = true ∧ failsAt demoEnv demoChain 0 7 = false ∧ failsAt demoEnv demoChain 2 7 = false ∧
    (runChecks demoEnv demoChain 7).issues.head? = some 3 := by decide

-- `c10_abort_stops`: check 3 is reported, carries abort, and nothing after it is evaluated or reported
example : 3 ∈ (runChecks demoEnv demoChain 3).issues ∧ abortAt demoChain 3 = true ∧
    (runChecks demoEnv demoChain 3).log.all (fun e => e.pos ≤ 3) = true ∧ (runChecks demoEnv demoChain 3).issues = [0, 3] := by decide

-- `c10_ok_iff_no_fail` / `c10_ok_value`: a chain with an overwrite that accepts, and the value it returns
example : (runChecks demoEnv [.pred 5 false none, .overwrite 10, .pred 12 false none] 7).issues = [] ∧
    (runChecks demoEnv [.pred 5 false none, .overwrite 10, .pred 12 false none] 7).val = 17 ∧
    seenAt demoEnv [.pred 5 false none, .overwrite 10, .pred 12 false none] 3 7 = 17 := by decide

-- `c10_value_threading`: the check after the overwrite is evaluated on the overwritten value
example : Ev.check 2 17 ∈ (runChecks demoEnv [.pred 5 false none, .overwrite 10, .pred 12 false none] 7).log := by decide

-- a when-guard that is false: the check is skipped and does not fail (`checkFails`)
example : failsAt demoEnv [.pred 100 false (some 50)] 0 7 = false ∧ (runChecks demoEnv [.pred 100 false (some 50)] 7).issues = [] := by decide

-- `c10_runOn_ok_iff` / `c10_abort_stops_all`: pointer input of a pointer schema with an overwrite attached
example : (runChecksOn demoEnv true true [.overwrite 10, .pred 12 false none] 7).issues = [] ∧
    (runChecksOn demoEnv true true [.overwrite 10, .pred 12 true none, .overwrite 1] 1).issues = [1] ∧
    (runChecksOn demoEnv true true [.overwrite 10, .pred 12 true none, .overwrite 1] 1).log.all (fun e => e.pos ≤ 1) = true := by decide

-- `c10_transform_once`: success → exactly one invocation, after the checks; failure → none
example : (parsePipeline demoEnv (.transform (.base 0 false [.pred 5 false none]) 1 3) 7 false).log =
      [.chk 0 (.check 0 7), .tr 1 7] ∧
    (match (parsePipeline demoEnv (.transform (.base 0 false [.pred 5 false none]) 1 3) 7 false).out with | .ok x => x = 21 | _ => False) ∧
    (parsePipeline demoEnv (.transform (.base 0 false [.pred 5 false none]) 1 3) 2 false).log = [.chk 0 (.check 0 2)] := by
  refine ⟨by decide, ?_, by decide⟩
  show (21 : Nat) = 21
  rfl

-- `c10_pipe_ok_iff`: both stages accept / the second rejects what the first hands on
example : (match (parsePipeline demoEnv (.pipe (.base 0 false [.overwrite 10]) (.base 1 false [.pred 15 false none])) 7 false).out with
      | .ok x => x = 17 | _ => False) ∧
    (match (parsePipeline demoEnv (.pipe (.base 0 false [.overwrite 10]) (.base 1 false [.pred 15 false none])) 2 false).out with
      | .error e => e = (1, [0]) | _ => False) := by
  constructor
  · show (17 : Nat) = 17; rfl
  · show ((1, [0]) : Nat × List Nat) = (1, [0]); rfl

/-- **Witness (known finding).** With a pointer input and an overwrite attached, the extra pass of
    `validatePointer` (run after an accepting regular pass) evaluates a when-guard on a value that has
    *not* gone through the overwrite attached before it. -/
theorem c10_first_pass_witness : ¬ c10_value_threading_full demoEnv := by
  intro h
  -- value schema, pointer input: [overwrite(+10), pred(≥0) when(≥0)] on 3: the guard of check 1 sees 3, not 13
  have := h false true [.overwrite 10, .pred 0 false (some 0)] 3 (.when 1 3) (by decide)
  revert this; decide

/-- **Witness for the code up to /repo 49e6e91** (repaired there): with the extra pass first, an
    overwrite attached after an aborting failure was invoked. -/
theorem c10_legacy_first_pass_witness : ¬ c10_legacy_abort_stops_full demoEnv := by
  intro h
  -- pointer schema, pointer input: [pred(≥0), pred(≥5) abort when(≥0), overwrite(+1)] on 3:
  -- the pass over the pointer "fails" check 0, therefore skips the guarded check 1 and invokes
  -- overwrite 2; the regular pass then fails check 1 with abort.
  have := h true true [.pred 0 false none, .pred 5 true (some 0), .overwrite 1] 3 1
    (by decide) (by decide) (.over 2 3) (by decide)
  revert this; decide

end Gozod.C10
