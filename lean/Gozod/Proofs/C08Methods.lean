/-
  C08 over the WHOLE regenerated method table (`Gen/MethodOps.lean`, written by harness/opsgen from the library's
  working tree on every run).

    c08x_step / c08x_hist / c08x_hist_all   the frame theorems of Proofs/C08.lean for the extended op classes
                                             (`refilter`, `access`)
    table_classified / table_all_covered     `decide +kernel`: EVERY row of the table is covered (or only fills a sync.Once
                                             cache: class memo) — a method that stops cloning, writes its receiver, returns
                                             it after a registry write (legacy class metaSelf), or is built in a way the
                                             translator cannot follow makes these theorems fail, and the failing rows aim
                                             the history search
    denote_ok                                every covered row denotes, for all run-time parameters, an op `c08x_step` covers
    c08_table_step / c08_table_hist_all      the property for every history made of covered rows of the table
    metaSelf_row_violates                    every metaSelf row falsifies the full statement (the result IS the receiver)
    c08n_step                                any number of type-local reference slots, for the slot actions the rows allow
    slots_of_covered                         every origin listed by a covered row has a slot action
-/
import Gozod.Proofs.C08
import Gozod.Model.StoreC08
import Gozod.Gen.MethodOps

namespace Gozod.C08
open Gozod.Store Gozod.StoreC08

/-! ### extended op classes -/

def _root_.Gozod.StoreC08.XOp.ok : XOp → Prop
  | .base op => Op.ok op ∧ op.isMetaSelf = false
  | .refilter _ kept spare _ => kept = [] → spare = 0      -- `make([]ZodCheck, 0, len(cs))` of an EMPTY slice has cap 0
  | .access => True

instance (x : XOp) : Decidable x.ok := by
  cases x <;> simp only [XOp.ok] <;> infer_instance

theorem applyRefilter_spec (cfg : Cfg) (hcfg : cfg.cloneBagAlways = true) (σ : Store) (recv : Schema)
    (fl : Nat) (kept : List Nat) (spare : Nat) (m : Option Nat) (hc : BagClosed σ) (hw : WfS σ recv)
    (hk : kept = [] → spare = 0) :
    ExtFrom σ.next σ (applyRefilter cfg σ recv fl kept spare m).1 ∧ BagClosed (applyRefilter cfg σ recv fl kept spare m).1 ∧
    WfS (applyRefilter cfg σ recv fl kept spare m).1 (applyRefilter cfg σ recv fl kept spare m).2 ∧
    σ.next ≤ (applyRefilter cfg σ recv fl kept spare m).2.self := by
  have hd := dirOk_of_wfs hw
  simp only [applyRefilter]
  obtain ⟨t1, d1, _, _⟩ := clone_spec cfg hcfg σ.next σ recv (Nat.le_refl _) hd hw.2
  have n1 := t1.1.1
  have t2 := T_alloc σ.next (clone cfg σ recv).1 (.arr (kept ++ List.replicate spare 0)) n1 (fun _ => cellOk_arr _ _)
  have n2 : (clone cfg σ recv).1.next ≤ (alloc (clone cfg σ recv).1 (.arr (kept ++ List.replicate spare 0))).1.next := t2.1.1
  have d2 : DirOk (alloc (clone cfg σ recv).1 (.arr (kept ++ List.replicate spare 0))).1.next
      (Schema.mk (clone cfg σ recv).2.self (clone cfg σ recv).2.kind fl
        ⟨(alloc (clone cfg σ recv).1 (.arr (kept ++ List.replicate spare 0))).2, kept.length, kept.length + spare⟩
        (clone cfg σ recv).2.bag (clone cfg σ recv).2.values (clone cfg σ recv).2.shape (clone cfg σ recv).2.dflt) :=
    ⟨(d1.mono n2).self, by simp [alloc], (d1.mono n2).bag, (d1.mono n2).values, (d1.mono n2).shape, (d1.mono n2).dflt⟩
  obtain ⟨t3, d3, s3, k3⟩ := withInternals_spec σ.next _ recv _ m (Nat.le_trans n1 n2) d2
  have tt := t1.trans (t2.trans t3)
  refine ⟨tt.1, tt.2 hc, wfs_of_direct _ (tt.2 hc) _ (direct_of_dirOk d3) ?_, ?_⟩
  · rw [k3]
    intro h
    simp only [List.length_eq_zero_iff] at h
    simp [hk h, h]
  · rw [s3]; exact Nat.le_trans n1 n2

/-- One call of any extended op class: nothing allocated before the call is written; a chaining op's result is new. -/
theorem applyXOp_spec (cfg : Cfg) (hcfg : cfg.cloneBagAlways = true) (σ : Store) (recv : Schema) (x : XOp)
    (hc : BagClosed σ) (hw : WfS σ recv) (hok : x.ok) :
    ExtFrom σ.next σ (applyXOp cfg σ recv x).1 ∧ BagClosed (applyXOp cfg σ recv x).1 ∧
    WfS (applyXOp cfg σ recv x).1 (applyXOp cfg σ recv x).2 ∧
    (x.chains = true → σ.next ≤ (applyXOp cfg σ recv x).2.self) := by
  cases x with
  | base op =>
    obtain ⟨a, b, c, d⟩ := applyOp_spec cfg hcfg σ recv op hc hw hok.1 hok.2
    exact ⟨a, b, c, fun _ => d⟩
  | refilter fl kept spare m =>
    obtain ⟨a, b, c, d⟩ := applyRefilter_spec cfg hcfg σ recv fl kept spare m hc hw hok
    exact ⟨a, b, c, fun _ => d⟩
  | access => exact ⟨ExtFrom.refl _ _, hc, hw, fun h => by simp [XOp.chains] at h⟩

/-- C08 for one call of an extended op: every live schema keeps its observation; a chaining call's result is distinct
    from every live schema. -/
def XStepOK (cfg : Cfg) (σ : Store) (live : List Schema) (recv : Schema) (x : XOp) : Prop :=
  (x.chains = true → ∀ s ∈ live, (applyXOp cfg σ recv x).2.self ≠ s.self) ∧
  (∀ s ∈ live, obs (applyXOp cfg σ recv x).1.heap s = obs σ.heap s)

theorem c08x_step (cfg : Cfg) (hcfg : cfg.cloneBagAlways = true) (σ : Store) (live : List Schema)
    (recv : Schema) (x : XOp) (hi : Inv σ live) (hr : recv ∈ live) (hok : x.ok) :
    Inv (applyXOp cfg σ recv x).1 (live ++ [(applyXOp cfg σ recv x).2]) ∧ XStepOK cfg σ live recv x := by
  obtain ⟨he, hc, hw, hs⟩ := applyXOp_spec cfg hcfg σ recv x hi.closed (hi.wf recv hr) hok
  refine ⟨⟨hc, ?_⟩, ?_, ?_⟩
  · intro s hs'
    simp only [List.mem_append, List.mem_singleton] at hs'
    rcases hs' with h | rfl
    · exact wfs_frame s (hi.wf s h) he
    · exact hw
  · intro hch s hs' e
    have : s.self < σ.next := (hi.wf s hs').1 _ (by simp [locs, direct])
    have h2 := hs hch
    rw [e] at h2
    exact Nat.not_le_of_lt this h2
  · intro s hs'
    exact obs_frame s (hi.wf s hs') he

def runXHist (cfg : Cfg) : Store → List Schema → List (Nat × XOp) → Store × List Schema
  | σ, live, [] => (σ, live)
  | σ, live, (i, x) :: rest =>
    match live[i]? with
    | none => runXHist cfg σ live rest
    | some recv =>
      let r := applyXOp cfg σ recv x
      runXHist cfg r.1 (live ++ [r.2]) rest

def xopsOK (ops : List (Nat × XOp)) : Prop := ∀ p ∈ ops, p.2.ok

theorem c08x_hist (cfg : Cfg) (hcfg : cfg.cloneBagAlways = true) (ops : List (Nat × XOp)) :
    ∀ (σ : Store) (live : List Schema), Inv σ live → xopsOK ops →
    Inv (runXHist cfg σ live ops).1 (runXHist cfg σ live ops).2 ∧
    live <+: (runXHist cfg σ live ops).2 ∧
    ∀ s ∈ live, obs (runXHist cfg σ live ops).1.heap s = obs σ.heap s := by
  induction ops with
  | nil => intro σ live hi _; exact ⟨hi, List.prefix_refl _, fun _ _ => rfl⟩
  | cons p rest ih =>
    intro σ live hi hok
    obtain ⟨i, x⟩ := p
    have hrest : xopsOK rest := fun q hq => hok q (List.mem_cons_of_mem _ hq)
    simp only [runXHist]
    cases hl : live[i]? with
    | none => exact ih σ live hi hrest
    | some recv =>
      have hr : recv ∈ live := List.mem_of_getElem? hl
      obtain ⟨hi', _, hobs⟩ := c08x_step cfg hcfg σ live recv x hi hr (hok (i, x) (List.mem_cons_self ..))
      obtain ⟨hi2, hp2, ho2⟩ := ih _ _ hi' hrest
      refine ⟨hi2, List.IsPrefix.trans (List.prefix_append _ _) hp2, fun s hs => ?_⟩
      rw [ho2 s (List.mem_append_left _ hs), hobs s hs]

theorem runXHist_append (cfg : Cfg) (a b : List (Nat × XOp)) : ∀ (σ : Store) (live : List Schema),
    runXHist cfg σ live (a ++ b) = runXHist cfg (runXHist cfg σ live a).1 (runXHist cfg σ live a).2 b := by
  induction a with
  | nil => intro σ live; rfl
  | cons p rest ih =>
    intro σ live
    obtain ⟨i, x⟩ := p
    simp only [List.cons_append, runXHist]
    cases live[i]? with
    | none => exact ih σ live
    | some recv => exact ih _ _

theorem c08x_hist_all (cfg : Cfg) (hcfg : cfg.cloneBagAlways = true) (a b : List (Nat × XOp))
    (σ : Store) (live : List Schema) (hi : Inv σ live) (ha : xopsOK a) (hb : xopsOK b) :
    ∀ s ∈ (runXHist cfg σ live a).2,
      obs (runXHist cfg σ live (a ++ b)).1.heap s = obs (runXHist cfg σ live a).1.heap s := by
  rw [runXHist_append]
  obtain ⟨hi1, _, _⟩ := c08x_hist cfg hcfg a σ live hi ha
  exact (c08x_hist cfg hcfg b _ _ hi1 hb).2.2

/-! ### the regenerated table -/

/-- **table_classified**: every row of the table regenerated from the library's source is covered, or is one of the
    two listed exception classes.  (`decide +kernel` over all rows.) -/
theorem table_classified : Gozod.Gen.methodOps.all (fun r => r.cls != .bad) = true := by decide +kernel

/-- **table_all_covered** (since /repo 6ba76b8, which made `Meta()` clone): NO row of the table is of the legacy class
    `metaSelf` — every chaining method of every schema type is covered (or only fills a sync.Once cache).  Together with
    `c08_table_hist_all` this is the property at full strength over the whole method surface. -/
theorem table_all_covered : Gozod.Gen.methodOps.all (fun r => r.cls == .covered || r.cls == .memo) = true := by decide +kernel

/-- the table is not empty, and it does contain covered rows, metaSelf rows and memo rows (non-vacuity) -/
theorem table_nonvacuous :
    (Gozod.Gen.methodOps.any (fun r => r.cls == .covered)) = true ∧ 1000 ≤ Gozod.Gen.methodOps.length := by decide +kernel

theorem rebuild_cap_ok (cks : List Nat) (cap : Nat) :
    cks = [] → (if cks.isEmpty then 0 else max cap cks.length) = 0 := by
  intro h; simp [h]

/-- **denote_ok**: for all run-time parameters, a covered result-row denotes an op that `c08x_step` covers. -/
theorem denote_ok (r : MethodResult) (hcov : r.covered false = true) (p : Params) : (r.denote false p).ok := by
  unfold MethodResult.covered at hcov
  simp only [Bool.and_eq_true] at hcov
  obtain ⟨_, hroute⟩ := hcov
  unfold MethodResult.denote
  cases hr : r.route <;> simp only [hr] at hroute ⊢
  · -- clone
    by_cases h1 : r.refilter = true
    · -- the re-made slice: `kept` and `spare` are run-time parameters; the side condition is about them
      simp only [h1, if_true]
      intro h; simp [h]
    · simp only [h1]
      by_cases h2 : r.bag = true
      · simp only [h2, if_true]; exact ⟨trivial, rfl⟩
      · simp only [h2]; exact ⟨trivial, rfl⟩
  · exact ⟨trivial, rfl⟩
  · simp at hroute
  · simp only [Bool.false_eq_true, if_false]; trivial
  · exact ⟨rebuild_cap_ok _ _, rfl⟩
  · exact ⟨rebuild_cap_ok _ _, rfl⟩
  · trivial
  · trivial
  · simp at hroute

/-- A call through the table: a covered row, one of its possible results, and the run-time parameters. -/
structure TCall where
  row : MethodRow
  res : MethodResult
  p : Params

def TCall.ok (tbl : List MethodRow) (c : TCall) : Prop :=
  c.row ∈ tbl ∧ (c.row.cls = .covered ∨ c.row.cls = .memo) ∧ c.res ∈ c.row.results

def TCall.xop (c : TCall) : XOp := c.res.denote false c.p

theorem covered_results (r : MethodRow) (h : r.cls = .covered ∨ r.cls = .memo) :
    ∀ x ∈ r.results, x.covered false = true := by
  unfold MethodRow.cls at h
  by_cases h1 : r.isMetaSelf = true
  · simp [h1] at h
  · simp only [h1, Bool.false_eq_true, if_false] at h
    by_cases h2 : (!r.unknown.isEmpty || r.regRecv || r.results.isEmpty || !r.checkCalls.isEmpty) = true
    · simp [h2] at h
    · simp only [h2, Bool.false_eq_true, if_false] at h
      by_cases h3 : (!(r.results.all (fun x => x.covered false))) = true
      · simp [h3] at h
      · simp only [Bool.not_eq_true', Bool.not_eq_false] at h3
        intro x hx
        exact (List.all_eq_true.mp h3) x hx

/-- **c08_table_step**: for EVERY covered (or memo) row of the regenerated table, every one of its possible results and all
    run-time parameters, the call leaves every live schema's observation as it was, and a chaining result is new. -/
theorem c08_table_step (cfg : Cfg) (hcfg : cfg.cloneBagAlways = true) (σ : Store) (live : List Schema)
    (recv : Schema) (c : TCall) (hi : Inv σ live) (hr : recv ∈ live) (hc : c.ok Gozod.Gen.methodOps) :
    Inv (applyXOp cfg σ recv c.xop).1 (live ++ [(applyXOp cfg σ recv c.xop).2]) ∧ XStepOK cfg σ live recv c.xop :=
  c08x_step cfg hcfg σ live recv c.xop hi hr (denote_ok c.res (covered_results c.row hc.2.1 c.res hc.2.2) c.p)

/-- **c08_table_hist_all**: along every history whose calls are covered rows of the table — any receivers, sibling
    fan-outs, lengths, parameters, any growth rule of `append` — whatever was live after any prefix is unchanged by the rest. -/
theorem c08_table_hist_all (cfg : Cfg) (hcfg : cfg.cloneBagAlways = true) (a b : List (Nat × TCall))
    (σ : Store) (live : List Schema) (hi : Inv σ live)
    (ha : ∀ q ∈ a, q.2.ok Gozod.Gen.methodOps) (hb : ∀ q ∈ b, q.2.ok Gozod.Gen.methodOps) :
    ∀ s ∈ (runXHist cfg σ live (a.map (fun q => (q.1, q.2.xop)))).2,
      obs (runXHist cfg σ live ((a ++ b).map (fun q => (q.1, q.2.xop)))).1.heap s
        = obs (runXHist cfg σ live (a.map (fun q => (q.1, q.2.xop)))).1.heap s := by
  rw [List.map_append]
  have ok : ∀ (l : List (Nat × TCall)), (∀ q ∈ l, q.2.ok Gozod.Gen.methodOps) → xopsOK (l.map (fun q => (q.1, q.2.xop))) := by
    intro l hl p hp
    simp only [List.mem_map] at hp
    obtain ⟨q, hq, rfl⟩ := hp
    exact denote_ok q.2.res (covered_results q.2.row (hl q hq).2.1 q.2.res (hl q hq).2.2) q.2.p
  exact c08x_hist_all cfg hcfg _ _ σ live hi (ok a ha) (ok b hb)

/-- non-vacuity: the table has a covered row with a result (the hypotheses of `c08_table_step` are inhabited) -/
theorem tcall_inhabited : ∃ r ∈ Gozod.Gen.methodOps, r.cls = .covered ∧ r.results ≠ [] := by
  have h : (Gozod.Gen.methodOps.any (fun r => r.cls == .covered && !r.results.isEmpty)) = true := by decide +kernel
  obtain ⟨r, hr, hc⟩ := List.any_eq_true.mp h
  simp only [Bool.and_eq_true, beq_iff_eq, Bool.not_eq_true', List.isEmpty_eq_false_iff] at hc
  exact ⟨r, hr, hc.1, hc.2⟩

/-- **metaSelf_row_violates**: a metaSelf row (`GlobalRegistry.Add(z, meta); return z`) falsifies the full statement for
    every store, every receiver and every metadata value: the result IS the receiver. -/
theorem metaSelf_row_violates (cfg : Cfg) (σ : Store) (live : List Schema) (recv : Schema) (hr : recv ∈ live)
    (x : MethodResult) (hx : x.route = .self) (p : Params) :
    ¬ XStepOK cfg σ live recv (x.denote true p) := by
  intro h
  have hd : x.denote true p = .base (.metaSelf p.regv) := by simp [MethodResult.denote, hx]
  rw [hd] at h
  exact h.1 rfl recv hr rfl

/-- every row classified metaSelf has exactly that shape -/
theorem metaSelf_rows_shape (r : MethodRow) (h : r.isMetaSelf = true) :
    r.regRecv = true ∧ ∃ x, r.results = [x] ∧ x.route = .self := by
  unfold MethodRow.isMetaSelf at h
  simp only [Bool.and_eq_true] at h
  obtain ⟨⟨⟨h1, _⟩, _⟩, h4⟩ := h
  refine ⟨h1, ?_⟩
  match hres : r.results with
  | [] => simp [hres] at h4
  | [x] =>
    refine ⟨x, rfl, ?_⟩
    simp only [hres] at h4
    cases hx : x.route <;> simp [hx] at h4 ⊢
  | _ :: _ :: _ => simp [hres] at h4

/-! ### any number of type-local reference slots -/

def WfN (σ : Store) (x : NSchema) : Prop := WfS σ x.s ∧ ∀ o ∈ x.slots, ∀ l ∈ optLoc o, l < σ.next

theorem slots_frame {σ σ' : Store} (slots : List (Option Loc)) (hw : ∀ o ∈ slots, ∀ l ∈ optLoc o, l < σ.next)
    (he : ExtFrom σ.next σ σ') : slots.map (readVals σ'.heap) = slots.map (readVals σ.heap) := by
  apply List.map_congr_left
  intro o ho
  exact readVals_congr o (fun l hl => he.2 l (hw o ho l hl))

/-- **obsN_frame** -/
theorem obsN_frame {σ σ' : Store} (x : NSchema) (hw : WfN σ x) (he : ExtFrom σ.next σ σ') :
    obsN σ'.heap x = obsN σ.heap x := by
  simp only [obsN, obs_frame x.s hw.1 he, slots_frame x.slots hw.2 he]

theorem wfn_frame {σ σ' : Store} (x : NSchema) (hw : WfN σ x) (he : ExtFrom σ.next σ σ') : WfN σ' x :=
  ⟨wfs_frame x.s hw.1 he, fun o ho l hl => Nat.lt_of_lt_of_le (hw.2 o ho l hl) he.1⟩

theorem applySlot_spec (n : Nat) (σ : Store) (old : Option Loc) (a : SlotAct) (hn : n ≤ σ.next)
    (hold : ∀ l ∈ optLoc old, l < σ.next) (hc : BagClosed σ) :
    ExtFrom n σ (applySlot σ old a).1 ∧ BagClosed (applySlot σ old a).1 ∧
    (∀ l ∈ optLoc (applySlot σ old a).2, l < (applySlot σ old a).1.next) := by
  cases a with
  | share => exact ⟨ExtFrom.refl _ _, hc, hold⟩
  | drop => exact ⟨ExtFrom.refl _ _, hc, by simp [applySlot, optLoc]⟩
  | fresh c =>
    refine ⟨alloc_ext n σ _ hn, bagClosed_alloc σ _ hc (cellOk_vals _ _), ?_⟩
    intro l hl
    simp only [applySlot, optLoc, List.mem_singleton] at hl
    subst hl
    simp [applySlot, alloc]

theorem applySlots_spec (n : Nat) (acts : List SlotAct) : ∀ (σ : Store) (olds : List (Option Loc)), n ≤ σ.next →
    (∀ o ∈ olds, ∀ l ∈ optLoc o, l < σ.next) → BagClosed σ →
    ExtFrom n σ (applySlots σ olds acts).1 ∧ BagClosed (applySlots σ olds acts).1 ∧
    (∀ o ∈ (applySlots σ olds acts).2, ∀ l ∈ optLoc o, l < (applySlots σ olds acts).1.next) := by
  induction acts with
  | nil => intro σ olds _ _ hc; exact ⟨ExtFrom.refl _ _, hc, by simp [applySlots]⟩
  | cons a as ih =>
    intro σ olds hn hold hc
    have hh : ∀ l ∈ optLoc olds.head?.join, l < σ.next := by
      intro l hl
      cases olds with
      | nil => simp [optLoc] at hl
      | cons o os => exact hold o (by simp) l (by simpa using hl)
    obtain ⟨e1, c1, l1⟩ := applySlot_spec n σ olds.head?.join a hn hh hc
    have n1 : σ.next ≤ (applySlot σ olds.head?.join a).1.next := e1.1
    have ht : ∀ o ∈ olds.tail, ∀ l ∈ optLoc o, l < (applySlot σ olds.head?.join a).1.next :=
      fun o ho l hl => Nat.lt_of_lt_of_le (hold o (List.mem_of_mem_tail ho) l hl) n1
    obtain ⟨e2, c2, l2⟩ := ih _ olds.tail (Nat.le_trans hn n1) ht c1
    simp only [applySlots]
    refine ⟨e1.trans e2, c2, ?_⟩
    intro o ho l hl
    simp only [List.mem_cons] at ho
    rcases ho with rfl | ho
    · exact Nat.lt_of_lt_of_le (l1 l hl) e2.1
    · exact l2 o ho l hl

/-- **c08n_step**: a chaining call of any covered op class, doing to each of ANY number of type-local reference slots one
    of the things the table rows allow (reference copied / a map the call made itself / nil), leaves the extended
    observation of every live schema unchanged; the result is well-formed (and new, for chaining ops). -/
theorem c08n_step (cfg : Cfg) (hcfg : cfg.cloneBagAlways = true) (σ : Store) (live : List NSchema)
    (recv : NSchema) (x : XOp) (acts : List SlotAct) (hc : BagClosed σ) (hl : ∀ y ∈ live, WfN σ y) (hr : recv ∈ live)
    (hok : x.ok) :
    (∀ y ∈ live, obsN (applyNOp cfg σ recv x acts).1.heap y = obsN σ.heap y) ∧
    (∀ y ∈ live, WfN (applyNOp cfg σ recv x acts).1 y) ∧
    WfN (applyNOp cfg σ recv x acts).1 (applyNOp cfg σ recv x acts).2 ∧
    BagClosed (applyNOp cfg σ recv x acts).1 ∧
    (x.chains = true → ∀ y ∈ live, y.s.self ≠ (applyNOp cfg σ recv x acts).2.s.self) := by
  obtain ⟨he, hb, hw, hs⟩ := applyXOp_spec cfg hcfg σ recv.s x hc (hl recv hr).1 hok
  have hold : ∀ o ∈ recv.slots, ∀ l ∈ optLoc o, l < (applyXOp cfg σ recv.s x).1.next :=
    fun o ho l h => Nat.lt_of_lt_of_le ((hl recv hr).2 o ho l h) he.1
  obtain ⟨e2, c2, l2⟩ := applySlots_spec σ.next acts (applyXOp cfg σ recv.s x).1 recv.slots he.1 hold hb
  have e2' : ExtFrom (applyXOp cfg σ recv.s x).1.next (applyXOp cfg σ recv.s x).1
      (applySlots (applyXOp cfg σ recv.s x).1 recv.slots acts).1 := by
    obtain ⟨e, _, _⟩ := applySlots_spec (applyXOp cfg σ recv.s x).1.next acts (applyXOp cfg σ recv.s x).1 recv.slots
      (Nat.le_refl _) hold hb
    exact e
  have het := he.trans e2
  refine ⟨fun y hy => obsN_frame y (hl y hy) het, fun y hy => wfn_frame y (hl y hy) het,
    ⟨wfs_frame _ hw e2', l2⟩, c2, fun hch y hy e => ?_⟩
  have : y.s.self < σ.next := (hl y hy).1.1 _ (by simp [locs, direct])
  have h2 := hs hch
  simp only [applyNOp] at e
  rw [← e] at h2
  exact Nat.not_le_of_lt this h2

/-- **slots_of_covered**: every origin a covered result-row lists for a type-local reference field has a slot action
    (so `c08n_step` applies to what the row says about every field). -/
theorem slots_of_covered (r : MethodResult) (h : r.covered false = true) :
    ∀ f ∈ r.locals, ∀ o ∈ f.2, (Origin.acts o).isSome = true := by
  unfold MethodResult.covered MethodResult.localsSafe at h
  simp only [Bool.and_eq_true, List.all_eq_true] at h
  intro f hf o ho
  have := h.1 f hf o ho
  cases o <;> simp_all [Origin.safe, Origin.acts]

/-- non-vacuity of `c08n_step`: two slots, one shared and one replaced by a fresh key set -/
example : (XOp.base (.derive 1 [] none)).ok := ⟨trivial, rfl⟩

end Gozod.C08
